// Package tlvwalk is a minimal, independent NDN TLV walker. It imports nothing
// from the repository under test: it is the yardstick for "well-formed, every
// length exact, shortest form".
package tlvwalk

import (
	"errors"
	"fmt"
)

// Node is one TLV element.
type Node struct {
	Type     uint64
	Off      int // offset of the first byte of T
	ValOff   int // offset of the first byte of V
	End      int // offset one past the last byte of V
	TLen     int // bytes used by T
	LLen     int // bytes used by L
	Children []*Node
}

func (n *Node) Len() int { return n.End - n.ValOff }

// Child returns the first child of the given type (nil if absent).
func (n *Node) Child(t uint64) *Node {
	for _, c := range n.Children {
		if c.Type == t {
			return c
		}
	}
	return nil
}

// ReadVar reads an NDN variable-size number at buf[off:]. strict demands the
// shortest form.
func ReadVar(buf []byte, off int, strict bool) (val uint64, n int, err error) {
	if off >= len(buf) {
		return 0, 0, errors.New("truncated var-number")
	}
	b := buf[off]
	switch {
	case b <= 0xfc:
		return uint64(b), 1, nil
	case b == 0xfd:
		n = 3
	case b == 0xfe:
		n = 5
	default:
		n = 9
	}
	if off+n > len(buf) {
		return 0, 0, errors.New("truncated var-number")
	}
	for _, x := range buf[off+1 : off+n] {
		val = val<<8 | uint64(x)
	}
	if strict {
		switch n {
		case 3:
			if val <= 0xfc {
				return 0, 0, fmt.Errorf("var-number %d not in shortest form (3 bytes)", val)
			}
		case 5:
			if val <= 0xffff {
				return 0, 0, fmt.Errorf("var-number %d not in shortest form (5 bytes)", val)
			}
		case 9:
			if val <= 0xffffffff {
				return 0, 0, fmt.Errorf("var-number %d not in shortest form (9 bytes)", val)
			}
		}
	}
	return val, n, nil
}

// AppendVar appends the shortest-form var-number.
func AppendVar(b []byte, v uint64) []byte {
	switch {
	case v <= 0xfc:
		return append(b, byte(v))
	case v <= 0xffff:
		return append(b, 0xfd, byte(v>>8), byte(v))
	case v <= 0xffffffff:
		return append(b, 0xfe, byte(v>>24), byte(v>>16), byte(v>>8), byte(v))
	default:
		return append(b, 0xff, byte(v>>56), byte(v>>48), byte(v>>40), byte(v>>32), byte(v>>24), byte(v>>16), byte(v>>8), byte(v))
	}
}

// TLV builds one element.
func TLV(t uint64, v []byte) []byte {
	b := AppendVar(nil, t)
	b = AppendVar(b, uint64(len(v)))
	return append(b, v...)
}

// Nest decides whether the element reached through path (types from the
// outermost element to this one) is a container of TLVs.
type Nest func(path []uint64) bool

// Walk parses buf[start:end] as a sequence of elements; every length must be
// exact (children fill their parent completely).
func Walk(buf []byte, start, end int, nest Nest, strict bool) ([]*Node, error) {
	return walk(buf, start, end, nest, strict, nil)
}

func walk(buf []byte, start, end int, nest Nest, strict bool, path []uint64) ([]*Node, error) {
	var out []*Node
	off := start
	for off < end {
		t, tn, err := ReadVar(buf[:end], off, strict)
		if err != nil {
			return nil, fmt.Errorf("at %d (path %v): type: %v", off, path, err)
		}
		l, ln, err := ReadVar(buf[:end], off+tn, strict)
		if err != nil {
			return nil, fmt.Errorf("at %d (path %v, type %d): length: %v", off, path, t, err)
		}
		vo := off + tn + ln
		if l > uint64(end-vo) {
			return nil, fmt.Errorf("at %d (path %v): element type %d announces %d value bytes but only %d remain in its parent", off, path, t, l, end-vo)
		}
		n := &Node{Type: t, Off: off, ValOff: vo, End: vo + int(l), TLen: tn, LLen: ln}
		p2 := append(append([]uint64{}, path...), t)
		if nest != nil && nest(p2) {
			ch, err := walk(buf, n.ValOff, n.End, nest, strict, p2)
			if err != nil {
				return nil, err
			}
			n.Children = ch
		}
		out = append(out, n)
		off = n.End
	}
	return out, nil
}

// One parses buf as exactly one element.
func One(buf []byte, nest Nest, strict bool) (*Node, error) {
	ns, err := Walk(buf, 0, len(buf), nest, strict)
	if err != nil {
		return nil, err
	}
	if len(ns) != 1 {
		return nil, fmt.Errorf("expected exactly one top-level element, found %d", len(ns))
	}
	return ns[0], nil
}

// PacketNest is the container schema of NDN packets (spec v0.3) and NDNLPv2.
func PacketNest(path []uint64) bool {
	n := len(path)
	t := path[n-1]
	parent := uint64(0)
	if n >= 2 {
		parent = path[n-2]
	}
	switch n {
	case 1:
		return t == 5 || t == 6 || t == 0x64
	}
	switch parent {
	case 5: // Interest
		return t == 7 || t == 0x1e || t == 0x2c
	case 6: // Data
		return t == 7 || t == 0x14 || t == 0x16
	case 0x1e: // ForwardingHint
		return t == 7
	case 0x16, 0x2c: // SignatureInfo
		return t == 0x1c || t == 0xfd || t == 0x0102
	case 0x1c: // KeyLocator
		return t == 7
	case 0x0102:
		return t == 0x0200
	case 0x14: // MetaInfo: FinalBlockId holds one component
		return t == 0x1a
	case 0x64: // LpPacket
		return t == 0x0320 || t == 0x0334
	}
	return false
}

// NatVal decodes a NonNegativeInteger (1,2,4,8 bytes).
func NatVal(b []byte) (uint64, bool) {
	switch len(b) {
	case 1, 2, 4, 8:
		var v uint64
		for _, x := range b {
			v = v<<8 | uint64(x)
		}
		return v, true
	}
	return 0, false
}
