// Package simeng provides a harness-owned engine face and a thread-safe
// virtual ndn.Timer (logical time) for driving std/engine/basic, std/object
// and dv without wall-clock dependence.
package simeng

import (
	"container/heap"
	"errors"
	"sync"
	"time"

	enc "github.com/named-data/ndnd/std/encoding"
)

// ---- virtual timer

type event struct {
	at        time.Time
	seq       uint64
	fn        func()
	cancelled bool
	fired     bool
	idx       int
}

type evHeap []*event

func (h evHeap) Len() int { return len(h) }
func (h evHeap) Less(i, j int) bool {
	if h[i].at.Equal(h[j].at) {
		return h[i].seq < h[j].seq
	}
	return h[i].at.Before(h[j].at)
}
func (h evHeap) Swap(i, j int) { h[i], h[j] = h[j], h[i]; h[i].idx = i; h[j].idx = j }
func (h *evHeap) Push(x any)   { e := x.(*event); e.idx = len(*h); *h = append(*h, e) }
func (h *evHeap) Pop() any     { o := *h; n := len(o); e := o[n-1]; *h = o[:n-1]; return e }

// Timer is a virtual clock: time moves only when Advance is called.
type Timer struct {
	mu    sync.Mutex
	now   time.Time
	seq   uint64
	evs   evHeap
	nonce uint64
}

func NewTimer() *Timer {
	return &Timer{now: time.Unix(1700000000, 0)}
}

func (t *Timer) Now() time.Time {
	t.mu.Lock()
	defer t.mu.Unlock()
	return t.now
}

func (t *Timer) Schedule(d time.Duration, fn func()) func() error {
	t.mu.Lock()
	defer t.mu.Unlock()
	t.seq++
	e := &event{at: t.now.Add(d), seq: t.seq, fn: fn}
	heap.Push(&t.evs, e)
	return func() error {
		t.mu.Lock()
		defer t.mu.Unlock()
		if e.cancelled || e.fired {
			return errors.New("event has already been canceled or fired")
		}
		e.cancelled = true
		return nil
	}
}

// Sleep blocks until the virtual clock has advanced by d.
func (t *Timer) Sleep(d time.Duration) {
	ch := make(chan struct{})
	t.Schedule(d, func() { close(ch) })
	<-ch
}

func (t *Timer) Nonce() []byte {
	t.mu.Lock()
	defer t.mu.Unlock()
	t.nonce++
	v := t.nonce*2654435761 + 12345
	return []byte{byte(v >> 56), byte(v >> 48), byte(v >> 40), byte(v >> 32), byte(v >> 24), byte(v >> 16), byte(v >> 8), byte(v)}
}

// Advance moves the clock forward by d, running due events in time order on the
// calling goroutine (the clock shows each event's own time while it runs).
func (t *Timer) Advance(d time.Duration) int {
	t.mu.Lock()
	target := t.now.Add(d)
	fired := 0
	for {
		if len(t.evs) == 0 || t.evs[0].at.After(target) {
			break
		}
		e := heap.Pop(&t.evs).(*event)
		if e.cancelled {
			continue
		}
		if e.at.After(t.now) {
			t.now = e.at
		}
		e.fired = true
		t.mu.Unlock()
		e.fn()
		fired++
		t.mu.Lock()
	}
	if target.After(t.now) {
		t.now = target
	}
	t.mu.Unlock()
	return fired
}

// Pending returns the number of scheduled, not cancelled events and the time of the earliest one.
func (t *Timer) Pending() (int, time.Duration) {
	t.mu.Lock()
	defer t.mu.Unlock()
	n := 0
	var first time.Duration = -1
	for _, e := range t.evs {
		if !e.cancelled {
			n++
			if d := e.at.Sub(t.now); first < 0 || d < first {
				first = d
			}
		}
	}
	return n, first
}

// ---- face

// Face is an in-memory engine face: packets the engine sends are recorded (or
// handed to OnSend), packets are fed with Feed.
type Face struct {
	mu      sync.Mutex
	running bool
	local   bool
	onPkt   func(r enc.ParseReader) error
	onError func(err error) error
	Sent    [][]byte
	OnSend  func(b []byte) // optional: called instead of recording
}

func NewFace(local bool) *Face { return &Face{local: local} }

func (f *Face) Open() error {
	f.mu.Lock()
	defer f.mu.Unlock()
	if f.onPkt == nil || f.onError == nil {
		return errors.New("face callbacks are not set")
	}
	if f.running {
		return errors.New("face is already running")
	}
	f.running = true
	return nil
}

func (f *Face) Close() error {
	f.mu.Lock()
	defer f.mu.Unlock()
	if !f.running {
		return errors.New("face is not running")
	}
	f.running = false
	return nil
}

func (f *Face) IsRunning() bool {
	f.mu.Lock()
	defer f.mu.Unlock()
	return f.running
}

func (f *Face) IsLocal() bool { return f.local }

func (f *Face) SetCallback(onPkt func(r enc.ParseReader) error, onError func(err error) error) {
	f.mu.Lock()
	f.onPkt, f.onError = onPkt, onError
	f.mu.Unlock()
}

func (f *Face) Send(pkt enc.Wire) error {
	f.mu.Lock()
	if !f.running {
		f.mu.Unlock()
		return errors.New("face is not running")
	}
	b := append([]byte{}, pkt.Join()...)
	cb := f.OnSend
	if cb == nil {
		f.Sent = append(f.Sent, b)
	}
	f.mu.Unlock()
	if cb != nil {
		cb(b)
	}
	return nil
}

// Feed delivers one packet to the engine (as the face's receive loop would).
func (f *Face) Feed(b []byte) error {
	f.mu.Lock()
	cb := f.onPkt
	run := f.running
	f.mu.Unlock()
	if !run || cb == nil {
		return errors.New("face is not running")
	}
	return cb(enc.NewBufferReader(append([]byte{}, b...)))
}

// RaiseError reports a transport error to the engine (as a face's receive loop does when the peer
// resets or closes the connection).
func (f *Face) RaiseError(err error) error {
	f.mu.Lock()
	cb := f.onError
	f.mu.Unlock()
	if cb == nil {
		return errors.New("no error callback")
	}
	return cb(err)
}

// TakeSent returns and clears the recorded packets.
func (f *Face) TakeSent() [][]byte {
	f.mu.Lock()
	defer f.mu.Unlock()
	s := f.Sent
	f.Sent = nil
	return s
}
