package simeng

import (
	"sync"

	enc "github.com/named-data/ndnd/std/encoding"
	"github.com/named-data/ndnd/std/ndn"
	spec "github.com/named-data/ndnd/std/ndn/spec_2022"
)

// Expressed is one Interest handed to Engine.Express.
type Expressed struct {
	Interest *ndn.EncodedInterest
	Callback ndn.ExpressCallbackFunc
}

// MgmtCall is one ExecMgmtCmd invocation.
type MgmtCall struct {
	Module, Cmd string
	Args        any
}

// Engine is a harness-owned ndn.Engine: everything the application sends is
// captured; nothing is delivered unless the harness does it.
type Engine struct {
	mu        sync.Mutex
	T         *Timer
	running   bool
	Handlers  map[string]ndn.InterestHandler
	Expressed []Expressed
	Mgmt      []MgmtCall
	OnExpress func(e Expressed) // optional hook, called outside the lock
	// MgmtFail, when set, decides for the n-th ExecMgmtCmd invocation (from 0) whether the forwarder
	// refuses it; refused invocations are not recorded in Mgmt
	MgmtFail func(n int, call MgmtCall) error
	nMgmt    int
}

func NewEngine(t *Timer) *Engine {
	return &Engine{T: t, Handlers: map[string]ndn.InterestHandler{}}
}

func (e *Engine) EngineTrait() ndn.Engine { return e }
func (e *Engine) Spec() ndn.Spec          { return spec.Spec{} }
func (e *Engine) Timer() ndn.Timer        { return e.T }
func (e *Engine) Start() error            { e.mu.Lock(); e.running = true; e.mu.Unlock(); return nil }
func (e *Engine) Stop() error             { e.mu.Lock(); e.running = false; e.mu.Unlock(); return nil }
func (e *Engine) IsRunning() bool         { e.mu.Lock(); defer e.mu.Unlock(); return e.running }

func (e *Engine) AttachHandler(prefix enc.Name, handler ndn.InterestHandler) error {
	e.mu.Lock()
	defer e.mu.Unlock()
	k := prefix.String()
	if _, ok := e.Handlers[k]; ok {
		return ndn.ErrMultipleHandlers
	}
	e.Handlers[k] = handler
	return nil
}

func (e *Engine) DetachHandler(prefix enc.Name) error {
	e.mu.Lock()
	defer e.mu.Unlock()
	delete(e.Handlers, prefix.String())
	return nil
}

func (e *Engine) Express(interest *ndn.EncodedInterest, callback ndn.ExpressCallbackFunc) error {
	x := Expressed{Interest: interest, Callback: callback}
	e.mu.Lock()
	hook := e.OnExpress
	if hook == nil {
		e.Expressed = append(e.Expressed, x)
	}
	e.mu.Unlock()
	if hook != nil {
		hook(x)
	}
	return nil
}

func (e *Engine) RegisterRoute(prefix enc.Name) error   { return nil }
func (e *Engine) UnregisterRoute(prefix enc.Name) error { return nil }

func (e *Engine) ExecMgmtCmd(module string, cmd string, args any) error {
	e.mu.Lock()
	defer e.mu.Unlock()
	n := e.nMgmt
	e.nMgmt++
	if e.MgmtFail != nil {
		if err := e.MgmtFail(n, MgmtCall{module, cmd, args}); err != nil {
			return err
		}
	}
	e.Mgmt = append(e.Mgmt, MgmtCall{module, cmd, args})
	return nil
}

// MgmtCalls returns a copy of the accepted management invocations and the number of invocations made.
func (e *Engine) MgmtCalls() ([]MgmtCall, int) {
	e.mu.Lock()
	defer e.mu.Unlock()
	return append([]MgmtCall{}, e.Mgmt...), e.nMgmt
}

// TakeExpressed returns and clears the captured Interests.
func (e *Engine) TakeExpressed() []Expressed {
	e.mu.Lock()
	defer e.mu.Unlock()
	x := e.Expressed
	e.Expressed = nil
	return x
}
