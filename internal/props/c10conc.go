package props

import (
	"bytes"
	"fmt"
	"math/rand"
	"sync"

	defn "github.com/named-data/ndnd/fw/defn"
	"github.com/named-data/ndnd/fw/dispatch"
	"github.com/named-data/ndnd/fw/face"
	fwfw "github.com/named-data/ndnd/fw/fw"
	enc "github.com/named-data/ndnd/std/encoding"
	spec "github.com/named-data/ndnd/std/ndn/spec_2022"

	"verif/internal/fwenv"
	"verif/internal/h"
)

// c10Faces: several link services of one process send at the same time (every face has its own
// send goroutine in the daemon; multicast and Data fan-out put sendPacket on different faces
// concurrently). What each face's peer reassembles must be exactly what was sent on that face.
func c10Faces(c *h.Ctx, id string, r *rand.Rand) {
	c.Eval(1)
	rts := fwenv.InstallRecThreads(2)
	fwfw.Threads = make([]*fwfw.Thread, 2)
	nFaces := 2 + r.Intn(3)
	perFace := 150 + r.Intn(150)
	mtu := []int{400, 1500, 8800}[r.Intn(3)]
	type faceSet struct {
		send, recv *face.NDNLPLinkService
		tr         *face.VerifTransport
		msgs       []*c10Msg
	}
	mk := func(fid uint64) (*face.NDNLPLinkService, *face.VerifTransport) {
		tr := face.NewVerifTransport(defn.NonLocal, defn.PointToPoint, mtu)
		o := face.MakeNDNLPLinkServiceOptions()
		o.IsFragmentationEnabled = true
		o.IsReassemblyEnabled = true
		ls := face.MakeNDNLPLinkService(tr, o)
		ls.SetFaceID(fid)
		return ls, tr
	}
	fs := make([]*faceSet, nFaces)
	for k := range fs {
		s, tr := mk(uint64(500 + k))
		rc, _ := mk(uint64(600 + k))
		fs[k] = &faceSet{send: s, recv: rc, tr: tr}
		// the same sizes on every face (equal-size packets are the ones a mix-up would not even
		// damage structurally), contents marked with the face
		sr := rand.New(rand.NewSource(int64(r.Intn(1 << 30))))
		for i := 0; i < perFace; i++ {
			size := []int{60, 200, 390, 1000, 3000}[i%5]
			m := &c10Msg{kind: "data", wire: c10Packet(sr, size, false), token: []byte{0, 0, byte(k), byte(i >> 8), byte(i), 7}}
			if m.wire == nil {
				c.Inconclusive("cannot build packet")
				return
			}
			fs[k].msgs = append(fs[k].msgs, m)
		}
	}
	var wg sync.WaitGroup
	var panicked *h.PanicInfo
	var pmu sync.Mutex
	for _, f := range fs {
		wg.Add(1)
		go func(f *faceSet) {
			defer wg.Done()
			inFace := uint64(77)
			for _, m := range f.msgs {
				l3, _, err := spec.ReadPacket(enc.NewBufferReader(append([]byte{}, m.wire...)))
				if err != nil {
					return
				}
				p := &defn.Pkt{Raw: append([]byte{}, m.wire...), L3: l3, IncomingFaceID: &inFace}
				out := dispatch.OutPkt{Pkt: p, PitToken: m.token, InFace: &inFace}
				if pi := h.Guard(func() { face.VerifSend(f.send, out) }); pi != nil {
					pmu.Lock()
					panicked = pi
					pmu.Unlock()
					return
				}
			}
		}(f)
	}
	wg.Wait()
	det := map[string]any{"faces": nFaces, "packets_per_face": perFace, "mtu": mtu}
	if panicked != nil {
		c.Violation("C10:panic:send:"+panicked.Frame+":"+panicked.Class, id, "sendPacket panicked while several faces were sending: "+panicked.Value, det)
		return
	}
	for k, f := range fs {
		for _, t := range rts {
			t.Take()
		}
		for _, fb := range f.tr.TakeFrames() {
			fb := fb
			if pi := h.Guard(func() { face.VerifRecv(f.recv, fb) }); pi != nil {
				c.Violation("C10:panic:recv:"+pi.Frame+":"+pi.Class, id, "handleIncomingFrame panicked on frames produced by a sender: "+pi.Value, det)
				return
			}
		}
		delivered := fwenv.TakeAll(rts)
		if len(delivered) != len(f.msgs) {
			c.Violation("C10:concurrent-faces:delivered-count", id, fmt.Sprintf("face %d of %d sending concurrently: %d packets sent, its peer reassembled %d", k, nFaces, len(f.msgs), len(delivered)), det)
			return
		}
		for i, m := range f.msgs {
			p := delivered[i]
			if !bytes.Equal(p.Raw, m.wire) || !bytes.Equal(p.PitToken, m.token) {
				c.Violation("C10:concurrent-faces:packet-differs", id, fmt.Sprintf("face %d of %d sending concurrently: packet %d reassembled by its peer differs from what was sent on this face (bytes equal: %v, PIT token %x, sent %x)", k, nFaces, i, bytes.Equal(p.Raw, m.wire), p.PitToken, m.token), det)
				return
			}
		}
		c.Count("concurrent_face_packets", int64(len(f.msgs)))
	}
	c.Distinct(fmt.Sprintf("concurrent-faces|n=%d|mtu=%d", nFaces, mtu))
}
