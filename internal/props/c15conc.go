package props

import (
	"bytes"
	"fmt"
	"math/rand"
	"runtime"
	"sync"
	"time"

	enc "github.com/named-data/ndnd/std/encoding"
	"github.com/named-data/ndnd/std/engine/basic"
	"github.com/named-data/ndnd/std/log"
	"github.com/named-data/ndnd/std/ndn"
	"github.com/named-data/ndnd/std/object"
	sec "github.com/named-data/ndnd/std/security"

	"verif/internal/h"
	"verif/internal/simeng"
)

// c15Several: one consumer client fetches several objects of different lengths at the same time
// (tools and the routing daemon share one client for all their fetches). Every fetch must complete
// exactly once with its own object's bytes, whatever the order in which the fetches finish.
func c15Several(c *h.Ctx, id string, r *rand.Rand) {
	c.Eval(1)
	log.SetLevel(log.FatalLevel)
	tm := simeng.NewTimer()
	net := &c15Net{drops: map[string]int{}, dropAll: map[string]bool{}, r: r}
	pf, cf := simeng.NewFace(true), simeng.NewFace(true)
	pf.OnSend = func(b []byte) { net.enqueue(false, b) }
	cf.OnSend = func(b []byte) { net.enqueue(true, b) }
	okSig := func(enc.Name, enc.Wire, ndn.Signature) bool { return true }
	pe := basic.NewEngine(pf, tm, sec.NewSha256IntSigner(tm), okSig)
	ce := basic.NewEngine(cf, tm, sec.NewSha256IntSigner(tm), okSig)
	if pe.Start() != nil || ce.Start() != nil {
		c.Inconclusive("engine start failed")
		return
	}
	prod := object.NewClient(pe, object.NewMemoryStore())
	cons := object.NewClient(ce, object.NewMemoryStore())
	if prod.Start() != nil || cons.Start() != nil {
		c.Inconclusive("client start failed")
		return
	}
	defer prod.Stop()
	defer cons.Stop()
	nObj := 2 + r.Intn(3)
	type fetch struct {
		name        enc.Name
		want, got   []byte
		completions int
		err         error
	}
	var mu sync.Mutex
	fs := make([]*fetch, nObj)
	sizes := r.Perm(nObj)
	for i := range fs {
		// lengths from one segment to far beyond the fetch window, in a PRNG order: which fetch
		// finishes first is decided by the lengths, not by the order of the Consume calls
		size := []int{200, 8000*3 + 17, 8000*14 + 1, 8000 * 30, 7999}[sizes[i]%5]
		raw, wire := c15Content(r, size)
		nm, _ := enc.NameFromStr(fmt.Sprintf("/several/o%d", i))
		v := uint64(1 + r.Intn(5))
		if _, err := prod.Produce(object.ProduceArgs{Name: nm.Clone(), Content: wire, Version: &v}); err != nil {
			c.Violation("C15:produce-error", id, "Produce failed: "+err.Error(), nil)
			return
		}
		fs[i] = &fetch{name: nm, want: raw}
	}
	for _, f := range fs {
		f := f
		cons.Consume(f.name.Clone(), func(s *object.ConsumeState) bool {
			mu.Lock()
			defer mu.Unlock()
			if s.IsComplete() {
				f.completions++
				f.err = s.Error()
			}
			if s.Error() == nil {
				f.got = append(f.got, s.Content()...)
			}
			return true
		})
	}
	det := func() map[string]any {
		var l []string
		for _, f := range fs {
			l = append(l, fmt.Sprintf("%s: %d bytes published, %d received, %d completions, err=%v", f.name, len(f.want), len(f.got), f.completions, f.err))
		}
		return map[string]any{"fetches_started_together_on_one_client": l, "relayed": net.nRelayed}
	}
	deadline := time.Now().Add(60 * time.Second)
	idle := 0
	for {
		if time.Now().After(deadline) {
			c.Inconclusive("concurrent transfers did not finish within 60 s of wall clock")
			return
		}
		mu.Lock()
		done := true
		for _, f := range fs {
			if f.completions == 0 {
				done = false
			}
		}
		mu.Unlock()
		net.mu.Lock()
		var p *c15Pkt
		if len(net.q) > 0 {
			p = net.q[0]
			net.q = net.q[1:]
		}
		net.mu.Unlock()
		if p != nil {
			idle = 0
			net.nRelayed++
			if p.toProducer {
				_ = pf.Feed(p.b)
			} else {
				_ = cf.Feed(p.b)
			}
			continue
		}
		if blockedInSelect("github.com/named-data/ndnd/std/object.(*Client).run") < 2 || net.size() > 0 {
			runtime.Gosched()
			time.Sleep(50 * time.Microsecond)
			continue
		}
		idle++
		if idle < 3 {
			runtime.Gosched()
			continue
		}
		if done {
			break
		}
		nEv, first := tm.Pending()
		if nEv == 0 {
			c.Violation("C15:silent:concurrent-fetches", id, "with several fetches started on one client, at least one neither completed nor has any timer pending: its callback will never report completion", det())
			return
		}
		tm.Advance(first)
		idle = 0
	}
	mu.Lock()
	defer mu.Unlock()
	for _, f := range fs {
		if f.completions != 1 || f.err != nil {
			c.Violation("C15:completion-count:concurrent-fetches", id, fmt.Sprintf("fetch of %s completed %d times (err=%v) on a lossless link", f.name, f.completions, f.err), det())
			return
		}
		if !bytes.Equal(f.got, f.want) {
			c.Violation("C15:content-differs:concurrent-fetches", id, fmt.Sprintf("fetch of %s returned %d bytes that differ from the %d bytes published", f.name, len(f.got), len(f.want)), det())
			return
		}
	}
	c.Count("concurrent_fetches", int64(nObj))
	c.Distinct(fmt.Sprintf("several|n=%d", nObj))
}
