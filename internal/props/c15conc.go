package props

import (
	"bytes"
	"fmt"
	"math/rand"
	"runtime"
	"sync"
	"time"

	enc "github.com/named-data/ndnd/std/encoding"
	"github.com/named-data/ndnd/std/engine/basic"
	"github.com/named-data/ndnd/std/log"
	"github.com/named-data/ndnd/std/ndn"
	"github.com/named-data/ndnd/std/object"
	sec "github.com/named-data/ndnd/std/security"

	"verif/internal/h"
	"verif/internal/simeng"
)

// c15Several: one consumer client fetches several objects of different lengths at the same time
// (tools and the routing daemon share one client for all their fetches). Every fetch must complete
// exactly once with its own object's bytes, whatever the order in which the fetches finish.
func c15Several(c *h.Ctx, id string, r *rand.Rand) {
	c.Eval(1)
	log.SetLevel(log.FatalLevel)
	tm := simeng.NewTimer()
	net := &c15Net{drops: map[string]int{}, dropAll: map[string]bool{}, r: r}
	pf, cf := simeng.NewFace(true), simeng.NewFace(true)
	pf.OnSend = func(b []byte) { net.enqueue(false, b) }
	cf.OnSend = func(b []byte) { net.enqueue(true, b) }
	okSig := func(enc.Name, enc.Wire, ndn.Signature) bool { return true }
	pe := basic.NewEngine(pf, tm, sec.NewSha256IntSigner(tm), okSig)
	ce := basic.NewEngine(cf, tm, sec.NewSha256IntSigner(tm), okSig)
	if pe.Start() != nil || ce.Start() != nil {
		c.Inconclusive("engine start failed")
		return
	}
	prod := object.NewClient(pe, object.NewMemoryStore())
	cons := object.NewClient(ce, object.NewMemoryStore())
	if prod.Start() != nil || cons.Start() != nil {
		c.Inconclusive("client start failed")
		return
	}
	defer prod.Stop()
	defer cons.Stop()
	nObj := 2 + r.Intn(3)
	type fetch struct {
		name        enc.Name
		want, got   []byte
		completions int
		err         error
	}
	var mu sync.Mutex
	fs := make([]*fetch, nObj)
	sizes := r.Perm(nObj)
	for i := range fs {
		// lengths from one segment to far beyond the fetch window, in a PRNG order: which fetch
		// finishes first is decided by the lengths, not by the order of the Consume calls
		size := []int{200, 8000*3 + 17, 8000*14 + 1, 8000 * 30, 7999}[sizes[i]%5]
		raw, wire := c15Content(r, size)
		nm, _ := enc.NameFromStr(fmt.Sprintf("/several/o%d", i))
		v := uint64(1 + r.Intn(5))
		if _, err := prod.Produce(object.ProduceArgs{Name: nm.Clone(), Content: wire, Version: &v}); err != nil {
			c.Violation("C15:produce-error", id, "Produce failed: "+err.Error(), nil)
			return
		}
		fs[i] = &fetch{name: nm, want: raw}
	}
	if r.Intn(2) == 0 {
		// the same object asked for twice at the same time (two parts of one application): each caller
		// gets its own completion and the whole content
		dup := *fs[r.Intn(len(fs))]
		fs = append(fs, &dup)
		c.Count("same_object_fetched_twice_at_once", 1)
	}
	for _, f := range fs {
		f := f
		cons.Consume(f.name.Clone(), func(s *object.ConsumeState) bool {
			mu.Lock()
			defer mu.Unlock()
			if s.IsComplete() {
				f.completions++
				f.err = s.Error()
			}
			if s.Error() == nil {
				f.got = append(f.got, s.Content()...)
			}
			return true
		})
	}
	det := func() map[string]any {
		var l []string
		for _, f := range fs {
			l = append(l, fmt.Sprintf("%s: %d bytes published, %d received, %d completions, err=%v", f.name, len(f.want), len(f.got), f.completions, f.err))
		}
		return map[string]any{"fetches_started_together_on_one_client": l, "relayed": net.nRelayed}
	}
	deadline := time.Now().Add(60 * time.Second)
	idle := 0
	for {
		if time.Now().After(deadline) {
			c.Inconclusive("concurrent transfers did not finish within 60 s of wall clock")
			return
		}
		mu.Lock()
		done := true
		for _, f := range fs {
			if f.completions == 0 {
				done = false
			}
		}
		mu.Unlock()
		net.mu.Lock()
		var p *c15Pkt
		if len(net.q) > 0 {
			p = net.q[0]
			net.q = net.q[1:]
		}
		net.mu.Unlock()
		if p != nil {
			idle = 0
			net.nRelayed++
			if p.toProducer {
				_ = pf.Feed(p.b)
			} else {
				_ = cf.Feed(p.b)
			}
			continue
		}
		if blockedInSelect("github.com/named-data/ndnd/std/object.(*Client).run") < 2 || net.size() > 0 {
			runtime.Gosched()
			time.Sleep(50 * time.Microsecond)
			continue
		}
		idle++
		if idle < 3 {
			runtime.Gosched()
			continue
		}
		if done {
			break
		}
		nEv, first := tm.Pending()
		if nEv == 0 {
			c.Violation("C15:silent:concurrent-fetches", id, "with several fetches started on one client, at least one neither completed nor has any timer pending: its callback will never report completion", det())
			return
		}
		tm.Advance(first)
		idle = 0
	}
	mu.Lock()
	defer mu.Unlock()
	for _, f := range fs {
		if f.completions != 1 || f.err != nil {
			c.Violation("C15:completion-count:concurrent-fetches", id, fmt.Sprintf("fetch of %s completed %d times (err=%v) on a lossless link", f.name, f.completions, f.err), det())
			return
		}
		if !bytes.Equal(f.got, f.want) {
			c.Violation("C15:content-differs:concurrent-fetches", id, fmt.Sprintf("fetch of %s returned %d bytes that differ from the %d bytes published", f.name, len(f.got), len(f.want)), det())
			return
		}
	}
	c.Count("concurrent_fetches", int64(nObj))
	c.Distinct(fmt.Sprintf("several|n=%d", nObj))
}

// c15ServeWhilePublishing: the on-disk store is read (Interests being served) while a publisher
// adds further objects. Every read must return the stored packet of exactly the requested name and
// afterwards every published segment must be retrievable under its own name.
func c15ServeWhilePublishing(c *h.Ctx, id string, r *rand.Rand) {
	c.Eval(1)
	log.SetLevel(log.FatalLevel)
	st, err := c15Store(c, "bolt", "serve_"+fmt.Sprint(c.Batch)+"_"+fmt.Sprint(r.Intn(1<<30)))
	if err != nil {
		c.Inconclusive("cannot open store: " + err.Error())
		return
	}
	defer st.closeFn()
	tm := simeng.NewTimer()
	f := simeng.NewFace(true)
	e := basic.NewEngine(f, tm, sec.NewSha256IntSigner(tm), func(enc.Name, enc.Wire, ndn.Signature) bool { return true })
	if e.Start() != nil {
		c.Inconclusive("engine start failed")
		return
	}
	cl := object.NewClient(e, st.store)
	// objects already published: the ones being served
	type seg struct {
		name enc.Name
		wire []byte
	}
	var old []seg
	for i := 0; i < 6; i++ {
		on, _ := enc.NameFromStr(fmt.Sprintf("/served/o%d", i))
		raw, wire := c15Content(r, 8000*2+100*(i+1))
		v := uint64(7)
		if _, err := cl.Produce(object.ProduceArgs{Name: on.Clone(), Content: wire, Version: &v}); err != nil {
			c.Violation("C15:produce-error", id, "Produce failed: "+err.Error(), nil)
			return
		}
		_ = raw
		for sg := 0; sg < 3; sg++ {
			n := append(on.Clone(), enc.NewVersionComponent(7), enc.NewSegmentComponent(uint64(sg)))
			w, _ := st.store.Get(n.Clone(), false)
			if w == nil {
				c.Inconclusive("a published segment is not in the store")
				return
			}
			old = append(old, seg{n, append([]byte{}, w...)})
		}
	}
	stop := make(chan struct{})
	var wg sync.WaitGroup
	var mu sync.Mutex
	bad := ""
	reads := 0
	for g := 0; g < 2; g++ {
		wg.Add(1)
		go func(g int) {
			defer wg.Done()
			for k := g; ; k++ {
				select {
				case <-stop:
					return
				default:
				}
				s := old[k%len(old)]
				w, _ := st.store.Get(s.name.Clone(), false)
				mu.Lock()
				reads++
				if !bytes.Equal(w, s.wire) && bad == "" {
					bad = fmt.Sprintf("Get(%s) returned %d bytes that are not the stored packet (%d bytes) while another object was being published", s.name, len(w), len(s.wire))
				}
				mu.Unlock()
			}
		}(g)
	}
	// the publisher
	nNew := 3 + r.Intn(3)
	type pub struct {
		name enc.Name
		segs int
	}
	var pubs []pub
	for i := 0; i < nNew; i++ {
		on, _ := enc.NameFromStr(fmt.Sprintf("/published/n%d", i))
		size := 8000 * (20 + r.Intn(40))
		_, wire := c15Content(r, size)
		v := uint64(3)
		if _, err := cl.Produce(object.ProduceArgs{Name: on.Clone(), Content: wire, Version: &v}); err != nil {
			close(stop)
			wg.Wait()
			c.Violation("C15:produce-error", id, "Produce failed: "+err.Error(), nil)
			return
		}
		pubs = append(pubs, pub{on, size / 8000})
	}
	close(stop)
	wg.Wait()
	c.Count("store_reads_during_publication", int64(reads))
	if bad != "" {
		c.Violation("C15:store-read-wrong-during-publication", id, bad, nil)
		return
	}
	for _, p := range pubs {
		for sg := 0; sg < p.segs; sg++ {
			n := append(p.name.Clone(), enc.NewVersionComponent(3), enc.NewSegmentComponent(uint64(sg)))
			w, _ := st.store.Get(n.Clone(), false)
			ok := false
			if w != nil {
				if v, err := viewPacket(w); err == nil && v.name.Equal(n) {
					ok = true
				}
			}
			if !ok {
				c.Violation("C15:published-segment-missing", id, fmt.Sprintf("segment %s of an object published while the store was being read is not retrievable under its own name afterwards (Produce reported success)", n), map[string]any{"reads_during_publication": reads})
				return
			}
		}
	}
	c.Distinct("serve-while-publishing")
}
