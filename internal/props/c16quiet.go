package props

import (
	"fmt"
	"math/rand"
	"runtime"
	"sort"
	"sync"
	"sync/atomic"
	"time"

	"github.com/named-data/ndnd/fw/table"
	enc "github.com/named-data/ndnd/std/encoding"

	"verif/internal/h"
)

// c16Quiescent: route updates (RIB writers), strategy set/unset commands - most of them logical
// no-ops: unset on a prefix that has no strategy of its own - and forwarding lookups overlap on a few
// prefixes. "The final tables equal some sequential ordering" implies, whatever that ordering is,
// that once every goroutine has finished the FIB is exactly the flattening of the routes the RIB
// then holds (strategy commands never touch next hops), and that the strategy table holds exactly
// the strategies of the last set/unset per prefix (one strategy goroutine: its order is known).
func c16Quiescent(c *h.Ctx, id string, r *rand.Rand) {
	c.Eval(1)
	algo := []string{"nametree", "hashtable"}[r.Intn(2)]
	m := 1 + r.Intn(3)
	c16Setup(algo, m)
	// in half of the histories a readvertiser is installed that takes a while per announcement /
	// withdrawal (the real one sends commands to the routing daemon from inside the RIB update)
	slowReadv := r.Intn(2) == 0
	if slowReadv {
		table.AddReadvertiser(c16SlowReadvertiser{})
	}
	procs := []int{2, 4, 16}[r.Intn(3)]
	prev := runtime.GOMAXPROCS(procs)
	defer runtime.GOMAXPROCS(prev)
	names := c16Names()
	strats := []string{"/localhost/nfd/strategy/best-route/v=1", "/localhost/nfd/strategy/multicast/v=1"}
	nW := 1 + r.Intn(2)
	nOps := 40 + r.Intn(60)
	var wg sync.WaitGroup
	seeds := make([]int64, nW+2)
	for i := range seeds {
		seeds[i] = r.Int63()
	}
	var panicked sync.Map
	guard := func(role string) {
		if x := recover(); x != nil {
			panicked.Store(role, fmt.Sprint(x))
		}
	}
	for w := 0; w < nW; w++ {
		wg.Add(1)
		go func(w int) {
			defer wg.Done()
			defer guard("rib-writer")
			rr := rand.New(rand.NewSource(seeds[w]))
			for k := 0; k < nOps; k++ {
				n := names[rr.Intn(len(names))]
				f := uint64(1 + rr.Intn(3))
				origin := uint64(0)
				if slowReadv {
					origin = table.RouteOriginClient // the origin readvertisers act on
				}
				switch rr.Intn(5) {
				case 0:
					table.Rib.RemoveRouteEnc(n.Clone(), f, origin)
				case 1:
					table.Rib.CleanUpFace(f)
				default:
					table.Rib.AddEncRoute(n.Clone(), &table.Route{FaceID: f, Origin: origin, Cost: uint64(rr.Intn(4)), Flags: uint64(rr.Intn(4))})
				}
				if rr.Intn(6) == 0 {
					runtime.Gosched()
				}
			}
		}(w)
	}
	wantStrat := map[string]string{}
	defaultStrat := table.FibStrategyTable.FindStrategyEnc(enc.Name{}).String()
	var stratLost atomic.Value
	wg.Add(1)
	go func() {
		defer wg.Done()
		defer guard("strategy-commands")
		rr := rand.New(rand.NewSource(seeds[nW]))
		for k := 0; k < nOps*2; k++ {
			n := names[rr.Intn(len(names))]
			if rr.Intn(5) < 2 {
				s := strats[rr.Intn(2)]
				sn, _ := enc.NameFromStr(s)
				table.FibStrategyTable.SetStrategyEnc(n.Clone(), sn)
				wantStrat[n.String()] = s
			} else {
				table.FibStrategyTable.UnSetStrategyEnc(n.Clone())
				delete(wantStrat, n.String())
			}
			// this goroutine is the only one issuing strategy commands (route updates never touch
			// strategies): right after its command returned, a lookup below the prefix must see the
			// effect - whatever route recomputation is going on at the same time
			want := defaultStrat
			for l := len(n); l >= 1; l-- {
				if v, ok := wantStrat[n[:l].String()]; ok {
					want = v
					break
				}
			}
			if got := table.FibStrategyTable.FindStrategyEnc(append(n.Clone(), enc.NewStringComponent(8, "x"))); got.String() != want {
				stratLost.Store(fmt.Sprintf("after strategy command %d on %s, a lookup below it returns %s, the commands issued so far give %s", k, n, got, want))
				return
			}
			if rr.Intn(6) == 0 {
				runtime.Gosched()
			}
		}
	}()
	wg.Add(1)
	go func() {
		defer wg.Done()
		defer guard("lookups")
		rr := rand.New(rand.NewSource(seeds[nW+1]))
		for k := 0; k < nOps*2; k++ {
			ln := append(names[rr.Intn(len(names))].Clone(), enc.NewStringComponent(8, "x"))
			readLikeForwarder(table.FibStrategyTable.FindNextHopsEnc(ln))
			_ = table.FibStrategyTable.FindStrategyEnc(ln)
		}
	}()
	wg.Wait()
	det := map[string]any{"fib": algo, "m": m, "rib_writers": nW, "ops_per_goroutine": nOps, "gomaxprocs": procs, "slow_readvertiser": slowReadv}
	bad := false
	panicked.Range(func(k, v any) bool {
		c.Violation("C16:panic:quiescent:"+algo, id, fmt.Sprintf("the %s goroutine panicked: %v", k, v), det)
		bad = true
		return false
	})
	if bad {
		return
	}
	if v := stratLost.Load(); v != nil {
		c.Violation("C16:strategy-command-effect-lost:"+algo, id, v.(string)+" (route updates and lookups were running concurrently)", det)
		return
	}
	// ---- at quiescence
	fibIsFlattening := func(when string) bool {
		ref := newRefRib()
		var ribDesc []string
		for _, e := range table.Rib.GetAllEntries() {
			for _, rt := range e.GetRoutes() {
				ref.add(e.Name, refRoute{face: rt.FaceID, origin: rt.Origin, cost: rt.Cost, flags: rt.Flags})
				ribDesc = append(ribDesc, fmt.Sprintf("%s face=%d cost=%d flags=%d", e.Name, rt.FaceID, rt.Cost, rt.Flags))
			}
		}
		w := map[string]string{}
		for k, hm := range ref.flatten() {
			if len(hm) > 0 {
				w[ref.names[k].String()] = hopsStr(hm)
			}
		}
		g := map[string]string{}
		for _, e := range table.FibStrategyTable.GetAllFIBEntries() {
			hm, _ := copyHops(e.GetNextHops())
			if len(hm) > 0 {
				g[e.Name().String()] = hopsStr(hm)
			}
		}
		sort.Strings(ribDesc)
		det["rib_at_quiescence"] = ribDesc
		c.Count("quiescent_checks", 1)
		if !sameStrMap(g, w) {
			det["fib"], det["expected"] = g, w
			c.Violation("C16:fib-not-flattening-of-rib-at-quiescence:"+algo, id, when+", the FIB entries differ from the flattening of the routes the RIB holds", det)
			return false
		}
		return true
	}
	if !fibIsFlattening("after route updates, strategy set/unset commands and lookups overlapped") {
		return
	}
	want := map[string]string{}
	{
		ref := newRefRib()
		for _, e := range table.Rib.GetAllEntries() {
			for _, rt := range e.GetRoutes() {
				ref.add(e.Name, refRoute{face: rt.FaceID, origin: rt.Origin, cost: rt.Cost, flags: rt.Flags})
			}
		}
		for k, hm := range ref.flatten() {
			if len(hm) > 0 {
				want[ref.names[k].String()] = hopsStr(hm)
			}
		}
	}
	// lookups see the same thing
	for _, n := range names {
		ln := append(n.Clone(), enc.NewStringComponent(8, "x"))
		wantHops := ""
		for l := len(n); l >= 0; l-- {
			if v, ok := want[n[:l].String()]; ok {
				wantHops = v
				break
			}
		}
		hm, _ := copyHops(table.FibStrategyTable.FindNextHopsEnc(ln))
		if g := hopsStr(hm); g != wantHops && !(len(hm) == 0 && wantHops == "") {
			det["expected_fib"] = want
			c.Violation("C16:lookup-wrong-at-quiescence:"+algo, id, fmt.Sprintf("at quiescence FindNextHops(%s) = %s, the routes in the RIB give %s", ln, g, wantHops), det)
			return
		}
	}
	gotS := map[string]string{}
	for _, e := range table.FibStrategyTable.GetAllForwardingStrategies() {
		gotS[e.Name().String()] = e.GetStrategy().String()
	}
	delete(gotS, "/")
	if !sameStrMap(gotS, wantStrat) {
		det["strategies"], det["expected"] = gotS, wantStrat
		c.Violation("C16:strategies-wrong-at-quiescence:"+algo, id, "the strategy table does not hold exactly the strategies of the last set/unset command per prefix", det)
		return
	}
	// ---- face teardown against a prefix that is withdrawn and registered again: a face with routes on
	// the other prefixes goes away (its clean-up walks the RIB, slowed by the readvertiser) while
	// management unregisters the only route of one prefix and registers it again
	if slowReadv {
		for round := 0; round < 6; round++ {
			// the prefix is a leaf of the RIB tree in half of the rounds (its entry goes away with its
			// last route and is created anew by the registration)
			xi := []int{len(names) - 1, len(names) - 2, 0}[r.Intn(3)]
			x := names[xi]
			others := append(append([]enc.Name{}, names[:xi]...), names[xi+1:]...)
			for _, f := range []uint64{2, 3, 9} {
				table.Rib.CleanUpFace(f)
			}
			table.Rib.AddEncRoute(x.Clone(), &table.Route{FaceID: 1, Origin: table.RouteOriginClient, Cost: 1, Flags: 1})
			for _, n := range others {
				table.Rib.AddEncRoute(n.Clone(), &table.Route{FaceID: 9, Origin: table.RouteOriginClient, Cost: 2, Flags: 0})
			}
			delay := time.Duration(r.Intn(1500)) * time.Microsecond
			var w2 sync.WaitGroup
			w2.Add(2)
			go func() { defer w2.Done(); defer guard("teardown"); table.Rib.CleanUpFace(9) }()
			go func() {
				defer w2.Done()
				defer guard("re-register")
				time.Sleep(delay)
				table.Rib.RemoveRouteEnc(x.Clone(), 1, table.RouteOriginClient)
				table.Rib.AddEncRoute(x.Clone(), &table.Route{FaceID: 1, Origin: table.RouteOriginClient, Cost: 1, Flags: 1})
			}()
			w2.Wait()
			c.Count("teardown_vs_reregister_rounds", 1)
			if !fibIsFlattening(fmt.Sprintf("after the teardown of face 9 overlapped an unregister + register of %s (round %d)", x, round)) {
				return
			}
		}
	}
	c.Distinct(fmt.Sprintf("quiescent|%s|writers=%d|procs=%d", algo, nW, procs))
}

// c16SlowReadvertiser stands for a readvertiser that does I/O per call.
type c16SlowReadvertiser struct{}

func (c16SlowReadvertiser) Announce(name enc.Name, route *table.Route) {
	time.Sleep(150 * time.Microsecond)
}
func (c16SlowReadvertiser) Withdraw(name enc.Name, route *table.Route) {
	time.Sleep(400 * time.Microsecond)
}
