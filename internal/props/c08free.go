package props

import (
	"fmt"
	"math/rand"
	"strings"
	"time"

	"github.com/named-data/ndnd/fw/core"
	"github.com/named-data/ndnd/fw/defn"
	fwfw "github.com/named-data/ndnd/fw/fw"
	"github.com/named-data/ndnd/fw/table"
	enc "github.com/named-data/ndnd/std/encoding"

	"verif/internal/fwsim"
	"verif/internal/h"
)

// c08FreeRun: one forwarding thread running its own loop and timers (not driven through the reap
// hook). While a long-lived Interest stays pending, short-lived and satisfied entries must still
// be removed shortly after their own lifetime - the expiry wake-up may not wait for the head of
// the queue that was current when the timer was armed.
//
// Wall-clock use: lifetimes are <= 120 ms and the expiry tick is 100 ms; the verdict bound is 8 s
// (the long entry lives 12 s), i.e. dozens of times the legitimate worst case, so that a busy
// machine cannot turn scheduling delay into a verdict.
func c08FreeRun(c *h.Ctx, id string, r *rand.Rand) {
	c.Eval(1)
	s := fwsim.New(fwsim.Options{CsAdmit: r.Intn(2) == 0, CsServe: true, CsCapacity: 8, DnlLifetimeMs: 100,
		FibAlgo: []string{"nametree", "hashtable"}[r.Intn(2)], FreeRunning: true})
	s.AddFace(1, true, defn.PointToPoint)
	s.AddFace(2, false, defn.PointToPoint)
	px, _ := enc.NameFromStr("/x")
	s.Fib.InsertNextHopEnc(px, 2, 1)
	go s.T.Run()
	defer func() {
		core.ShouldQuit = true
		s.T.TellToQuit()
		select {
		case <-s.T.HasQuit:
		case <-time.After(5 * time.Second):
		}
		core.ShouldQuit = false
	}()
	send := func(name string, lifeMs int, nonce uint32) bool {
		n, _ := enc.NameFromStr(name)
		st := &fwStep{Kind: "interest", Face: 1, name: n, Nonce: &nonce, LifeMs: &lifeMs}
		p, err := fwsim.PktFromWire(buildInterestWire(st), 1, nil, nil)
		if err != nil {
			return false
		}
		s.T.QueueInterest(p)
		return true
	}
	waitPit := func(want int, limit time.Duration) (int, time.Duration) {
		t0 := time.Now()
		for {
			n := s.T.GetNumPitEntries()
			if n == want || time.Since(t0) > limit {
				return n, time.Since(t0)
			}
			time.Sleep(10 * time.Millisecond)
		}
	}
	longMs := 12000
	if !send("/x/long", longMs, 1) {
		c.Inconclusive("cannot build Interest")
		return
	}
	if n, _ := waitPit(1, 2*time.Second); n != 1 {
		c.Inconclusive(fmt.Sprintf("the long-lived Interest did not create a PIT entry (PIT size %d)", n))
		return
	}
	// let at least two maintenance rounds run with only the long entry queued
	time.Sleep(time.Duration(220+r.Intn(120)) * time.Millisecond)
	k := 1 + r.Intn(4)
	var lifes []int
	for i := 0; i < k; i++ {
		l := 30 + r.Intn(90)
		lifes = append(lifes, l)
		send(fmt.Sprintf("/x/s%d", i), l, uint32(100+i))
	}
	satisfied := r.Intn(2) == 0
	if satisfied { // one more entry, satisfied by Data from upstream: must go promptly
		send("/x/d", 4000, 77)
		time.Sleep(20 * time.Millisecond)
		dn, _ := enc.NameFromStr("/x/d")
		if _, wire, err := makeData(dn, nil, []byte("v")); err == nil {
			if p, err := fwsim.PktFromWire(wire, 2, nil, nil); err == nil {
				s.T.QueueData(p)
			}
		}
	}
	n, took := waitPit(1, 8*time.Second)
	c.Count("free_running_expiry_checks", 1)
	c.Distinct(fmt.Sprintf("free-running|short=%d|satisfied=%v", k, satisfied))
	if n != 1 {
		c.Violation("C08:pit-entry-outlives-lifetime:free-running", id,
			fmt.Sprintf("with a %d ms Interest pending, %d PIT entries are still present %d ms after Interests with lifetimes %v ms (and satisfied=%v) were sent: entries are not removed shortly after their own lifetime", longMs, n, took.Milliseconds(), lifes, satisfied),
			map[string]any{"long_lifetime_ms": longMs, "short_lifetimes_ms": lifes, "one_satisfied_by_data": satisfied, "pit_size": n, "waited_ms": took.Milliseconds()})
		return
	}
	c.Count("free_running_removal_ms_total", took.Milliseconds())
}

// c08Retx: retransmissions that are forwarded again (they arrive after the suppression interval)
// refresh the records of a pending entry. After every step no PIT entry and no in-/out-record may
// be scheduled to live longer than the lifetime of the Interest that just arrived: expiry times
// are taken from the table through the structural hook and compared with the harness clock.
func c08Retx(c *h.Ctx, id string, r *rand.Rand) {
	c.Eval(1)
	s := fwsim.New(fwsim.Options{CsAdmit: false, CsServe: false, CsCapacity: 8, DnlLifetimeMs: 6000,
		FibAlgo: []string{"nametree", "hashtable"}[r.Intn(2)]})
	s.AddFace(1, true, defn.PointToPoint)
	s.AddFace(2, false, defn.PointToPoint)
	s.AddFace(3, false, defn.PointToPoint)
	px, _ := enc.NameFromStr("/x")
	s.Fib.InsertNextHopEnc(px, 2, 1)
	if r.Intn(2) == 0 {
		s.Fib.InsertNextHopEnc(px, 3, 1)
		sn, _ := enc.NameFromStr("/localhost/nfd/strategy/multicast/v=1")
		s.Fib.SetStrategyEnc(enc.Name{}, sn)
	}
	lifeMs := []int{1500, 2500, 4000}[r.Intn(3)]
	n, _ := enc.NameFromStr(fmt.Sprintf("/x/retx%d", r.Intn(3)))
	rounds := 2 + r.Intn(2)
	for k := 0; k <= rounds; k++ {
		if k > 0 {
			time.Sleep(time.Duration(520+r.Intn(60)) * time.Millisecond) // beyond the 500 ms suppression interval
		}
		nonce := uint32(1000 + k)
		st := &fwStep{Kind: "interest", Face: 1, name: n, Nonce: &nonce, LifeMs: &lifeMs}
		p, err := s.Ingest(buildInterestWire(st), 1, nil, nil)
		if err != nil {
			c.Inconclusive("harness Interest was not queued by the link service")
			return
		}
		t0 := time.Now()
		if pi := h.Guard(func() { s.Interest(p) }); pi != nil {
			c.Violation("C08:panic:interest:"+pi.Frame+":"+pi.Class, id, "Interest pipeline panicked: "+pi.Value, nil)
			return
		}
		sends := len(s.TakeSends())
		info := table.VerifPitCsStats(fwfw.VerifPitCs(s.T))
		bound := time.Now().Add(time.Duration(lifeMs)*time.Millisecond + 50*time.Millisecond)
		c.Count("retransmission_expiry_checks", 1)
		if k > 0 && sends > 0 {
			c.Count("retransmissions_forwarded_again", 1)
		}
		for what, tt := range map[string]time.Time{"PIT entry": info.MaxPitExpiry, "in-/out-record": info.MaxRecordExpiry} {
			if tt.After(bound) {
				c.Violation("C08:expiry-beyond-lifetime:"+strings.ReplaceAll(what, " ", "-"), id,
					fmt.Sprintf("after Interest %d of %d (lifetime %d ms, forwarded again: %v) a %s is scheduled to expire %d ms after the Interest arrived", k+1, rounds+1, lifeMs, sends > 0, what, tt.Sub(t0).Milliseconds()),
					map[string]any{"lifetime_ms": lifeMs, "interest_number": k + 1, "sends": sends, "expires_after_ms": tt.Sub(t0).Milliseconds()})
				return
			}
		}
	}
	c.Distinct(fmt.Sprintf("retx|life=%d|rounds=%d", lifeMs, rounds))
}

// c08DnlBurst: several hundred forwarded Interests expire within one maintenance period, so several
// hundred dead-nonce records fall due together (the reaper removes a bounded number per tick by
// design). Driven synchronously through the maintenance hook: after the records' lifetime and a
// generous number of ticks the dead nonce list must be empty - map and expiry queue alike.
func c08DnlBurst(c *h.Ctx, id string, r *rand.Rand) {
	c.Eval(1)
	// one case in three configures a dead-nonce lifetime of 0 ms (the smallest value the configuration
	// allows): the records then fall due at the first sweep after they were made
	zero := r.Intn(3) == 0
	s := fwsim.New(fwsim.Options{CsAdmit: false, CsServe: false, CsCapacity: 4, DnlLifetimeMs: 60, DnlLifetimeZero: zero,
		FibAlgo: []string{"nametree", "hashtable"}[r.Intn(2)]})
	s.AddFace(1, true, defn.PointToPoint)
	s.AddFace(2, false, defn.PointToPoint)
	px, _ := enc.NameFromStr("/x")
	s.Fib.InsertNextHopEnc(px, 2, 1)
	if zero {
		c.Count("dead_nonce_bursts_with_lifetime_zero", 1)
	}
	n := 120 + r.Intn(300)
	life := 20
	for i := 0; i < n; i++ {
		nm, _ := enc.NameFromStr(fmt.Sprintf("/x/burst/%d", i))
		nonce := uint32(1000 + i)
		st := &fwStep{Kind: "interest", Face: 1, name: nm, Nonce: &nonce, LifeMs: &life}
		p, err := s.Ingest(buildInterestWire(st), 1, nil, nil)
		if err != nil {
			c.Inconclusive("cannot ingest Interest: " + err.Error())
			return
		}
		s.Interest(p)
	}
	s.TakeSends()
	dnl := fwfw.VerifDnl(s.T)
	time.Sleep(60 * time.Millisecond)
	s.Reap() // the PIT entries expire unsatisfied: their out-record nonces become dead
	recorded, _ := table.VerifDnlLen(dnl)
	time.Sleep(100 * time.Millisecond) // past the dead-nonce lifetime
	ticks := 0
	for ; ticks < 40; ticks++ {
		s.Reap()
		if a, q := table.VerifDnlLen(dnl); a == 0 && q == 0 {
			break
		}
	}
	c.Count("dead_nonce_burst_records", int64(recorded))
	if a, q := table.VerifDnlLen(dnl); a != 0 || q != 0 {
		c.Violation("C08:dead-nonces-not-reclaimed", id, fmt.Sprintf("%d Interests expired together and left %d dead-nonce records; after their lifetime (60 ms, or 0 ms when configured so: %v) and %d maintenance ticks %d records remain (%d still queued for expiry)", n, recorded, zero, ticks, a, q), map[string]any{"interests": n, "configured_lifetime_zero": zero})
		return
	}
	if pit := s.T.GetNumPitEntries(); pit != 0 {
		c.Violation("C08:pit-not-reclaimed", id, fmt.Sprintf("%d PIT entries remain after every Interest expired", pit), nil)
		return
	}
	c.Distinct(fmt.Sprintf("dnl-burst|over-100=%v", recorded > 100))
}

// c08Backlog: maintenance under load. For a quarter of a second more Interests arrive than the
// free-running forwarding thread can take (its queue stays full, so every maintenance tick of that
// period falls into a backlog); all of them live 50 ms. Once the burst is over the thread's own
// maintenance must empty the PIT - within 8 s, i.e. 160 lifetimes.
func c08Backlog(c *h.Ctx, id string, r *rand.Rand) {
	c.Eval(1)
	s := fwsim.New(fwsim.Options{CsAdmit: false, CsServe: false, CsCapacity: 8, DnlLifetimeMs: 100,
		FibAlgo: []string{"nametree", "hashtable"}[r.Intn(2)], FreeRunning: true})
	s.AddFace(1, true, defn.PointToPoint)
	s.AddFace(2, false, defn.PointToPoint)
	px, _ := enc.NameFromStr("/x")
	s.Fib.InsertNextHopEnc(px, 2, 1)
	go s.T.Run()
	defer func() {
		core.ShouldQuit = true
		s.T.TellToQuit()
		select {
		case <-s.T.HasQuit:
		case <-time.After(5 * time.Second):
		}
		core.ShouldQuit = false
	}()
	life := 50
	burst := time.Duration(180+r.Intn(150)) * time.Millisecond
	t0 := time.Now()
	sent := 0
	for time.Since(t0) < burst && sent < 80000 {
		nm, _ := enc.NameFromStr(fmt.Sprintf("/x/bk/%d", sent))
		nonce := uint32(5000 + sent)
		st := &fwStep{Kind: "interest", Face: 1, name: nm, Nonce: &nonce, LifeMs: &life}
		p, err := fwsim.PktFromWire(buildInterestWire(st), 1, nil, nil)
		if err != nil {
			c.Inconclusive("cannot build Interest")
			return
		}
		s.T.QueueInterest(p) // dropped when the queue is full: that is the backlog
		sent++
		if sent%2000 == 0 {
			s.TakeSends()
		}
	}
	peak := s.T.GetNumPitEntries()
	var n int
	tw := time.Now()
	for {
		n = s.T.GetNumPitEntries()
		if n == 0 || time.Since(tw) > 8*time.Second {
			break
		}
		time.Sleep(10 * time.Millisecond)
		s.TakeSends()
	}
	c.Count("backlog_bursts", 1)
	c.Count("backlog_interests_offered", int64(sent))
	c.Distinct("free-running|backlog")
	if n != 0 {
		c.Violation("C08:pit-entry-outlives-lifetime:after-backlog", id,
			fmt.Sprintf("%d Interests (lifetime %d ms) were offered within %d ms; %d ms after the burst the PIT still holds %d entries (%d right after the burst): the thread's own maintenance no longer removes expired entries", sent, life, burst.Milliseconds(), time.Since(tw).Milliseconds(), n, peak),
			map[string]any{"offered": sent, "burst_ms": burst.Milliseconds(), "pit_after_burst": peak, "pit_now": n})
	}
}
