package props

import (
	"fmt"
	"math/rand"
	"time"

	"github.com/named-data/ndnd/fw/core"
	"github.com/named-data/ndnd/fw/defn"
	enc "github.com/named-data/ndnd/std/encoding"

	"verif/internal/fwsim"
	"verif/internal/h"
)

// c08FreeRun: one forwarding thread running its own loop and timers (not driven through the reap
// hook). While a long-lived Interest stays pending, short-lived and satisfied entries must still
// be removed shortly after their own lifetime - the expiry wake-up may not wait for the head of
// the queue that was current when the timer was armed.
//
// Wall-clock use: lifetimes are <= 120 ms and the expiry tick is 100 ms; the verdict bound is 8 s
// (the long entry lives 12 s), i.e. dozens of times the legitimate worst case, so that a busy
// machine cannot turn scheduling delay into a verdict.
func c08FreeRun(c *h.Ctx, id string, r *rand.Rand) {
	c.Eval(1)
	s := fwsim.New(fwsim.Options{CsAdmit: r.Intn(2) == 0, CsServe: true, CsCapacity: 8, DnlLifetimeMs: 100,
		FibAlgo: []string{"nametree", "hashtable"}[r.Intn(2)], FreeRunning: true})
	s.AddFace(1, true, defn.PointToPoint)
	s.AddFace(2, false, defn.PointToPoint)
	px, _ := enc.NameFromStr("/x")
	s.Fib.InsertNextHopEnc(px, 2, 1)
	go s.T.Run()
	defer func() {
		core.ShouldQuit = true
		s.T.TellToQuit()
		select {
		case <-s.T.HasQuit:
		case <-time.After(5 * time.Second):
		}
		core.ShouldQuit = false
	}()
	send := func(name string, lifeMs int, nonce uint32) bool {
		n, _ := enc.NameFromStr(name)
		st := &fwStep{Kind: "interest", Face: 1, name: n, Nonce: &nonce, LifeMs: &lifeMs}
		p, err := fwsim.PktFromWire(buildInterestWire(st), 1, nil, nil)
		if err != nil {
			return false
		}
		s.T.QueueInterest(p)
		return true
	}
	waitPit := func(want int, limit time.Duration) (int, time.Duration) {
		t0 := time.Now()
		for {
			n := s.T.GetNumPitEntries()
			if n == want || time.Since(t0) > limit {
				return n, time.Since(t0)
			}
			time.Sleep(10 * time.Millisecond)
		}
	}
	longMs := 12000
	if !send("/x/long", longMs, 1) {
		c.Inconclusive("cannot build Interest")
		return
	}
	if n, _ := waitPit(1, 2*time.Second); n != 1 {
		c.Inconclusive(fmt.Sprintf("the long-lived Interest did not create a PIT entry (PIT size %d)", n))
		return
	}
	// let at least two maintenance rounds run with only the long entry queued
	time.Sleep(time.Duration(220+r.Intn(120)) * time.Millisecond)
	k := 1 + r.Intn(4)
	var lifes []int
	for i := 0; i < k; i++ {
		l := 30 + r.Intn(90)
		lifes = append(lifes, l)
		send(fmt.Sprintf("/x/s%d", i), l, uint32(100+i))
	}
	satisfied := r.Intn(2) == 0
	if satisfied { // one more entry, satisfied by Data from upstream: must go promptly
		send("/x/d", 4000, 77)
		time.Sleep(20 * time.Millisecond)
		dn, _ := enc.NameFromStr("/x/d")
		if _, wire, err := makeData(dn, nil, []byte("v")); err == nil {
			if p, err := fwsim.PktFromWire(wire, 2, nil, nil); err == nil {
				s.T.QueueData(p)
			}
		}
	}
	n, took := waitPit(1, 8*time.Second)
	c.Count("free_running_expiry_checks", 1)
	c.Distinct(fmt.Sprintf("free-running|short=%d|satisfied=%v", k, satisfied))
	if n != 1 {
		c.Violation("C08:pit-entry-outlives-lifetime:free-running", id,
			fmt.Sprintf("with a %d ms Interest pending, %d PIT entries are still present %d ms after Interests with lifetimes %v ms (and satisfied=%v) were sent: entries are not removed shortly after their own lifetime", longMs, n, took.Milliseconds(), lifes, satisfied),
			map[string]any{"long_lifetime_ms": longMs, "short_lifetimes_ms": lifes, "one_satisfied_by_data": satisfied, "pit_size": n, "waited_ms": took.Milliseconds()})
		return
	}
	c.Count("free_running_removal_ms_total", took.Milliseconds())
}
