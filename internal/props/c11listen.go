package props

import (
	"fmt"
	"math/rand"
	"net"
	"os"
	"path/filepath"
	"time"

	"github.com/named-data/ndnd/fw/defn"
	"github.com/named-data/ndnd/fw/face"
	fwfw "github.com/named-data/ndnd/fw/fw"
	enc "github.com/named-data/ndnd/std/encoding"

	"verif/internal/fwenv"
	"verif/internal/h"
	"verif/internal/tlvwalk"
)

// c11Listener: the forwarder's own stream listeners (TCP and Unix) accept plain clients - the path
// every remote peer and every application takes. Whatever the partition of the byte stream into
// writes (in particular of the very first bytes of a connection: several blocks at once, a block cut
// inside its header or value, a single byte), the forwarding thread must be handed every block
// exactly once and in order.
func c11Listener(c *h.Ctx, id string, r *rand.Rand) {
	kind := []string{"tcp", "unix"}[r.Intn(2)]
	rts := fwenv.InstallRecThreads(1)
	fwfw.Threads = make([]*fwfw.Thread, 1)
	var network, addr string
	var closeLn func()
	if kind == "tcp" {
		probe, err := net.Listen("tcp4", "127.0.0.1:0")
		if err != nil {
			c.Inconclusive("cannot find a free TCP port: " + err.Error())
			return
		}
		port := probe.Addr().(*net.TCPAddr).Port
		probe.Close()
		ln, err := face.MakeTCPListener(defn.MakeTCPFaceURI(4, "127.0.0.1", uint16(port)))
		if err != nil {
			c.Inconclusive("cannot make the TCP listener: " + err.Error())
			return
		}
		go ln.Run()
		closeLn = ln.Close
		network, addr = "tcp4", fmt.Sprintf("127.0.0.1:%d", port)
	} else {
		dir := filepath.Join(c.WorkDir, fmt.Sprintf("sock-%d", c.Batch))
		h.MustMkdir(dir)
		addr = filepath.Join(dir, "listen-"+id+".sock")
		os.Remove(addr)
		ln, err := face.MakeUnixStreamListener(defn.MakeUnixFaceURI(addr))
		if err != nil {
			c.Inconclusive("cannot make the Unix listener: " + err.Error())
			return
		}
		go ln.Run()
		closeLn = ln.Close
		network = "unix"
	}
	defer func() {
		done := make(chan struct{})
		go func() { closeLn(); close(done) }()
		select {
		case <-done:
		case <-time.After(5 * time.Second):
		}
	}()
	var peer net.Conn
	var err error
	for dl := time.Now().Add(5 * time.Second); time.Now().Before(dl); time.Sleep(5 * time.Millisecond) {
		if peer, err = net.Dial(network, addr); err == nil {
			peer.Close()
			break
		}
	}
	if err != nil {
		c.Inconclusive("the listener never accepted a connection: " + err.Error())
		return
	}
	time.Sleep(20 * time.Millisecond)
	rts[0].Take()
	for k := 0; k < 6; k++ {
		cid := fmt.Sprintf("%s/conn%d", id, k)
		c.Eval(1)
		peer, err := net.Dial(network, addr)
		if err != nil {
			c.Inconclusive("cannot dial the listener: " + err.Error())
			return
		}
		n := 2 + r.Intn(7)
		var blocks [][]byte
		var names []string
		var stream []byte
		for i := 0; i < n; i++ {
			nm, _ := enc.NameFromStr(fmt.Sprintf("/c11l/%s/%d/%d", id, k, i))
			pad := make([]byte, []int{0, 1, 40, 300, 2000}[r.Intn(5)])
			nm = append(nm, enc.Component{Typ: 8, Val: pad})
			body := append(nm.Bytes(), tlvwalk.TLV(0x0a, []byte{byte(k), byte(i), 0, 7})...)
			b := tlvwalk.TLV(5, body)
			blocks = append(blocks, b)
			names = append(names, nm.String())
			stream = append(stream, b...)
		}
		// the first write of the connection
		plan := []string{"all-blocks", "two-and-a-half-blocks", "one-byte", "type-and-half-length", "exactly-one-block", "one-block-and-one-byte"}[r.Intn(6)]
		first := len(stream)
		switch plan {
		case "two-and-a-half-blocks":
			first = len(blocks[0]) + len(blocks[1]) + min(len(stream)-len(blocks[0])-len(blocks[1]), 1+r.Intn(len(blocks[1])))
		case "one-byte":
			first = 1
		case "type-and-half-length":
			first = 2
		case "exactly-one-block":
			first = len(blocks[0])
		case "one-block-and-one-byte":
			first = len(blocks[0]) + 1
		}
		first = min(first, len(stream))
		peer.SetWriteDeadline(time.Now().Add(10 * time.Second))
		peer.Write(stream[:first])
		if r.Intn(2) == 0 {
			time.Sleep(time.Duration(1+r.Intn(30)) * time.Millisecond) // the first read returns exactly the first write
		}
		for off := first; off < len(stream); {
			m := min(len(stream)-off, 1+r.Intn(3000))
			peer.Write(stream[off : off+m])
			off += m
			if r.Intn(3) == 0 {
				time.Sleep(time.Millisecond)
			}
		}
		var got []string
		for dl := time.Now().Add(8 * time.Second); time.Now().Before(dl) && len(got) < n; time.Sleep(500 * time.Microsecond) {
			ints, _ := rts[0].Take()
			for _, p := range ints {
				got = append(got, p.Name.String())
			}
		}
		time.Sleep(5 * time.Millisecond)
		ints, _ := rts[0].Take()
		for _, p := range ints {
			got = append(got, p.Name.String())
		}
		peer.Close()
		c.Count("listener_connections", 1)
		c.Count("listener_blocks", int64(n))
		c.Distinct(fmt.Sprintf("listener|%s|first-write=%s", kind, plan))
		if fmt.Sprint(got) != fmt.Sprint(names) {
			c.Violation("C11:listener:"+kind+":blocks-lost-or-merged:first-write="+plan, cid, fmt.Sprintf("a client of the %s listener wrote %d Interests (first write: %s, %d of %d bytes); the forwarding thread was handed %d: %v", kind, n, plan, first, len(stream), len(got), got),
				map[string]any{"sent": names, "delivered": got, "first_write_bytes": first, "stream": h.Hex(stream[:min(len(stream), 400)])})
			return
		}
	}
}
