package props

import (
	"bytes"
	"fmt"
	"math/rand"
	"regexp"
	"sort"
	"strings"
	"time"

	enc "github.com/named-data/ndnd/std/encoding"
	"github.com/named-data/ndnd/std/ndn"

	"verif/internal/h"
	"verif/internal/pkt"
	"verif/internal/tlvwalk"
)

var numStrip = regexp.MustCompile(`\d+`)

func errClass(err error) string {
	if err == nil {
		return "nil"
	}
	s := numStrip.ReplaceAllString(err.Error(), "N")
	if len(s) > 100 {
		s = s[:100]
	}
	return fmt.Sprintf("%T:%s", err, s)
}

// c03Expect computes what a decoder must return for the case.
func c03Expect(c *pkt.Case, lay *pkt.Layout) *pkt.Fields {
	f := &pkt.Fields{Kind: c.Kind, Name: c.Name.Clone(), SigType: int(ndn.SignatureNone)}
	f.HasPayload = c.Payload != nil
	f.Payload = c.PayloadBytes()
	if c.Kind == "data" {
		if c.DCfg.ContentType != nil {
			v := uint64(*c.DCfg.ContentType)
			f.ContentType = &v
		}
		f.Freshness = c.DCfg.Freshness
		f.FinalBlock = c.DCfg.FinalBlockID
	} else {
		f.CBP, f.MBF = c.ICfg.CanBePrefix, c.ICfg.MustBeFresh
		f.Hints = c.ICfg.ForwardingHint
		f.Nonce = c.ICfg.Nonce
		f.Lifetime = c.ICfg.Lifetime
		f.HopLimit = c.ICfg.HopLimit
		if c.Payload != nil && lay != nil && lay.Digest != nil {
			f.Name = append(f.Name, enc.Component{Typ: enc.TypeParametersSha256DigestComponent, Val: lay.Digest})
		}
	}
	if s := c.MakeSigner(); s != nil {
		si, _ := s.SigInfo()
		if si != nil && si.Type != ndn.SignatureNone {
			f.SigType = int(si.Type)
			f.KeyName = si.KeyName
			if c.Kind == "interest" {
				f.SigNonce = si.Nonce
				f.SigTime = si.SigTime
				f.SigSeq = si.SeqNum
			} else {
				f.NotBefore, f.NotAfter = si.NotBefore, si.NotAfter
			}
			if lay != nil && lay.HasSig {
				f.HasSigValue = len(lay.SigValue) > 0
				f.SigValue = lay.SigValue
			}
		}
	}
	return f
}

// realClockSigner: these signers read the wall clock and a CSPRNG for
// SignatureTime / SignatureNonce, so only presence can be expected.
func realClockSigner(s string) bool { return s == "eccint" || s == "rsa1024int" }

func c03Diff(c *pkt.Case, exp, got *pkt.Fields) []string {
	d := pkt.Diff(exp, got)
	if realClockSigner(c.Signer) {
		var out []string
		for _, x := range d {
			if x == "sig-time" && got.SigTime != nil {
				continue
			}
			if x == "sig-nonce" && len(got.SigNonce) > 0 {
				continue
			}
			out = append(out, x)
		}
		d = out
	}
	return d
}

func c03Cuts(r *rand.Rand, b []byte, lay *pkt.Layout, thorough bool) [][]int {
	var segs [][]int
	seen := map[int]bool{}
	add1 := func(p int) {
		if p > 0 && p < len(b) && !seen[p] {
			seen[p] = true
			segs = append(segs, []int{p})
		}
	}
	lim := 12
	if thorough {
		lim = 40
	}
	for p := 1; p <= lim; p++ {
		add1(p)
	}
	// inside every T/L header
	var hdr []int
	var rec func(n *tlvwalk.Node)
	rec = func(n *tlvwalk.Node) {
		for p := n.Off; p <= n.ValOff; p++ {
			hdr = append(hdr, p)
		}
		hdr = append(hdr, n.End-1, n.End)
		for _, ch := range n.Children {
			rec(ch)
		}
	}
	rec(lay.Root)
	if thorough || len(hdr) <= 24 {
		for _, p := range hdr {
			add1(p)
		}
	} else {
		for i := 0; i < 24; i++ {
			add1(hdr[r.Intn(len(hdr))])
		}
	}
	// random multi-cuts
	nm := 3
	if thorough {
		nm = 8
	}
	for i := 0; i < nm; i++ {
		k := 2 + r.Intn(4)
		cs := make([]int, 0, k)
		for j := 0; j < k; j++ {
			if r.Intn(2) == 0 && len(hdr) > 0 {
				cs = append(cs, hdr[r.Intn(len(hdr))])
			} else {
				cs = append(cs, 1+r.Intn(len(b)))
			}
		}
		sort.Ints(cs)
		segs = append(segs, cs)
	}
	// empty buffers in front, in the middle (twice in a row) and at the end, as encoders produce them
	if len(hdr) > 0 && len(b) > 2 {
		p := hdr[r.Intn(len(hdr))]
		if p < 1 || p >= len(b) {
			p = 1 + r.Intn(len(b)-1)
		}
		segs = append(segs, []int{0, p, p, p, len(b)})
	}
	// all 1-byte segments
	if len(b) <= 700 {
		cs := make([]int, 0, len(b))
		for p := 1; p < len(b); p++ {
			cs = append(cs, p)
		}
		segs = append(segs, cs)
	}
	return segs
}

func c03Run(c *h.Ctx) {
	// half of the batches run as a process whose local time zone is not UTC (signers read
	// time.Now(), whose location is time.Local): encoded times must not depend on the zone
	if c.Batch%2 == 1 {
		time.Local = time.FixedZone("verif+0530", (5*60+30)*60)
		c.Note("local_time_zone", "UTC+05:30 in odd batches, UTC in even batches")
	}
	r := c.Rng("c03")
	n := c.Pick(2000, 9000)
	pkt.GetKeys()
	for i := 0; i < n; i++ {
		id := fmt.Sprintf("p%d", i)
		cs := pkt.Gen(r)
		sr := rand.New(rand.NewSource(r.Int63()))
		if cs.Kind == "interest" && cs.Payload != nil && len(cs.Name) >= 1 && sr.Intn(8) == 0 {
			// an earlier parameterized Interest's digest stays in the middle of a follow-up's name
			dg := make([]byte, 32)
			sr.Read(dg)
			k := sr.Intn(len(cs.Name))
			nn := append(enc.Name{}, cs.Name[:k]...)
			nn = append(nn, enc.Component{Typ: enc.TypeParametersSha256DigestComponent, Val: dg})
			cs.Name = append(nn, cs.Name[k:]...)
			c.Count("interests_with_an_inner_parameters_digest", 1)
		}
		if !c.Case(id) {
			continue
		}
		c03One(c, id, cs, sr)
		if i%8 == 5 && cs.Signer != "none" && cs.Signer != "" {
			// several packets built with one signer object before any of them is serialised (an
			// engine signs all its commands with one signer): each must still decode to what was supplied
			c12ReuseAs(c, "C03", id+"-reuse", cs, sr)
		}
	}
}

func c03One(c *h.Ctx, id string, cs *pkt.Case, r *rand.Rand) {
	c.Eval(1)
	desc := cs.Describe()
	var built *pkt.Built
	var err error
	if pi := h.Guard(func() { built, err = cs.Build() }); pi != nil {
		c.Violation("C03:panic:build:"+cs.Kind+":"+pi.Frame+":"+pi.Class, id, "packet construction panicked: "+pi.Value, desc)
		return
	}
	if err != nil {
		c.Count("make_errors", 1)
		c.Violation("C03:make-error:"+cs.Kind+":"+cs.Signer+":"+errClass(err), id, "packet API refused a supported combination: "+err.Error(), desc)
		return
	}
	b := built.Bytes
	desc["wire"] = h.Hex(b)
	desc["wire_len"] = len(b)
	lay, werr := pkt.Analyse(b)
	if werr != nil {
		c.Violation("C03:malformed:"+cs.Kind+":"+numStrip.ReplaceAllString(werr.Error(), "N"), id, "encoded packet is not a well-formed TLV with exact lengths: "+werr.Error(), desc)
		return
	}
	exp := c03Expect(cs, lay)
	c.Distinct(cs.Shape())

	// raw field checks against the independent walker
	c03Raw(c, id, cs, lay, b, desc)

	// standalone name/component encoders vs the packet encoder
	c03NameBytes(c, id, cs, exp.Name, lay, b, desc)

	// decode: contiguous
	check := func(reader string, mk func() enc.ParseReader, viaPacket bool) *pkt.Fields {
		var got *pkt.Fields
		var derr error
		if pi := h.Guard(func() {
			if viaPacket {
				got, derr = pkt.DecodePacket(mk())
			} else {
				got, derr = pkt.Decode(cs.Kind, mk())
			}
		}); pi != nil {
			c.Violation("C03:panic:decode:"+cs.Kind+":"+reader+":"+pi.Frame+":"+pi.Class, id, "decoder panicked on a packet built by the API: "+pi.Value, desc)
			return nil
		}
		if derr != nil {
			c.Violation("C03:decode-error:"+cs.Kind+":"+reader+":"+errClass(derr), id, "decoder rejected a packet built by the API: "+derr.Error(), desc)
			return nil
		}
		if d := c03Diff(cs, exp, got); len(d) > 0 {
			c.Violation("C03:field-mismatch:"+cs.Kind+":"+reader+":"+strings.Join(d, ","), id, "decoded fields differ from what was supplied: "+strings.Join(d, ","), desc)
		}
		return got
	}
	base := check("contiguous", func() enc.ParseReader { return enc.NewBufferReader(append([]byte{}, b...)) }, false)
	check("contiguous-ReadPacket", func() enc.ParseReader { return enc.NewBufferReader(append([]byte{}, b...)) }, true)
	// the multi-buffer wire exactly as the encoder produced it
	check("encoder-wire", func() enc.ParseReader { return enc.NewWireReader(built.Wire) }, false)
	nseg := 0
	for _, cuts := range c03Cuts(r, b, lay, c.Thorough()) {
		w := pkt.Segment(b, cuts)
		tag := "segmented"
		if len(cuts) > 5 {
			tag = "segmented-1byte"
		} else if len(cuts) > 1 {
			tag = "segmented-multi"
		}
		nBuf := len(w)
		got := check(tag, func() enc.ParseReader { return enc.NewWireReader(w) }, nseg%5 == 4)
		nseg++
		// the wire belongs to the caller (an engine keeps it to answer later Interests, a store keeps it
		// on behalf of the application): decoding from it must leave it as it was, buffer by buffer
		if after := pkt.Segment(b, cuts); len(w) != nBuf || !bytes.Equal(w.Join(), b) || !c03SameBuffers(w, after) {
			c.Violation("C03:decoding-modifies-the-wire:"+cs.Kind+":"+tag, id, fmt.Sprintf("after decoding from a wire of %d buffers (cuts %v) that wire joins to %d bytes in %d buffers; it held %d bytes", nBuf, cuts, len(w.Join()), len(w), len(b)), desc)
		}
		if got != nil && base != nil && !bytes.Equal(got.SigCovered, base.SigCovered) {
			c.Violation("C03:sigcovered-differs:"+cs.Kind+":"+tag, id, "signed portion returned by the decoder depends on the segmentation", desc)
		}
		if c.NViolations() > 40 {
			break
		}
	}
	c.Count("segmentations", int64(nseg))
	c.Sample(cs.Describe())
}

// c03SameBuffers: same number of buffers with the same contents.
func c03SameBuffers(a, b enc.Wire) bool {
	if len(a) != len(b) {
		return false
	}
	for i := range a {
		if !bytes.Equal(a[i], b[i]) {
			return false
		}
	}
	return true
}

func c03Raw(c *h.Ctx, id string, cs *pkt.Case, lay *pkt.Layout, b []byte, desc map[string]any) {
	bad := func(field, msg string) {
		c.Violation("C03:raw-field:"+cs.Kind+":"+field, id, "encoded "+field+" is wrong: "+msg, desc)
	}
	root := lay.Root
	natField := func(parent *tlvwalk.Node, typ uint64, want *uint64, field string) {
		var n *tlvwalk.Node
		if parent != nil {
			n = parent.Child(typ)
		}
		if want == nil {
			if n != nil {
				bad(field, "present but not supplied")
			}
			return
		}
		if n == nil {
			bad(field, "absent")
			return
		}
		v, ok := tlvwalk.NatVal(b[n.ValOff:n.End])
		if !ok || v != *want {
			bad(field, fmt.Sprintf("value bytes %x, want %d", b[n.ValOff:n.End], *want))
		}
	}
	u64 := func(d *time.Duration) *uint64 {
		if d == nil {
			return nil
		}
		v := uint64(d.Milliseconds())
		return &v
	}
	if cs.Kind == "data" {
		mi := root.Child(0x14)
		var ct *uint64
		if cs.DCfg.ContentType != nil {
			v := uint64(*cs.DCfg.ContentType)
			ct = &v
		}
		natField(mi, 0x18, ct, "content-type")
		natField(mi, 0x19, u64(cs.DCfg.Freshness), "freshness")
		ctn := root.Child(0x15)
		if (ctn != nil) != (cs.Payload != nil) {
			bad("content", "presence differs")
		} else if ctn != nil && !bytes.Equal(b[ctn.ValOff:ctn.End], cs.PayloadBytes()) {
			bad("content", "bytes differ")
		}
		if cs.DCfg.FinalBlockID != nil {
			var fb *tlvwalk.Node
			if mi != nil {
				fb = mi.Child(0x1a)
			}
			if fb == nil || len(fb.Children) != 1 || fb.Children[0].Type != uint64(cs.DCfg.FinalBlockID.Typ) ||
				!bytes.Equal(b[fb.Children[0].ValOff:fb.Children[0].End], cs.DCfg.FinalBlockID.Val) {
				bad("final-block-id", "absent or differs")
			}
		}
	} else {
		if (root.Child(0x21) != nil) != cs.ICfg.CanBePrefix {
			bad("can-be-prefix", "presence differs")
		}
		if (root.Child(0x12) != nil) != cs.ICfg.MustBeFresh {
			bad("must-be-fresh", "presence differs")
		}
		nn := root.Child(0x0a)
		if (nn != nil) != (cs.ICfg.Nonce != nil) {
			bad("nonce", "presence differs")
		} else if nn != nil {
			v := uint32(*cs.ICfg.Nonce)
			if nn.Len() != 4 || !bytes.Equal(b[nn.ValOff:nn.End], []byte{byte(v >> 24), byte(v >> 16), byte(v >> 8), byte(v)}) {
				bad("nonce", fmt.Sprintf("bytes %x want %08x", b[nn.ValOff:nn.End], v))
			}
		}
		natField(root, 0x0c, u64(cs.ICfg.Lifetime), "lifetime")
		hl := root.Child(0x22)
		if (hl != nil) != (cs.ICfg.HopLimit != nil) {
			bad("hop-limit", "presence differs")
		} else if hl != nil && (hl.Len() != 1 || uint(b[hl.ValOff]) != *cs.ICfg.HopLimit) {
			bad("hop-limit", "value differs")
		}
		ap := root.Child(0x24)
		if (ap != nil) != (cs.Payload != nil) {
			bad("app-params", "presence differs")
		} else if ap != nil && !bytes.Equal(b[ap.ValOff:ap.End], cs.PayloadBytes()) {
			bad("app-params", "bytes differ")
		}
		fh := root.Child(0x1e)
		if (fh != nil) != (cs.ICfg.ForwardingHint != nil) {
			bad("forwarding-hint", "presence differs")
		} else if fh != nil && len(fh.Children) != len(cs.ICfg.ForwardingHint) {
			bad("forwarding-hint", "number of names differs")
		}
		if cs.Payload != nil {
			// parameters digest must be the last name component and correct
			nm := lay.NameNode
			if len(nm.Children) == 0 || nm.Children[len(nm.Children)-1].Type != 2 ||
				!bytes.Equal(b[nm.Children[len(nm.Children)-1].ValOff:nm.Children[len(nm.Children)-1].End], lay.Digest) {
				bad("params-digest", "last name component is not the SHA-256 of the parameter block")
			}
		}
	}
}

func c03NameBytes(c *h.Ctx, id string, cs *pkt.Case, name enc.Name, lay *pkt.Layout, b []byte, desc map[string]any) {
	nm := lay.NameNode
	inPkt := b[nm.Off:nm.End]
	var nb []byte
	var back enc.Name
	var berr error
	if pi := h.Guard(func() {
		nb = name.Bytes()
		back, berr = enc.NameFromBytes(append([]byte{}, inPkt...))
	}); pi != nil {
		c.Violation("C03:panic:name-bytes:"+pi.Frame+":"+pi.Class, id, "Name.Bytes/NameFromBytes panicked: "+pi.Value, desc)
		return
	}
	lc := "short"
	if nm.Len() >= 253 {
		lc = "long"
	}
	if !bytes.Equal(nb, inPkt) {
		c.Violation("C03:name-bytes-differ:"+lc, id, fmt.Sprintf("Name.Bytes() (%d bytes, header %x) differs from the Name element the packet encoder produced (%d bytes, header %x)", len(nb), nb[:min(len(nb), 4)], len(inPkt), inPkt[:min(4, len(inPkt))]), desc)
	}
	if berr != nil || refNameCompare(back, name) != 0 {
		c.Violation("C03:name-from-bytes:"+lc, id, fmt.Sprintf("NameFromBytes(packet Name element) does not return the name (err=%v)", berr), desc)
	}
	if len(nm.Children) != len(name) {
		c.Violation("C03:name-components", id, "number of components in the encoded Name differs", desc)
		return
	}
	for i, comp := range name {
		ch := nm.Children[i]
		inP := b[ch.Off:ch.End]
		var cb []byte
		var cback enc.Component
		var cerr error
		if pi := h.Guard(func() {
			cb = comp.Bytes()
			cback, cerr = enc.ComponentFromBytes(append([]byte{}, inP...))
		}); pi != nil {
			c.Violation("C03:panic:comp-bytes:"+pi.Frame+":"+pi.Class, id, "Component.Bytes/ComponentFromBytes panicked: "+pi.Value, desc)
			return
		}
		cl := "short"
		if len(comp.Val) >= 253 {
			cl = "long"
		}
		if !bytes.Equal(cb, inP) {
			c.Violation("C03:comp-bytes-differ:"+cl, id, fmt.Sprintf("Component.Bytes() header %x differs from the packet encoder's %x", cb[:min(len(cb), 5)], inP[:min(len(inP), 5)]), desc)
		}
		if cerr != nil || refCompCompare(cback, comp) != 0 {
			c.Violation("C03:comp-from-bytes:"+cl, id, fmt.Sprintf("ComponentFromBytes does not return the component (err=%v)", cerr), desc)
		}
	}
}

func init() {
	h.Register(&h.Prop{
		ID:    "C03",
		Level: "exploration",
		Rule: "seeded generator of (kind, name incl. components/whole names across the 253 and 65536 boundaries, every subset of optional fields with boundary values, payload of 0..70000 bytes split into 1..5 buffers, signer) cases; " +
			"each is built by the packet API, walked by an independent strict TLV walker, checked field by field at byte level, and decoded contiguously and under 20-150 segmentations (every cut inside the first bytes and inside every T/L header, random multi-cuts, 1-byte segments); " +
			"distinct = (kind, signer, optional-field set, name length classes, payload length class/buffer count)",
		Assumptions: []string{"independent TLV walker (internal/tlvwalk) and its NDN v0.3 container schema are the yardstick for well-formedness",
			"Nonce restricted to 32 bits and HopLimit to 8 bits (their wire domain)", "ECDSA/RSA Interest signers read the real clock: only presence of SignatureTime/Nonce is compared for them"},
		Batches: func(t bool) int { return 16 },
		ChildTimeoutS: func(t bool) int {
			if t {
				return 2400
			}
			return 400
		},
		Run:         c03Run,
		MinDistinct: 100,
	})
}
