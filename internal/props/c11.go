package props

import (
	"bytes"
	"fmt"
	"io"
	"math/rand"
	"net"
	"os"
	"path/filepath"
	"strings"
	"sync"
	"sync/atomic"
	"time"

	"github.com/named-data/ndnd/fw/defn"
	"github.com/named-data/ndnd/fw/face"
	fwfw "github.com/named-data/ndnd/fw/fw"
	enc "github.com/named-data/ndnd/std/encoding"
	stdface "github.com/named-data/ndnd/std/engine/face"

	"verif/internal/fwenv"
	"verif/internal/gen"
	"verif/internal/h"
	"verif/internal/tlvwalk"
)

// ---- C11: stream framing delivers each TLV exactly once for any chunking

// c11Block builds one well-formed block of total size <= 8800.
func c11Block(r *rand.Rand, shortestOnly bool) []byte {
	var t []byte
	switch r.Intn(7) {
	case 0, 1:
		t = []byte{byte(5 + r.Intn(2))}
	case 2, 3:
		t = []byte{0x64}
	case 4:
		// five-byte type numbers (65536 .. 2^32-1, the largest the NDN packet format allows)
		t, _ = gen.VarForm([]uint64{65536, 70000, 1<<31 - 1, 1 << 31, 1<<31 + 5, 1<<32 - 1}[r.Intn(6)], 5)
	default:
		t, _ = gen.VarForm(uint64(253+r.Intn(60000)), 3)
	}
	form := []int{1, 3, 5}[r.Intn(3)]
	if shortestOnly {
		form = 0
	}
	hdrL := map[int]int{0: 3, 1: 1, 3: 3, 5: 5}[form]
	maxV := 8800 - len(t) - hdrL
	var vl int
	switch r.Intn(10) {
	case 0:
		vl = maxV // total exactly 8800 (or 8798 for the short forms)
	case 1:
		vl = 0
	case 2:
		vl = []int{1, 252, 253, 254, 255, 256}[r.Intn(6)]
	case 3, 4:
		vl = r.Intn(maxV + 1)
	default:
		vl = r.Intn(600)
	}
	if form == 1 && vl > 252 {
		vl = r.Intn(253)
	}
	var l []byte
	if form == 0 {
		if vl <= 252 {
			l, _ = gen.VarForm(uint64(vl), 1)
		} else {
			l, _ = gen.VarForm(uint64(vl), 3)
		}
	} else {
		l, _ = gen.VarForm(uint64(vl), form)
	}
	b := make([]byte, 0, len(t)+len(l)+vl)
	b = append(b, t...)
	b = append(b, l...)
	v := make([]byte, vl)
	r.Read(v)
	return append(b, v...)
}

type c11Plan struct {
	name string
	next func(r *rand.Rand, off int, bounds map[int]bool) int
}

func c11Run(c *h.Ctx) {
	nStreams := c.Pick(8, 40)
	total := c.Pick(1_500_000, 6_000_000)
	watch := h.NewCallWatch(120 * time.Second)
	for s := 0; s < nStreams; s++ {
		id := fmt.Sprintf("s%d", s)
		if !c.Case(id) {
			continue
		}
		r := c.Rng(id)
		c11Scripted(c, id, r, total, watch)
	}
	// counterpart: the application-side stream face over a Unix socket
	for s := 0; s < c.Pick(1, 6); s++ {
		id := fmt.Sprintf("sock%d", s)
		if !c.Case(id) {
			continue
		}
		c11Socket(c, id, c.Rng(id), c.Pick(300_000, 3_000_000))
	}
	for s := 0; s < c.Pick(4, 24); s++ {
		id := fmt.Sprintf("tr%d", s)
		if !c.Case(id) {
			continue
		}
		c11Transport(c, id, c.Rng(id), c.Pick(200_000, 1_500_000))
	}
	for k := 0; k < c.Pick(6, 40); k++ {
		id := fmt.Sprintf("lpfrag%d", k)
		if c.Case(id) {
			c11LinkFragments(c, id, c.Rng(id))
		}
	}
	for k := 0; k < c.Pick(6, 40); k++ {
		id := fmt.Sprintf("reopen%d", k)
		if c.Case(id) {
			c11Reopen(c, id, c.Rng(id))
		}
	}
	for k := 0; k < c.Pick(2, 10); k++ {
		id := fmt.Sprintf("listen%d", k)
		if c.Case(id) {
			c11Listener(c, id, c.Rng(id))
		}
	}
	for k := 0; k < c.Pick(1, 6); k++ {
		id := fmt.Sprintf("udp%d", k)
		if c.Case(id) {
			c11UDP(c, id, c.Rng(id))
		}
	}
	if c.Batch < 2 || c.Thorough() {
		id := fmt.Sprintf("slow%d", c.Batch)
		if c.Case(id) {
			c11SlowPeer(c, id, c.Rng(id), []string{"tcp", "unix"}[c.Batch%2])
		}
	}
	for s := 0; s < c.Pick(3, 20); s++ {
		id := fmt.Sprintf("send%d", s)
		if !c.Case(id) {
			continue
		}
		c11SendSide(c, id, c.Rng(id), c.Pick(400, 2000))
	}
}

func c11Scripted(c *h.Ctx, id string, r *rand.Rand, total int, watch *h.CallWatch) {
	shortest := r.Intn(4) == 0
	var blocks [][]byte
	var stream []byte
	hdrPos := map[int]bool{} // offsets that lie inside a T or L field, or one byte before a block end
	for len(stream) < total {
		b := c11Block(r, shortest)
		for i := 1; i < 12 && i < len(b); i++ {
			hdrPos[len(stream)+i] = true
		}
		hdrPos[len(stream)+len(b)-1] = true
		blocks = append(blocks, b)
		stream = append(stream, b...)
	}
	planName := []string{"1byte", "rand1-64", "rand1-20000", "whole-buffer", "header-cuts", "wrap-281600", "mixed", "fill-ends-in-header"}[r.Intn(8)]
	if total > 1_000_000 && planName == "1byte" {
		planName = "rand1-64"
	}
	if planName == "fill-ends-in-header" {
		// the very first read fills the whole 32x8800-byte receive buffer and ends 1..4 bytes into
		// the T/L header of a block (so the pending header sits at the very end of the buffer);
		// the same alignment is repeated at later multiples of the buffer size
		const bufSize = 32 * 8800
		blocks, stream = nil, nil
		hdrPos = map[int]bool{}
		for len(stream) < total {
			nextEdge := (len(stream)/bufSize + 1) * bufSize
			k := 1 + r.Intn(4)
			room := nextEdge - k - len(stream)
			var b []byte
			switch {
			case room >= 300 && room <= 8800:
				// filler of exactly `room` bytes: type 1 byte, 3-byte length
				v := make([]byte, room-4)
				r.Read(v)
				l, _ := gen.VarForm(uint64(len(v)), 3)
				b = append(append([]byte{0x06}, l...), v...)
			case room == 0:
				// the block whose header straddles the edge: 3- or 5-byte length form
				v := make([]byte, 253+r.Intn(700))
				r.Read(v)
				l, _ := gen.VarForm(uint64(len(v)), []int{3, 5}[r.Intn(2)])
				b = append(append([]byte{0x05}, l...), v...)
			default:
				b = c11Block(r, shortest)
				if len(b) > room-300 && room > 300 { // do not overshoot the slot reserved for the filler
					v := make([]byte, 10+r.Intn(200))
					r.Read(v)
					l, _ := gen.VarForm(uint64(len(v)), 1)
					b = append(append([]byte{0x06}, l...), v...)
				}
			}
			blocks = append(blocks, b)
			stream = append(stream, b...)
		}
	}
	nextChunk := func(off int) int {
		switch planName {
		case "1byte":
			return 1
		case "rand1-64":
			return 1 + r.Intn(64)
		case "rand1-20000":
			return 1 + r.Intn(20000)
		case "whole-buffer", "fill-ends-in-header":
			return 32 * 8800
		case "wrap-281600":
			return []int{32 * 8800, 32*8800 - 1, 8800, 8799, 8801, 1}[r.Intn(6)]
		case "header-cuts":
			// stop at the next position inside a header / one before a block end
			for k := 1; k < 9000; k++ {
				if hdrPos[off+k] {
					return k
				}
			}
			return 1
		default:
			switch r.Intn(4) {
			case 0:
				return 1
			case 1:
				return 1 + r.Intn(64)
			case 2:
				return 1 + r.Intn(30000)
			}
			return 32 * 8800
		}
	}
	off := 0
	nReads := 0
	rd := readerFunc(func(p []byte) (int, error) {
		if off >= len(stream) {
			return 0, io.EOF
		}
		n := nextChunk(off)
		if n > len(p) {
			n = len(p)
		}
		if n > len(stream)-off {
			n = len(stream) - off
		}
		copy(p, stream[off:off+n])
		off += n
		nReads++
		return n, nil
	})
	var got [][]byte
	eofSeen := false
	lateFrames := 0
	var rerr error
	watch.Begin(id)
	pi := h.Guard(func() {
		rerr = face.VerifReadTlvStream(rd, func(f []byte) {
			if eofSeen {
				lateFrames++
			}
			got = append(got, append([]byte{}, f...)) // copied at once: the buffer is reused
		})
		eofSeen = true
	})
	watch.End()
	c.Eval(1)
	det := map[string]any{"plan": planName, "blocks": len(blocks), "stream_bytes": len(stream), "reads": nReads, "shortest_only": shortest}
	if pi != nil {
		c.Violation("C11:panic:"+pi.Frame+":"+pi.Class, id, "stream framing panicked on a well-formed stream: "+pi.Value, det)
		return
	}
	if rerr != nil {
		c.Violation("C11:reader-error", id, "stream framing returned an error on a well-formed stream: "+rerr.Error(), det)
	}
	c11Compare(c, id, "readTlvStream:"+planName, blocks, got, det)
	c.Count("blocks", int64(len(blocks)))
	c.Count("bytes_streamed", int64(len(stream)))
	c.Count("reads", int64(nReads))
	c.Distinct(fmt.Sprintf("scripted|%s|shortest=%v", planName, shortest))
	c.Sample(det)
}

type readerFunc func(p []byte) (int, error)

func (f readerFunc) Read(p []byte) (int, error) { return f(p) }

func c11Compare(c *h.Ctx, id, what string, blocks, got [][]byte, det map[string]any) {
	n := len(blocks)
	if len(got) < n {
		n = len(got)
	}
	for i := 0; i < n; i++ {
		if !bytes.Equal(blocks[i], got[i]) {
			d := map[string]any{"case": det, "index": i, "expected_len": len(blocks[i]), "got_len": len(got[i]), "expected_head": h.Hex(blocks[i][:min(24, len(blocks[i]))]), "got_head": h.Hex(got[i][:min(24, len(got[i]))])}
			kind := "corrupted"
			if len(blocks[i]) != len(got[i]) {
				kind = "split-or-merged"
			}
			c.Violation("C11:frame-differs:"+kind, id, fmt.Sprintf("%s: delivered frame %d differs from block %d of the stream (%s)", what, i, i, kind), d)
			return
		}
	}
	if len(got) != len(blocks) {
		kind := "lost"
		if len(got) > len(blocks) {
			kind = "extra"
		}
		c.Violation("C11:frame-count:"+kind, id, fmt.Sprintf("%s: %d blocks sent, %d frames delivered", what, len(blocks), len(got)), det)
	}
}

func c11Socket(c *h.Ctx, id string, r *rand.Rand, total int) {
	dir := filepath.Join(c.WorkDir, fmt.Sprintf("sock-%d", c.Batch))
	h.MustMkdir(dir)
	path := filepath.Join(dir, id+".sock")
	os.Remove(path)
	ln, err := net.Listen("unix", path)
	if err != nil {
		c.Inconclusive("cannot listen on unix socket: " + err.Error())
		return
	}
	defer ln.Close()
	defer os.Remove(path)
	var blocks [][]byte
	var stream []byte
	for len(stream) < total {
		b := c11Block(r, true)
		blocks = append(blocks, b)
		stream = append(stream, b...)
	}
	go func() {
		conn, err := ln.Accept()
		if err != nil {
			return
		}
		off := 0
		for off < len(stream) {
			n := []int{1, 3, 1 + r.Intn(100), 1 + r.Intn(9000), 50000}[r.Intn(5)]
			if n > len(stream)-off {
				n = len(stream) - off
			}
			if _, err := conn.Write(stream[off : off+n]); err != nil {
				return
			}
			off += n
			if r.Intn(50) == 0 {
				time.Sleep(time.Millisecond)
			}
		}
		conn.Close()
	}()
	var mu sync.Mutex
	var got [][]byte
	done := make(chan struct{})
	var once sync.Once
	f := stdface.NewStreamFace("unix", path, true)
	f.SetCallback(func(rd enc.ParseReader) error {
		b, _ := rd.ReadBuf(rd.Length())
		mu.Lock()
		got = append(got, append([]byte{}, b...))
		mu.Unlock()
		return nil
	}, func(err error) error {
		once.Do(func() { close(done) })
		return err
	})
	if err := f.Open(); err != nil {
		c.Inconclusive("cannot open stream face: " + err.Error())
		return
	}
	select {
	case <-done:
	case <-time.After(120 * time.Second):
		c.Inconclusive("stream face did not reach EOF in 120 s")
		return
	}
	c.Eval(1)
	mu.Lock()
	defer mu.Unlock()
	det := map[string]any{"plan": "unix-socket", "blocks": len(blocks), "stream_bytes": len(stream)}
	c11Compare(c, id, "StreamFace", blocks, got, det)
	c.Count("socket_blocks", int64(len(blocks)))
	c.Distinct("socket|unix")
}

// c11Transport: the forwarder's real stream transports (TCP accepted on loopback, Unix stream)
// run their own receive loop on a real socket; a frame sink records what they hand to the link
// layer. Half of the cases lower the face MTU first (a send limit: it must not filter what arrives).
func c11Transport(c *h.Ctx, id string, r *rand.Rand, total int) {
	kind := []string{"tcp", "unix"}[r.Intn(2)]
	lowMTU := r.Intn(2) == 0
	var blocks [][]byte
	var stream []byte
	for len(stream) < total {
		b := c11Block(r, true)
		blocks = append(blocks, b)
		stream = append(stream, b...)
	}
	var ln net.Listener
	var err error
	var path string
	if kind == "tcp" {
		ln, err = net.Listen("tcp4", "127.0.0.1:0")
	} else {
		dir := filepath.Join(c.WorkDir, fmt.Sprintf("sock-%d", c.Batch))
		h.MustMkdir(dir)
		path = filepath.Join(dir, id+".sock")
		os.Remove(path)
		ln, err = net.Listen("unix", path)
	}
	if err != nil {
		c.Inconclusive("cannot listen: " + err.Error())
		return
	}
	defer ln.Close()
	type acc struct {
		conn net.Conn
		err  error
	}
	ach := make(chan acc, 1)
	go func() {
		cn, e := ln.Accept()
		ach <- acc{cn, e}
	}()
	peer, err := net.Dial(ln.Addr().Network(), ln.Addr().String())
	if err != nil {
		c.Inconclusive("cannot dial: " + err.Error())
		return
	}
	a := <-ach
	if a.err != nil {
		c.Inconclusive("accept failed: " + a.err.Error())
		return
	}
	var sink *face.VerifFrameSink
	done := make(chan struct{})
	var setupErr error
	if pi := h.Guard(func() {
		if kind == "tcp" {
			tr, e := face.AcceptUnicastTCPTransport(a.conn, nil, face.PersistencyPersistent)
			if e != nil {
				setupErr = e
				return
			}
			sink = face.NewVerifFrameSink(tr)
			if lowMTU {
				tr.SetMTU([]int{1500, 300, 64}[r.Intn(3)])
			}
			go func() { face.VerifRunReceive(tr); close(done) }()
		} else {
			tr, e := face.MakeUnixStreamTransport(defn.MakeFDFaceURI(int(c.Batch)*1000+len(id)), defn.MakeUnixFaceURI(path), a.conn)
			if e != nil {
				setupErr = e
				return
			}
			sink = face.NewVerifFrameSink(tr)
			if lowMTU {
				tr.SetMTU([]int{1500, 300, 64}[r.Intn(3)])
			}
			go func() { face.VerifRunReceive(tr); close(done) }()
		}
	}); pi != nil {
		c.Violation("C11:panic:transport-setup:"+pi.Frame+":"+pi.Class, id, "transport construction panicked: "+pi.Value, nil)
		return
	}
	if setupErr != nil || sink == nil {
		c.Inconclusive(fmt.Sprintf("cannot build %s transport: %v", kind, setupErr))
		return
	}
	off := 0
	for off < len(stream) {
		n := []int{1, 3, 1 + r.Intn(100), 1 + r.Intn(9000), 50000}[r.Intn(5)]
		if n > len(stream)-off {
			n = len(stream) - off
		}
		if _, err := peer.Write(stream[off : off+n]); err != nil {
			break
		}
		off += n
	}
	peer.Close()
	select {
	case <-done:
	case <-time.After(120 * time.Second):
		c.Inconclusive("transport receive loop did not see EOF in 120 s")
		return
	}
	c.Eval(1)
	det := map[string]any{"plan": kind + "-transport", "mtu_lowered": lowMTU, "blocks": len(blocks), "stream_bytes": len(stream)}
	c11Compare(c, id, kind+" transport", blocks, sink.Frames(), det)
	c.Count("transport_blocks", int64(len(blocks)))
	c.Distinct(fmt.Sprintf("transport|%s|mtu-lowered=%v", kind, lowMTU))
}

// c11SlowPeer: the forwarder's TCP transport sends a burst of frames to a peer that does not read
// for a while (both socket buffers fill up) and then drains everything. What the peer finally reads
// must be a sequence of whole frames, each one sent, in order - a slow reader may delay frames but
// must never receive half of one glued to the next.
func c11SlowPeer(c *h.Ctx, id string, r *rand.Rand, kind string) {
	network, addr := "tcp4", "127.0.0.1:0"
	if kind == "unix" {
		dir := filepath.Join(c.WorkDir, fmt.Sprintf("sock-%d", c.Batch))
		h.MustMkdir(dir)
		addr = filepath.Join(dir, strings.ReplaceAll(id, "/", "_")+".slow.sock")
		os.Remove(addr)
		network = "unix"
	}
	ln, err := net.Listen(network, addr)
	if err != nil {
		c.Inconclusive("cannot listen: " + err.Error())
		return
	}
	defer ln.Close()
	ach := make(chan net.Conn, 1)
	go func() {
		cn, _ := ln.Accept()
		ach <- cn
	}()
	peer, err := net.Dial(network, ln.Addr().String())
	if err != nil {
		c.Inconclusive("cannot dial: " + err.Error())
		return
	}
	defer peer.Close()
	srv := <-ach
	if srv == nil {
		c.Inconclusive("accept failed")
		return
	}
	if tc, ok := srv.(*net.TCPConn); ok {
		_ = tc.SetWriteBuffer(8192)
	}
	if tc, ok := peer.(*net.TCPConn); ok {
		_ = tc.SetReadBuffer(8192)
	}
	var tr interface {
		IsRunning() bool
		Close()
	}
	var send func([]byte)
	if kind == "unix" {
		ut, err := face.MakeUnixStreamTransport(defn.MakeFDFaceURI(int(c.Batch)*1000+500+len(id)), defn.MakeUnixFaceURI(addr), srv)
		if err != nil {
			c.Inconclusive("cannot build unix transport: " + err.Error())
			return
		}
		face.NewVerifFrameSink(ut)
		tr, send = ut, func(f []byte) { face.VerifSendFrame(ut, f) }
	} else {
		tt, err := face.AcceptUnicastTCPTransport(srv, nil, face.PersistencyPersistent)
		if err != nil {
			c.Inconclusive("cannot build tcp transport: " + err.Error())
			return
		}
		face.NewVerifFrameSink(tt)
		tr, send = tt, func(f []byte) { face.VerifSendFrame(tt, f) }
	}
	nFrames := 250 + r.Intn(150)
	var frames [][]byte
	for k := 0; k < nFrames; k++ {
		v := make([]byte, 1200+r.Intn(2500))
		r.Read(v)
		v[0], v[1], v[2], v[3] = byte(k>>24), byte(k>>16), byte(k>>8), byte(k)
		frames = append(frames, tlvwalk.TLV(0x64, v))
	}
	sendDone := make(chan struct{})
	go func() {
		defer close(sendDone)
		for _, f := range frames {
			send(f)
		}
	}()
	time.Sleep(time.Duration(1300+r.Intn(500)) * time.Millisecond) // the peer is busy elsewhere
	var stream []byte
	readDone := make(chan struct{})
	go func() {
		defer close(readDone)
		buf := make([]byte, 65536)
		for {
			_ = peer.SetReadDeadline(time.Now().Add(20 * time.Second))
			n, err := peer.Read(buf)
			stream = append(stream, buf[:n]...)
			if err != nil {
				return
			}
		}
	}()
	select {
	case <-sendDone:
	case <-time.After(60 * time.Second):
		c.Inconclusive("the sender did not finish within 60 s")
		return
	}
	stayedUp := tr.IsRunning()
	tr.Close()
	<-readDone
	c.Eval(1)
	det := map[string]any{"plan": kind + "-slow-peer", "frames_sent": nFrames, "stream_bytes": len(stream), "transport_up_after_sending": stayedUp}
	nodes, werr := tlvwalk.Walk(stream, 0, len(stream), nil, false)
	if werr != nil {
		c.Violation("C11:send-side:slow-peer-stream-not-a-frame-sequence", id, "what a slow "+kind+" peer finally read is not a sequence of whole frames: "+werr.Error(), det)
		return
	}
	next := 0
	for _, n := range nodes {
		blk := stream[n.Off:n.End]
		// never altered or reordered (whether any is missing is decided below)
		found := -1
		for k := next; k < len(frames) && k < next+len(frames); k++ {
			if bytes.Equal(frames[k], blk) {
				found = k
				break
			}
		}
		if found < 0 {
			det["frame_len"] = len(blk)
			c.Violation("C11:send-side:slow-peer-frame-altered", id, "a frame read by a slow "+kind+" peer is not one of the frames sent (split, merged or reordered)", det)
			return
		}
		next = found + 1
	}
	if stayedUp && len(nodes) != len(frames) {
		// the transport never reported an error and stayed up: every frame handed to it must arrive
		c.Violation("C11:send-side:slow-peer-frame-lost", id, fmt.Sprintf("%d frames were sent on a %s transport that stayed up, the slow peer received %d whole frames once it read again", len(frames), kind, len(nodes)), det)
		return
	}
	c.Count("slow_peer_frames", int64(len(nodes)))
	c.Distinct("send-side|" + kind + "-slow-peer")
}

// c11SendSide: several goroutines send blocks as multi-buffer wires on ONE StreamFace; the peer
// frames the byte stream with the independent walker. Every block must arrive whole (not split by
// or merged with another sender's bytes), exactly once, in per-sender order.
func c11SendSide(c *h.Ctx, id string, r *rand.Rand, perSender int) {
	dir := filepath.Join(c.WorkDir, fmt.Sprintf("sock-%d", c.Batch))
	h.MustMkdir(dir)
	path := filepath.Join(dir, id+".sock")
	os.Remove(path)
	ln, err := net.Listen("unix", path)
	if err != nil {
		c.Inconclusive("cannot listen on unix socket: " + err.Error())
		return
	}
	defer ln.Close()
	defer os.Remove(path)
	senders := 2 + r.Intn(3)
	type plan struct {
		blocks [][]byte
		wires  []enc.Wire
	}
	plans := make([]plan, senders)
	for si := range plans {
		for k := 0; k < perSender; k++ {
			val := make([]byte, 8+r.Intn(300))
			r.Read(val)
			val[0], val[1], val[2], val[3] = byte(si), byte(k>>16), byte(k>>8), byte(k)
			b := tlvwalk.TLV(uint64(0x80+si), val)
			// 1..4 buffers, cuts anywhere (also inside the T/L header)
			w := enc.Wire{}
			prev := 0
			for n := r.Intn(4); n > 0 && prev < len(b)-1; n-- {
				cut := prev + 1 + r.Intn(len(b)-prev-1)
				w = append(w, b[prev:cut])
				prev = cut
			}
			w = append(w, b[prev:])
			plans[si].blocks = append(plans[si].blocks, b)
			plans[si].wires = append(plans[si].wires, w)
		}
	}
	recvDone := make(chan []byte, 1)
	go func() {
		conn, err := ln.Accept()
		if err != nil {
			recvDone <- nil
			return
		}
		defer conn.Close()
		var all []byte
		buf := make([]byte, 4096)
		for {
			conn.SetReadDeadline(time.Now().Add(60 * time.Second))
			n, err := conn.Read(buf)
			all = append(all, buf[:n]...)
			if err != nil {
				break
			}
		}
		recvDone <- all
	}()
	f := stdface.NewStreamFace("unix", path, true)
	f.SetCallback(func(rd enc.ParseReader) error { return nil }, func(err error) error { return err })
	if err := f.Open(); err != nil {
		c.Inconclusive("cannot open stream face: " + err.Error())
		return
	}
	var wg sync.WaitGroup
	start := make(chan struct{})
	var sendErr atomic.Value
	for si := range plans {
		wg.Add(1)
		go func(si int) {
			defer wg.Done()
			<-start
			for _, w := range plans[si].wires {
				if err := f.Send(w); err != nil {
					sendErr.Store(err.Error())
					return
				}
			}
		}(si)
	}
	close(start)
	wg.Wait()
	f.Close()
	var stream []byte
	select {
	case stream = <-recvDone:
	case <-time.After(90 * time.Second):
		c.Inconclusive("send-side peer did not reach EOF in 90 s")
		return
	}
	c.Eval(1)
	det := map[string]any{"plan": "send-side", "senders": senders, "blocks_per_sender": perSender, "stream_bytes": len(stream)}
	if e := sendErr.Load(); e != nil {
		c.Inconclusive("Send returned an error: " + e.(string))
		return
	}
	nodes, werr := tlvwalk.Walk(stream, 0, len(stream), nil, false)
	if werr != nil {
		c.Violation("C11:send-side:stream-not-a-block-sequence", id, "bytes written by concurrent Send calls do not form a sequence of whole blocks: "+werr.Error(), det)
		return
	}
	next := make([]int, senders)
	for _, n := range nodes {
		blk := stream[n.Off:n.End]
		si := int(n.Type) - 0x80
		if si < 0 || si >= senders || next[si] >= perSender || !bytes.Equal(blk, plans[si].blocks[next[si]]) {
			det["frame_type"] = n.Type
			det["frame_len"] = len(blk)
			c.Violation("C11:send-side:block-split-or-merged", id, "a block on the wire is not the next block its sender sent (split, merged, lost, duplicated or reordered)", det)
			return
		}
		next[si]++
	}
	for si, k := range next {
		if k != perSender {
			det["sender"] = si
			c.Violation("C11:send-side:block-lost", id, fmt.Sprintf("sender %d sent %d blocks, %d arrived", si, perSender, k), det)
			return
		}
	}
	c.Count("send_side_blocks", int64(senders*perSender))
	c.Distinct(fmt.Sprintf("send-side|senders=%d", senders))
}

func init() {
	h.Register(&h.Prop{
		ID:    "C11",
		Level: "exploration",
		Rule: "streams of well-formed blocks (1- and 3-byte types, 1/3/5-byte length forms, total block size 2..8800 incl. exactly 8800) of 0.6 MB (quick) / 6 MB (thorough) each are fed to the framing loop through a scripted reader: 1-byte reads, random 1..64, random 1..20000, whole-buffer reads, " +
			"reads ending inside every T/L header and one byte before each block end, reads at the 32x8800 wrap points; oracle: delivered frames == blocks (count, order, bytes), no error, no callback after EOF; counterpart: std StreamFace over a Unix socket with bursty writes; the forwarder's own TCP / Unix / unicast-UDP transports on real sockets (face MTU lowered in half of the cases: a send limit must not filter what arrives); a peer that stops reading for 1.3-1.8 s (TCP and Unix); distinct = (chunk plan, length-form set)",
		Assumptions: []string{"each delivered frame is copied inside the callback (the code documents that the buffer is reused)", "kernel chunking on the Unix socket is not controllable; the exact-partition claim rests on the scripted reader"},
		Batches:     func(t bool) int { return 16 },
		ChildTimeoutS: func(t bool) int {
			if t {
				return 2400
			}
			return 400
		},
		Run:         c11Run,
		MinDistinct: 6,
		Floors:      map[string]int64{"blocks": 1000, "socket_blocks": 100},
	})
}

// c11UDP: the forwarder's unicast UDP transport runs its own receive loop on a connected socket;
// every datagram carries one to three whole blocks. Half of the cases lower the face MTU first (a
// send limit: it must not filter what arrives). Datagrams are paced by what the sink has seen, so
// that the kernel's socket buffer never overflows.
func c11UDP(c *h.Ctx, id string, r *rand.Rand) {
	peer, err := net.ListenUDP("udp4", &net.UDPAddr{IP: net.ParseIP("127.0.0.1")})
	if err != nil {
		c.Inconclusive("cannot open the peer's UDP socket: " + err.Error())
		return
	}
	defer peer.Close()
	probe, err := net.ListenUDP("udp4", &net.UDPAddr{IP: net.ParseIP("127.0.0.1")})
	if err != nil {
		c.Inconclusive("cannot find a free UDP port: " + err.Error())
		return
	}
	lport := probe.LocalAddr().(*net.UDPAddr).Port
	probe.Close()
	pport := peer.LocalAddr().(*net.UDPAddr).Port
	lowMTU := r.Intn(2) == 0
	var sink *face.VerifFrameSink
	var closeTr func()
	done := make(chan struct{})
	var setupErr error
	if pi := h.Guard(func() {
		tr, e := face.MakeUnicastUDPTransport(defn.MakeUDPFaceURI(4, "127.0.0.1", uint16(pport)), defn.MakeUDPFaceURI(4, "127.0.0.1", uint16(lport)), face.PersistencyPersistent)
		if e != nil {
			setupErr = e
			return
		}
		sink = face.NewVerifFrameSink(tr)
		if lowMTU {
			tr.SetMTU([]int{1500, 300, 64}[r.Intn(3)])
		}
		closeTr = tr.Close
		go func() { face.VerifRunReceive(tr); close(done) }()
	}); pi != nil {
		c.Violation("C11:panic:transport-setup:"+pi.Frame+":"+pi.Class, id, "transport construction panicked: "+pi.Value, nil)
		return
	}
	if setupErr != nil || sink == nil {
		c.Inconclusive(fmt.Sprintf("cannot build udp transport: %v", setupErr))
		return
	}
	dst := &net.UDPAddr{IP: net.ParseIP("127.0.0.1"), Port: lport}
	var blocks [][]byte
	nDgram := 150 + r.Intn(150)
	for d := 0; d < nDgram; d++ {
		var dg []byte
		for k := 1 + r.Intn(3); k > 0; k-- {
			b := c11Block(r, true)
			if len(dg)+len(b) > 30000 {
				break
			}
			blocks = append(blocks, b)
			dg = append(dg, b...)
		}
		if len(dg) == 0 {
			continue
		}
		if _, err := peer.WriteToUDP(dg, dst); err != nil {
			c.Inconclusive("cannot send a datagram: " + err.Error())
			closeTr()
			return
		}
		// pace: wait until the transport has taken this datagram off the socket (every block handed
		// over or, if the implementation drops some, at least no growth for a while)
		last, lastChange := -1, time.Now()
		for {
			n := len(sink.Frames())
			if n >= len(blocks) {
				break
			}
			if n != last {
				last, lastChange = n, time.Now()
			}
			if time.Since(lastChange) > 300*time.Millisecond {
				break
			}
			time.Sleep(50 * time.Microsecond)
		}
	}
	closeTr()
	select {
	case <-done:
	case <-time.After(30 * time.Second):
		c.Inconclusive("udp receive loop did not end in 30 s")
		return
	}
	c.Eval(1)
	det := map[string]any{"plan": "udp-transport", "mtu_lowered": lowMTU, "blocks": len(blocks), "datagrams": nDgram}
	c11Compare(c, id, "udp transport", blocks, sink.Frames(), det)
	c.Count("transport_blocks", int64(len(blocks)))
	c.Distinct(fmt.Sprintf("transport|udp|mtu-lowered=%v", lowMTU))
}

// c11Reopen: one StreamFace object is closed and opened again (an application stopping and
// restarting its engine on the same face). The blocks the forwarder sends on the second connection
// must all be handed up, exactly once, in order, and the face must still send.
func c11Reopen(c *h.Ctx, id string, r *rand.Rand) {
	dir := filepath.Join(c.WorkDir, fmt.Sprintf("sock-%d", c.Batch))
	h.MustMkdir(dir)
	path := filepath.Join(dir, strings.ReplaceAll(id, "/", "_")+".reopen.sock")
	os.Remove(path)
	ln, err := net.Listen("unix", path)
	if err != nil {
		c.Inconclusive("cannot listen on unix socket: " + err.Error())
		return
	}
	defer ln.Close()
	defer os.Remove(path)
	conns := make(chan net.Conn, 4)
	go func() {
		for {
			cn, err := ln.Accept()
			if err != nil {
				return
			}
			conns <- cn
		}
	}()
	var mu sync.Mutex
	var got, held [][]byte
	f := stdface.NewStreamFace("unix", path, true)
	// in half of the cases the restart happens (from another goroutine) while the receive loop is
	// inside the application's packet callback for the last block of the first connection
	duringCallback := r.Intn(2) == 0
	inCallback := make(chan struct{}, 1)
	gate := make(chan struct{})
	var holdAt atomic.Int32
	holdAt.Store(-1)
	f.SetCallback(func(rd enc.ParseReader) error {
		b, _ := rd.ReadBuf(rd.Length())
		mu.Lock()
		got = append(got, append([]byte{}, b...))
		held = append(held, b) // the engine parses blocks without copying and applications keep them
		n := len(got)
		mu.Unlock()
		if int32(n) == holdAt.Load() {
			holdAt.Store(-1)
			inCallback <- struct{}{}
			<-gate
		}
		return nil
	}, func(err error) error { return err })
	mkBlocks := func(n int, tag byte) [][]byte {
		var out [][]byte
		for k := 0; k < n; k++ {
			v := make([]byte, 4+r.Intn(400))
			r.Read(v)
			v[0], v[1] = tag, byte(k)
			out = append(out, tlvwalk.TLV(0x80, v))
		}
		return out
	}
	waitGot := func(n int) bool {
		for dl := time.Now().Add(10 * time.Second); time.Now().Before(dl); time.Sleep(200 * time.Microsecond) {
			mu.Lock()
			k := len(got)
			mu.Unlock()
			if k >= n {
				return true
			}
		}
		return false
	}
	if err := f.Open(); err != nil {
		c.Inconclusive("cannot open stream face: " + err.Error())
		return
	}
	var srv net.Conn
	select {
	case srv = <-conns:
	case <-time.After(5 * time.Second):
		c.Inconclusive("no connection accepted")
		return
	}
	first := mkBlocks(2+r.Intn(4), 1)
	if duringCallback {
		holdAt.Store(int32(len(first)))
	}
	for _, b := range first {
		srv.Write(b)
	}
	// in the callback variant more blocks follow at once: they are still unread (on the socket, in the
	// face's buffers) when the application closes the face. Whether any of them is still handed up is
	// left open; what must not happen is that their bytes turn up inside the next connection's stream
	tailSet := map[string]bool{}
	if duringCallback {
		for _, b := range mkBlocks(50+r.Intn(30), 3) {
			tailSet[string(b)] = true
			srv.Write(b)
		}
		c.Count("reopen_cases_with_unread_bytes_at_close", 1)
	}
	if !waitGot(len(first)) {
		c.Inconclusive("blocks of the first connection did not arrive")
		return
	}
	c.Eval(1)
	if duringCallback {
		select {
		case <-inCallback:
		case <-time.After(10 * time.Second):
			c.Inconclusive("the receive loop never reached the callback of the last block")
			return
		}
	}
	// stop and start again on the same face object; Open may refuse until the old receive loop has
	// wound down, so the application retries
	_ = f.Close()
	reopened := false
	if duringCallback {
		reopened = f.Open() == nil
		close(gate) // the callback returns only now
	}
	for dl := time.Now().Add(10 * time.Second); !reopened && time.Now().Before(dl); time.Sleep(time.Duration(r.Intn(300)) * time.Microsecond) {
		if err := f.Open(); err == nil {
			reopened = true
			break
		}
	}
	srv.Close()
	if !reopened {
		c.Violation("C11:reopen:face-cannot-be-opened-again", id, "a closed stream face could not be opened again within 10 s", nil)
		return
	}
	var srv2 net.Conn
	select {
	case srv2 = <-conns:
	case <-time.After(5 * time.Second):
		c.Inconclusive("second connection not accepted")
		return
	}
	defer srv2.Close()
	time.Sleep(time.Duration(r.Intn(3)) * time.Millisecond)
	mu.Lock()
	got, held = nil, nil
	mu.Unlock()
	second := mkBlocks(5+r.Intn(6), 2)
	for _, b := range second {
		srv2.Write(b)
		if r.Intn(3) == 0 {
			time.Sleep(300 * time.Microsecond)
		}
	}
	notTail := func() [][]byte { // under mu
		var out [][]byte
		for _, g := range got {
			if !tailSet[string(g)] {
				out = append(out, g)
			}
		}
		return out
	}
	arrived := false
	for dl := time.Now().Add(10 * time.Second); time.Now().Before(dl) && !arrived; time.Sleep(200 * time.Microsecond) {
		mu.Lock()
		arrived = len(notTail()) >= len(second)
		mu.Unlock()
	}
	mu.Lock()
	defer mu.Unlock()
	if len(tailSet) > 0 {
		// blocks of the first connection that are still handed up late are whole blocks of that
		// connection; everything else must be the second connection's stream
		keptHeld := held[:0:0]
		for i, g := range got {
			if !tailSet[string(g)] && i < len(held) {
				keptHeld = append(keptHeld, held[i])
			}
		}
		got, held = notTail(), keptHeld
	}
	det := map[string]any{"blocks_first_connection": len(first), "blocks_second_connection": len(second), "handed_up_after_reopen": len(got), "unread_blocks_at_close": len(tailSet)}
	if !arrived {
		c.Violation("C11:reopen:blocks-lost-after-reopen", id, fmt.Sprintf("%d blocks were sent to a stream face that had been closed and opened again; %d were handed up within 10 s", len(second), len(got)), det)
		return
	}
	c11Compare(c, id, "stream face after close and re-open", second, got, det)
	for i := range held {
		if i < len(got) && !bytes.Equal(held[i], got[i]) {
			c.Violation("C11:stream-face:block-changes-after-later-blocks", id, fmt.Sprintf("block %d handed up by the stream face (kept by the application without copying, as the engine's zero-copy parser does) changed after later blocks arrived", i), det)
			return
		}
	}
	// the face must still send
	probe := tlvwalk.TLV(0x81, []byte("after-reopen"))
	if err := f.Send(enc.Wire{probe}); err != nil {
		c.Violation("C11:reopen:face-cannot-send-after-reopen", id, "Send on the re-opened face fails: "+err.Error(), det)
		return
	}
	srv2.SetReadDeadline(time.Now().Add(5 * time.Second))
	buf := make([]byte, len(probe))
	if _, err := io.ReadFull(srv2, buf); err != nil || !bytes.Equal(buf, probe) {
		c.Violation("C11:reopen:sent-block-not-received", id, "a block sent on the re-opened face did not reach the peer unchanged", det)
		return
	}
	_ = f.Close()
	c.Count("reopen_cases", 1)
	c.Distinct(fmt.Sprintf("stream-face|reopen|during-callback=%v", duringCallback))
}

// c11LinkFragments: a stream face as the listeners build it (real Unix / TCP transport, real NDNLP
// link service with fragmentation off and reassembly on, the transport's own receive loop). The peer
// sends every packet as two to four link-protocol fragments and the byte stream arrives in reads of
// scripted sizes (a frame per read, cuts inside headers, 97-byte reads, everything at once). What
// reaches the forwarding threads must be exactly the packets sent, whatever the chunking.
func c11LinkFragments(c *h.Ctx, id string, r *rand.Rand) {
	kind := []string{"tcp", "unix"}[r.Intn(2)]
	network, addr := "tcp4", "127.0.0.1:0"
	if kind == "unix" {
		dir := filepath.Join(c.WorkDir, fmt.Sprintf("sock-%d", c.Batch))
		h.MustMkdir(dir)
		addr = filepath.Join(dir, strings.ReplaceAll(id, "/", "_")+".lp.sock")
		os.Remove(addr)
		network = "unix"
	}
	ln, err := net.Listen(network, addr)
	if err != nil {
		c.Inconclusive("cannot listen: " + err.Error())
		return
	}
	defer ln.Close()
	ach := make(chan net.Conn, 1)
	go func() {
		cn, _ := ln.Accept()
		ach <- cn
	}()
	peer, err := net.Dial(network, ln.Addr().String())
	if err != nil {
		c.Inconclusive("cannot dial: " + err.Error())
		return
	}
	defer peer.Close()
	srv := <-ach
	if srv == nil {
		c.Inconclusive("accept failed")
		return
	}
	rts := fwenv.InstallRecThreads(2)
	fwfw.Threads = make([]*fwfw.Thread, 2)
	// half of the cases start the face the way a listener does (LinkService.Run: face table, receive
	// and send goroutines), with the configuration option that pins those goroutines to OS threads
	viaRun := r.Intn(2) == 0
	if viaRun {
		cfg := fwenv.Config()
		cfg.Faces.LockThreadsToCores = r.Intn(2) == 0
		fwenv.Load(cfg)
		defer fwenv.Load(fwenv.Config())
	}
	var runLS *face.NDNLPLinkService
	opts := face.MakeNDNLPLinkServiceOptions()
	opts.IsFragmentationEnabled = false // reliable stream (what the stream listeners set)
	done := make(chan struct{})
	var closeTr func()
	if kind == "unix" {
		ut, err := face.MakeUnixStreamTransport(defn.MakeFDFaceURI(int(c.Batch)*1000+900+r.Intn(90)), defn.MakeUnixFaceURI(addr), srv)
		if err != nil {
			c.Inconclusive("cannot build unix transport: " + err.Error())
			return
		}
		ls := face.MakeNDNLPLinkService(ut, opts)
		ls.SetFaceID(911)
		closeTr = ut.Close
		if viaRun {
			runLS = ls
			ls.Run(nil)
		} else {
			go func() { face.VerifRunReceive(ut); close(done) }()
		}
	} else {
		tt, err := face.AcceptUnicastTCPTransport(srv, nil, face.PersistencyPersistent)
		if err != nil {
			c.Inconclusive("cannot build tcp transport: " + err.Error())
			return
		}
		ls := face.MakeNDNLPLinkService(tt, opts)
		ls.SetFaceID(912)
		closeTr = tt.Close
		if viaRun {
			runLS = ls
			ls.Run(nil)
		} else {
			go func() { face.VerifRunReceive(tt); close(done) }()
		}
	}
	nPk := 4 + r.Intn(8)
	var packets [][]byte
	var stream []byte
	var frameEnds []int
	for k := 0; k < nPk; k++ {
		nm, _ := enc.NameFromStr(fmt.Sprintf("/lp/%d", k))
		content := make([]byte, 30+r.Intn(2500))
		r.Read(content)
		_, wire, err := makeData(nm, nil, content)
		if err != nil {
			c.Inconclusive("cannot build Data")
			return
		}
		packets = append(packets, wire)
		n := 2 + r.Intn(3)
		for i := 0; i < n; i++ {
			a, z := len(wire)*i/n, len(wire)*(i+1)/n
			var f []byte
			f = append(f, tlvwalk.TLV(0x51, []byte{0, 0, 0, 0, 0, byte(k), 0, byte(i)})...)
			f = append(f, tlvwalk.TLV(0x52, []byte{byte(i)})...)
			f = append(f, tlvwalk.TLV(0x53, []byte{byte(n)})...)
			f = append(f, tlvwalk.TLV(0x62, []byte{0, 0, 0, 0, byte(k), 1})...)
			f = append(f, tlvwalk.TLV(0x50, wire[a:z])...)
			stream = append(stream, tlvwalk.TLV(0x64, f)...)
			frameEnds = append(frameEnds, len(stream))
		}
	}
	plan := []string{"frame-per-read", "cut-inside-header", "97-byte-reads", "one-read", "random"}[r.Intn(5)]
	var cuts []int
	switch plan {
	case "frame-per-read":
		cuts = frameEnds
	case "cut-inside-header":
		for _, e := range frameEnds {
			cuts = append(cuts, e+1+r.Intn(3))
		}
	case "97-byte-reads":
		for p := 97; p < len(stream); p += 97 {
			cuts = append(cuts, p)
		}
	case "random":
		for p := 1 + r.Intn(400); p < len(stream); p += 1 + r.Intn(1500) {
			cuts = append(cuts, p)
		}
	}
	prev := 0
	for _, ct := range append(cuts, len(stream)) {
		if ct > len(stream) {
			ct = len(stream)
		}
		if ct <= prev {
			continue
		}
		if _, err := peer.Write(stream[prev:ct]); err != nil {
			break
		}
		prev = ct
		time.Sleep(time.Duration(150+r.Intn(300)) * time.Microsecond) // let the receive loop take this read
	}
	// wait until everything sent has been handled (or nothing moves any more)
	count := func() int {
		n := 0
		for _, t := range rts {
			n += t.Len()
		}
		return n
	}
	last, lastChange := -1, time.Now()
	for count() < nPk && time.Since(lastChange) < 2*time.Second {
		if n := count(); n != last {
			last, lastChange = n, time.Now()
		}
		time.Sleep(300 * time.Microsecond)
	}
	_ = closeTr
	peer.Close() // the receive loop ends on EOF, as when an application disconnects
	if runLS != nil {
		for dl := time.Now().Add(20 * time.Second); time.Now().Before(dl) && face.FaceTable.Get(runLS.FaceID()) != nil; {
			time.Sleep(time.Millisecond)
		}
	} else {
		select {
		case <-done:
		case <-time.After(20 * time.Second):
		}
	}
	c.Eval(1)
	var delivered [][]byte
	for _, p := range fwenv.TakeAll(rts) {
		if p.L3.Data != nil {
			delivered = append(delivered, p.Raw)
		}
	}
	det := map[string]any{"transport": kind, "packets": nPk, "reads": plan, "delivered": len(delivered), "started_through_linkservice_run": viaRun}
	if len(delivered) != nPk {
		c.Violation("C11:link-fragments:packet-count", id, fmt.Sprintf("%d packets were sent as link-protocol fragments over a %s stream face (%s), %d reached the forwarding threads", nPk, kind, plan, len(delivered)), det)
		return
	}
	for i := range packets {
		if !bytes.Equal(delivered[i], packets[i]) {
			c.Violation("C11:link-fragments:packet-differs", id, fmt.Sprintf("packet %d reassembled from fragments received over a %s stream face (%s) differs from the packet sent", i, kind, plan), det)
			return
		}
	}
	c.Count("link_fragment_packets", int64(nPk))
	c.Distinct(fmt.Sprintf("link-fragments|%s|%s", kind, plan))
}
