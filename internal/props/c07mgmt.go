package props

import (
	"fmt"
	"time"

	"github.com/named-data/ndnd/fw/face"
	fwfw "github.com/named-data/ndnd/fw/fw"
	"github.com/named-data/ndnd/fw/table"
	enc "github.com/named-data/ndnd/std/encoding"
	mgmt "github.com/named-data/ndnd/std/ndn/mgmt_2022"
	spec "github.com/named-data/ndnd/std/ndn/spec_2022"

	"verif/internal/h"
	"verif/internal/tlvwalk"
)

// ---- C07, capacity lowered through management: a running mini daemon (the one C17 uses, with
// the Content Store switched on) gets cs/config commands from a local application; Data is then
// cached through the real pipeline (application Interest -> upstream peer -> Data back) and the
// number of packets each forwarding thread keeps, and the number of names a second application
// can still fetch without the upstream seeing an Interest, must stay within the capacity the last
// accepted command set.

// c07Fetch sends an Interest for name on face from and waits until either a Data comes back on it
// (hit=true if the upstream peer did not see the Interest) or the peer sees the Interest; in the
// latter case, when answer is set, the peer replies with fresh Data and the Data must reach from.
func c07Fetch(d *c17Daemon, from *c17Face, name enc.Name, answer bool) (hit bool, got bool, ok bool) {
	d.send(from, name, false)
	deadline := time.Now().Add(15 * time.Second)
	for time.Now().Before(deadline) {
		for _, fr := range d.peer.tr.TakeFrames() {
			p, _, err := spec.ReadPacket(enc.NewBufferReader(fr))
			if err != nil {
				continue
			}
			var token []byte
			inner := p
			if p.LpPacket != nil {
				token = p.LpPacket.PitToken
				ip, _, err := spec.ReadPacket(enc.NewBufferReader(p.LpPacket.Fragment.Join()))
				if err != nil {
					continue
				}
				inner = ip
			}
			if inner.Interest == nil || !inner.Interest.NameV.Equal(name) {
				continue
			}
			if !answer {
				return false, false, true
			}
			fresh := time.Minute
			_, wire, err := makeData(name, &fresh, []byte(name.String()))
			if err != nil {
				return false, false, false
			}
			frame := wire
			if token != nil {
				frame = tlvwalk.TLV(0x64, append(tlvwalk.TLV(0x62, token), tlvwalk.TLV(0x50, wire)...))
			}
			face.VerifRecv(d.peer.ls, frame)
			data, _ := d.await(from, name, 15*time.Second)
			return false, data != nil, data != nil
		}
		if data, _ := d.await(from, name, 300*time.Microsecond); data != nil {
			return true, true, true
		}
	}
	return false, false, false
}

func c07Mgmt(c *h.Ctx) { c07MgmtAs(c, "C07") }

// c07MgmtAs runs the scenario reporting under property prop (C17 uses it for the clause "an accepted
// cache-capacity command has exactly the table effect its parameters describe").
func c07MgmtAs(c *h.Ctx, prop string) {
	if !c.Case("mgmt") {
		return
	}
	c17CsOn = true
	d := c17Start(c, false, []string{"nametree", "hashtable"}[c.Batch%2])
	r := c.Rng("mgmt")
	root, _ := enc.NameFromStr("/c07")
	cp := c17Params(&mgmt.ControlArgs{Name: root, FaceId: u64p(d.peer.id)})
	if resp := d.command(d.app, "/localhost/nfd", "rib", "register", &cp, 15*time.Second); resp == nil || resp.StatusCode != 200 {
		c.Inconclusive("mgmt: route registration got no 200")
		return
	}
	for dl := time.Now().Add(15 * time.Second); len(table.FibStrategyTable.FindNextHopsEnc(root)) == 0; {
		if time.Now().After(dl) {
			c.Inconclusive("mgmt: route never reached the FIB")
			return
		}
		time.Sleep(time.Millisecond)
	}
	setCap := func(k int, id string) bool {
		cp := c17Params(&mgmt.ControlArgs{Capacity: u64p(uint64(k))})
		d.log = append(d.log, fmt.Sprintf("%s: cs/config capacity=%d", id, k))
		resp := d.command(d.app, "/localhost/nfd", "cs", "config", &cp, 15*time.Second)
		if resp == nil {
			c.Inconclusive("mgmt: cs/config unanswered")
			return false
		}
		if resp.StatusCode != 200 {
			d.fail(prop+":management-capacity-command-rejected", id, fmt.Sprintf("cs/config Capacity=%d was answered with %s", k, respStr(resp)), nil)
			return false
		}
		return true
	}
	rounds := c.Pick(6, 60)
	for round := 0; round < rounds; round++ {
		id := fmt.Sprintf("mgmt/r%d", round)
		c.Eval(1)
		k1 := 3 + r.Intn(8)
		if !setCap(k1, id) {
			return
		}
		var names []enc.Name
		insert := func(n int) bool {
			for j := 0; j < n; j++ {
				nm, _ := enc.NameFromStr(fmt.Sprintf("/c07/r%d/%d", round, len(names)))
				_, got, ok := c07Fetch(d, d.app, nm, true)
				if !ok || !got {
					c.Inconclusive("mgmt: Data did not travel back to the consumer")
					return false
				}
				names = append(names, nm)
			}
			return true
		}
		if !insert(2*k1 + r.Intn(5)) {
			return
		}
		k2 := []int{0, 0, 1, 2, k1 - 1, k1 / 2}[r.Intn(6)]
		if !setCap(k2, id) {
			return
		}
		before := len(names)
		if !insert(3 + r.Intn(4)) {
			return
		}
		touched := map[int]bool{} // threads that inserted under the lowered capacity
		for _, nm := range names[before:] {
			touched[fwfw.HashNameToFwThread(nm)] = true
		}
		time.Sleep(5 * time.Millisecond)
		for t := range touched {
			if n := fwfw.Threads[t].GetNumCsEntries(); n > k2 {
				d.fail(prop+":management-capacity-exceeded", id, fmt.Sprintf("forwarding thread %d keeps %d packets cached after cs/config lowered the capacity from %d to %d and new packets were inserted", t, n, k1, k2), map[string]any{"configured": table.CsCapacity()})
				return
			}
		}
		// black box: how many names can a second application still get without the upstream being asked
		hits := map[int]int{}
		for _, nm := range names {
			hit, _, ok := c07Fetch(d, d.app2, nm, false)
			if !ok {
				c.Inconclusive("mgmt: probe neither answered nor forwarded")
				return
			}
			if hit {
				hits[fwfw.HashNameToFwThread(nm)]++
			}
		}
		for t := range touched {
			if hits[t] > k2 {
				d.fail(prop+":management-capacity-exceeded", id, fmt.Sprintf("%d names handled by forwarding thread %d are answered from the cache although cs/config set the capacity to %d", hits[t], t, k2), nil)
				return
			}
		}
		c.Count("mgmt_rounds", 1)
		c.Count("mgmt_cache_hits", int64(hits[0]+hits[1]))
		c.Distinct(fmt.Sprintf("mgmt|to=%d", min(k2, 3)))
	}
}
