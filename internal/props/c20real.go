package props

import (
	"fmt"
	"math/rand"
	"sync"
	"time"

	enc "github.com/named-data/ndnd/std/encoding"
	"github.com/named-data/ndnd/std/engine/basic"
	"github.com/named-data/ndnd/std/ndn"
	spec "github.com/named-data/ndnd/std/ndn/spec_2022"
	sec "github.com/named-data/ndnd/std/security"

	"verif/internal/h"
	"verif/internal/simeng"
)

// c20RealTimer: the engine on the wall-clock timer real programs use (basic.NewTimer). A
// short-lived Interest's timer fires while the engine is still busy delivering the Data that
// satisfies it (an application callback further up the same Data's name is slow). Verdicts do not
// depend on who wins: every Interest resolves exactly once (the short one with Data or Timeout),
// and the engine still resolves an Interest expressed afterwards. Watchdogs are 10 s.
func c20RealTimer(c *h.Ctx, id string, r *rand.Rand) {
	c.Eval(1)
	tm := basic.NewTimer()
	f := simeng.NewFace(true)
	eng := basic.NewEngine(f, tm, sec.NewSha256IntSigner(tm), func(enc.Name, enc.Wire, ndn.Signature) bool { return true })
	if err := eng.Start(); err != nil {
		c.Inconclusive("engine start: " + err.Error())
		return
	}
	var mu sync.Mutex
	results := map[string][]ndn.InterestResult{}
	express := func(name string, cbp bool, life time.Duration, slow time.Duration) bool {
		n, _ := enc.NameFromStr(name)
		cfg := &ndn.InterestConfig{CanBePrefix: cbp, Lifetime: &life}
		ei, err := spec.Spec{}.MakeInterest(n, cfg, nil, nil)
		if err != nil {
			return false
		}
		done := make(chan error, 1)
		go func() {
			done <- eng.Express(ei, func(a ndn.ExpressCallbackArgs) {
				if slow > 0 && a.Result == ndn.InterestResultData {
					time.Sleep(slow)
				}
				mu.Lock()
				results[name] = append(results[name], a.Result)
				mu.Unlock()
			})
		}()
		select {
		case err := <-done:
			return err == nil
		case <-time.After(10 * time.Second):
			return false
		}
	}
	tag := fmt.Sprintf("/rt%d", r.Intn(1000))
	shortLife := time.Duration(30+r.Intn(30)) * time.Millisecond
	slow := shortLife + time.Duration(30+r.Intn(40))*time.Millisecond
	// the engine walks from the deepest matching name upwards: the deeper Interest has the slow
	// callback, the shallower (prefix) one the short lifetime; in every other history the roles swap
	deepName, shallowName := tag+"/a/b", tag
	slowName, shortName := deepName, shallowName
	if r.Intn(2) == 0 {
		slowName, shortName = shallowName, deepName
	}
	if !express(slowName, slowName == shallowName, 4*time.Second, slow) || !express(shortName, shortName == shallowName, shortLife, 0) {
		c.Violation("C20:engine-stops-resolving:real-timer", id, "Express did not return within 10 s on an idle engine", nil)
		return
	}
	dn, _ := enc.NameFromStr(tag + "/a/b")
	_, wire, err := makeData(dn, nil, []byte("x"))
	if err != nil {
		c.Inconclusive("cannot build Data")
		return
	}
	fed := make(chan struct{})
	go func() { _ = f.Feed(wire); close(fed) }()
	det := func() map[string]any {
		mu.Lock()
		defer mu.Unlock()
		return map[string]any{"short_lifetime_ms": shortLife.Milliseconds(), "slow_callback_ms": slow.Milliseconds(), "results": fmt.Sprint(results)}
	}
	select {
	case <-fed:
	case <-time.After(10 * time.Second):
		c.Violation("C20:engine-stops-resolving:real-timer", id, fmt.Sprintf("delivering one Data packet that satisfies two pending Interests did not finish within 10 s (a %v callback of the first, a %v lifetime of the second)", slow, shortLife), det())
		return
	}
	// afterwards the engine must still work
	after := tag + "/later"
	if !express(after, false, 2*time.Second, 0) {
		c.Violation("C20:engine-stops-resolving:real-timer", id, "after a timer fired during Data delivery, Express no longer returns", det())
		return
	}
	an, _ := enc.NameFromStr(after)
	_, w2, _ := makeData(an, nil, []byte("y"))
	fed2 := make(chan struct{})
	go func() { _ = f.Feed(w2); close(fed2) }()
	select {
	case <-fed2:
	case <-time.After(10 * time.Second):
		c.Violation("C20:engine-stops-resolving:real-timer", id, "after a timer fired during Data delivery, the engine no longer accepts packets", det())
		return
	}
	time.Sleep(shortLife + 150*time.Millisecond) // let stray timers fire
	mu.Lock()
	defer mu.Unlock()
	for _, n := range []string{slowName, shortName, after} {
		if len(results[n]) != 1 {
			c.Violation("C20:callback-count:real-timer", id, fmt.Sprintf("Interest %s was resolved %d times (%v), exactly once expected", n, len(results[n]), results[n]), map[string]any{"short_lifetime_ms": shortLife.Milliseconds(), "results": fmt.Sprint(results)})
			return
		}
	}
	if results[slowName][0] != ndn.InterestResultData || results[after][0] != ndn.InterestResultData {
		c.Violation("C20:data-did-not-resolve-pending:real-timer", id, fmt.Sprintf("Data arrived within the lifetime but the Interests resolved as %v / %v", results[slowName], results[after]), nil)
		return
	}
	c.Count("real_timer_histories", 1)
	c.Distinct(fmt.Sprintf("real-timer|slow-is-deeper=%v|short-resolved-as=%v", slowName == deepName, results[shortName][0]))
	_ = eng.Stop()
}
