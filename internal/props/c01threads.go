package props

import (
	"fmt"
	"time"

	"github.com/named-data/ndnd/fw/face"
	fwfw "github.com/named-data/ndnd/fw/fw"
	enc "github.com/named-data/ndnd/std/encoding"
	mgmt "github.com/named-data/ndnd/std/ndn/mgmt_2022"
	spec "github.com/named-data/ndnd/std/ndn/spec_2022"

	"verif/internal/h"
	"verif/internal/tlvwalk"
)

// ---- C01 with several forwarding threads: the statement does not depend on how many threads the
// forwarder runs, the single-thread histories cannot show what goes wrong between them (which thread
// an Interest's name hashes to, which thread a PIT token names, strategy objects per thread). On the
// running two-thread mini daemon two local consumers ask for names that spread over both threads;
// the upstream peer answers with Data that echoes the PIT token or carries none. Every consumer
// that asked must get exactly one copy. Must be the last thing in its child process.
func c01Threads(c *h.Ctx) {
	if !c.Case("threads") {
		return
	}
	c17CsOn = false
	d := c17Start(c, false, []string{"nametree", "hashtable"}[c.Batch%2])
	r := c.Rng("threads")
	root, _ := enc.NameFromStr("/t")
	cp := c17Params(&mgmt.ControlArgs{Name: root, FaceId: u64p(d.peer.id)})
	if resp := d.command(d.app, "/localhost/nfd", "rib", "register", &cp, 15*time.Second); resp == nil {
		// the management module is a producer like any other: its reply Data satisfies the command
		// Interest pending from the application's face (C17 relies on the same exchange)
		d.fail("C01:pending-face-missed:threads:management-reply", "threads/setup", "a rib/register command Interest from a local application got no reply Data within 15 s on a two-thread forwarder", nil)
		return
	} else if resp.StatusCode != 200 {
		c.Inconclusive("threads: route registration got no 200")
		return
	}
	// a default route as well: an Interest named `/` with CanBePrefix is a legal request for anything
	// a second upstream: a local producer application (producers attach no PIT tokens) holding /u
	prod := d.newFace(true, 4)
	rootU, _ := enc.NameFromStr("/u")
	cpu := c17Params(&mgmt.ControlArgs{Name: rootU, FaceId: u64p(prod.id)})
	if resp := d.command(d.app, "/localhost/nfd", "rib", "register", &cpu, 15*time.Second); resp == nil || resp.StatusCode != 200 {
		c.Inconclusive("threads: /u route registration got no 200")
		return
	}
	defUp := []*c17Face{d.peer, prod}[r.Intn(2)]
	// (cost 10: the route is inherited by /t and /u, whose own upstream must stay the cheapest next hop)
	cpr := c17Params(&mgmt.ControlArgs{Name: enc.Name{}, FaceId: u64p(defUp.id), Cost: u64p(10)})
	if resp := d.command(d.app, "/localhost/nfd", "rib", "register", &cpr, 15*time.Second); resp == nil || resp.StatusCode != 200 {
		c.Inconclusive("threads: default route registration got no 200")
		return
	}
	strat := []string{"best-route", "multicast"}[r.Intn(2)]
	sn, _ := enc.NameFromStr(fwStrategyNames[strat])
	for _, rt := range []enc.Name{root, rootU} {
		cps := c17Params(&mgmt.ControlArgs{Name: rt, Strategy: &mgmt.Strategy{Name: sn}})
		if resp := d.command(d.app, "/localhost/nfd", "strategy-choice", "set", &cps, 15*time.Second); resp == nil || resp.StatusCode != 200 {
			c.Inconclusive("threads: strategy-choice/set got no 200")
			return
		}
	}
	type seen struct {
		token []byte
		ok    bool
	}
	// waits until the peer has been handed an Interest for name; returns the PIT token attached
	peerSees := func(up *c17Face, name enc.Name) seen {
		for dl := time.Now().Add(15 * time.Second); time.Now().Before(dl); time.Sleep(200 * time.Microsecond) {
			for _, fr := range up.tr.TakeFrames() {
				p, _, err := spec.ReadPacket(enc.NewBufferReader(fr))
				if err != nil {
					continue
				}
				var token []byte
				inner := p
				if p.LpPacket != nil {
					token = p.LpPacket.PitToken
					ip, _, err := spec.ReadPacket(enc.NewBufferReader(p.LpPacket.Fragment.Join()))
					if err != nil {
						continue
					}
					inner = ip
				}
				if inner.Interest != nil && inner.Interest.NameV.Equal(name) {
					return seen{token, true}
				}
			}
		}
		return seen{}
	}
	count := func(f *c17Face, name enc.Name, keep *[][]byte) int {
		*keep = append(*keep, f.tr.TakeFrames()...)
		n := 0
		for _, fr := range *keep {
			p, _, err := spec.ReadPacket(enc.NewBufferReader(fr))
			if err != nil {
				continue
			}
			inner := p
			if p.LpPacket != nil {
				if ip, _, err := spec.ReadPacket(enc.NewBufferReader(p.LpPacket.Fragment.Join())); err == nil {
					inner = ip
				}
			}
			if inner.Data != nil && inner.Data.NameV.Equal(name) {
				n++
			}
		}
		return n
	}
	rounds := c.Pick(60, 600)
	for k := 0; k < rounds; k++ {
		id := fmt.Sprintf("threads/r%d", k)
		c.Eval(1)
		up, upName := d.peer, "t"
		if r.Intn(2) == 0 {
			up, upName = prod, "u"
		}
		name, _ := enc.NameFromStr(fmt.Sprintf("/%s/n%d/%c", upName, k, 'a'+rune(r.Intn(3))))
		// one round in three asks with a proper prefix of the Data name and CanBePrefix (0, 1 or 2
		// components: `/`, `/t`, `/t/n<k>`): the Interest then waits in the thread its own name hashes
		// to, which need not be the thread the Data's full name hashes to
		iname, cbp, plen := name, false, -1
		steered := false
		if r.Intn(3) == 0 {
			plen = r.Intn(3)
			iname, cbp = name[:plen], true
			if plen == 0 {
				// `/` is routed to the face holding the default route; that face answers, with a Data
				// name none of whose non-empty prefixes hashes to the thread the empty name hashes to
				// (two times in three; otherwise any name)
				up = defUp
				for j := 0; j < 400; j++ {
					name, _ = enc.NameFromStr(fmt.Sprintf("/z%dx%d/%c", k, j, 'a'+rune(r.Intn(3))))
					ph := name.PrefixHash()
					other := true
					for i := 1; i < len(ph); i++ {
						other = other && ph[i]%uint64(len(fwfw.Threads)) != ph[0]%uint64(len(fwfw.Threads))
					}
					if other || j%3 == 2 {
						steered = other
						break
					}
				}
			}
			if plen < 2 {
				time.Sleep(150 * time.Millisecond) // the same Interest name as in an earlier round: let the satisfied entry be reaped first
			}
		}
		thread := fwfw.HashNameToFwThread(iname)
		both := r.Intn(3) == 0
		echo := r.Intn(2) == 0
		if steered && k%3 != 0 {
			echo = false // the interesting combination: only the thread of the empty name holds the Interest, and no token names it
		}
		d.log = append(d.log, fmt.Sprintf("%s: Interest %s (CanBePrefix %v, forwarding thread %d) from face %d%s; upstream face %d (local: %v) answers with Data %s, which %s", id, iname, cbp, thread, d.app.id, map[bool]string{true: fmt.Sprintf(" and face %d", d.app2.id), false: ""}[both], up.id, up.local, name, map[bool]string{true: "echoes the PIT token", false: "carries no token"}[echo]))
		d.send(d.app, iname, cbp)
		sv := peerSees(up, iname)
		if !sv.ok {
			d.fail("C01:interest-not-forwarded:threads", id, fmt.Sprintf("Interest %s from a local consumer never reached the upstream face that holds the route (thread %d, %s)", iname, thread, strat), nil)
			return
		}
		if both {
			d.send(d.app2, iname, cbp) // aggregated into the same entry (different nonce, inside the suppression interval)
			time.Sleep(2 * time.Millisecond)
		}
		fresh := time.Minute
		_, wire, err := makeData(name, &fresh, []byte(name.String()))
		if err != nil {
			c.Inconclusive("cannot build Data")
			return
		}
		frame := wire
		if echo && sv.token != nil {
			frame = tlvwalk.TLV(0x64, append(tlvwalk.TLV(0x62, sv.token), tlvwalk.TLV(0x50, wire)...))
		}
		face.VerifRecv(up.ls, frame)
		var k1, k2 [][]byte
		want2 := 0
		if both {
			want2 = 1
		}
		got1, got2 := 0, 0
		for dl := time.Now().Add(10 * time.Second); time.Now().Before(dl); time.Sleep(300 * time.Microsecond) {
			got1, got2 = count(d.app, name, &k1), count(d.app2, name, &k2)
			if got1 >= 1 && got2 >= want2 {
				break
			}
		}
		time.Sleep(3 * time.Millisecond)
		got1, got2 = count(d.app, name, &k1), count(d.app2, name, &k2)
		c.Count("thread_rounds", 1)
		c.Distinct(fmt.Sprintf("threads|thread=%d|echo=%v|two-consumers=%v|%s|prefix-components=%d|upstream-local=%v", thread, echo, both, strat, plen, up.local))
		if plen >= 0 {
			c.Count("thread_prefix_rounds", 1)
		}
		if steered && !(echo && sv.token != nil) {
			c.Count("thread_rounds_empty_name_interest_alone_on_its_thread_tokenless_data", 1)
		}
		if got1 != 1 || got2 != want2 {
			key := "C01:pending-face-missed:threads"
			if plen >= 0 {
				key = fmt.Sprintf("C01:pending-face-missed:threads:prefix-interest-%d-components:upstream-local=%v", plen, up.local)
			}
			d.fail(key, id, fmt.Sprintf("Data %s (PIT token echoed: %v) arrived from the upstream face (local: "+fmt.Sprint(up.local)+") while face %d%s held a pending Interest "+iname.String()+" (CanBePrefix %v) it satisfies on forwarding thread %d: face %d received %d copies, face %d received %d (expected 1 and %d)", name, echo && sv.token != nil, d.app.id, map[bool]string{true: fmt.Sprintf(" and face %d", d.app2.id), false: ""}[both], cbp, thread, d.app.id, got1, d.app2.id, got2, want2), map[string]any{"strategy": strat})
			return
		}
	}
}
