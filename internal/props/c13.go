package props

import (
	"bytes"
	"fmt"
	"math/rand"
	"os"
	"os/exec"
	"path/filepath"
	"reflect"
	"sort"
	"strconv"
	"strings"
	"time"

	enc "github.com/named-data/ndnd/std/encoding"

	"verif/internal/gen"
	"verif/internal/h"
	"verif/internal/pkt"
	"verif/internal/reg"
	"verif/internal/tlvwalk"
)

// ---------- type-directed value generator

var (
	tName     = reflect.TypeOf(enc.Name{})
	tWire     = reflect.TypeOf(enc.Wire{})
	tDuration = reflect.TypeOf(time.Duration(0))
	tPlace    = reflect.TypeOf(enc.PlaceHolder{})
	tBytes    = reflect.TypeOf([]byte{})
)

var c13ByType = map[reflect.Type]*reg.Model{}

func c13Index() {
	if len(c13ByType) > 0 {
		return
	}
	for _, m := range reg.Models {
		c13ByType[reflect.TypeOf(m.New()).Elem()] = m
	}
}

var u64B = []uint64{0, 1, 127, 128, 252, 253, 255, 256, 65535, 65536, 1<<32 - 1, 1 << 32, 1<<63 - 1, 1 << 63, 1<<64 - 1}
var msB = []int64{0, 1, 255, 256, 65535, 65536, 1<<32 - 1, 1 << 32, 9000000000000}
var lenB = []int{0, 1, 2, 5, 252, 253, 300}

type vgen struct {
	r        *rand.Rand
	kinds    map[string]bool
	allowBig bool
}

func (g *vgen) blen() int {
	if g.allowBig && g.r.Intn(60) == 0 {
		return 70000
	}
	if g.r.Intn(3) == 0 {
		return lenB[g.r.Intn(len(lenB))]
	}
	return g.r.Intn(12)
}

func (g *vgen) bytesOf(n int) []byte {
	b := make([]byte, n)
	g.r.Read(b)
	return b
}

func (g *vgen) name(noDigest bool) enc.Name {
	n := gen.Name(g.r, 5, 12)
	if g.r.Intn(10) == 0 {
		n = append(n, enc.Component{Typ: 8, Val: g.bytesOf([]int{252, 253, 300}[g.r.Intn(3)])})
	}
	if noDigest {
		for i := range n {
			if n[i].Typ == 1 || n[i].Typ == 2 {
				n[i].Typ = 8
			}
		}
	}
	if n == nil {
		n = enc.Name{}
	}
	return n
}

func (g *vgen) uintFor(k reflect.Kind) uint64 {
	v := u64B[g.r.Intn(len(u64B))]
	if g.r.Intn(2) == 0 {
		v = g.r.Uint64() >> uint(g.r.Intn(64))
	}
	switch k {
	case reflect.Uint8:
		return v & 0xff
	case reflect.Uint16:
		return v & 0xffff
	case reflect.Uint32:
		return v & 0xffffffff
	case reflect.Int, reflect.Int64:
		return v & (1<<62 - 1)
	case reflect.Int32:
		return v & (1<<31 - 1)
	}
	return v
}

// fill sets v (addressable) according to annotation ann; depth bounds recursion.
func (g *vgen) fill(v reflect.Value, ann string, depth int) {
	parts := strings.Split(ann, ":")
	kind := parts[0]
	g.kinds[kind] = true
	t := v.Type()
	switch kind {
	case "offsetMarker", "rangeMarker", "procedureArgument", "signature":
		return // left zero: signature values need an estimated length configured on the encoder
	case "natural", "fixedUint":
		if t.Kind() == reflect.Ptr {
			if g.r.Intn(3) == 0 {
				return
			}
			p := reflect.New(t.Elem())
			g.setUint(p.Elem())
			v.Set(p)
		} else {
			g.setUint(v)
		}
	case "time":
		ms := msB[g.r.Intn(len(msB))]
		if g.r.Intn(2) == 0 {
			ms = g.r.Int63n(1 << 40)
		}
		if g.r.Intn(8) == 0 {
			// a Duration is signed: negative whole milliseconds are values too
			ms = -[]int64{1, 5, 255, 256, 7200000, 1 << 33}[g.r.Intn(6)]
		}
		d := time.Duration(ms) * time.Millisecond
		if t.Kind() == reflect.Ptr {
			if g.r.Intn(3) == 0 {
				return
			}
			v.Set(reflect.ValueOf(&d))
		} else {
			v.Set(reflect.ValueOf(d))
		}
	case "binary":
		if g.r.Intn(4) == 0 {
			return
		}
		v.SetBytes(g.bytesOf(g.blen()))
	case "string":
		s := string(g.bytesOf(g.blen()))
		if g.r.Intn(2) == 0 {
			s = []string{"", "a", "hello", "/ndn/test", "\x00", strings.Repeat("x", 253)}[g.r.Intn(6)]
		}
		if t.Kind() == reflect.Ptr {
			if g.r.Intn(3) == 0 {
				return
			}
			v.Set(reflect.ValueOf(&s))
		} else {
			v.SetString(s)
		}
	case "bool":
		v.SetBool(g.r.Intn(2) == 0)
	case "name":
		if g.r.Intn(4) == 0 {
			return
		}
		v.Set(reflect.ValueOf(g.name(false)))
	case "interestName":
		v.Set(reflect.ValueOf(g.name(true)))
	case "wire":
		if g.r.Intn(4) == 0 {
			return
		}
		k := 1 + g.r.Intn(3)
		w := make(enc.Wire, k)
		for i := range w {
			w[i] = g.bytesOf(g.blen())
		}
		v.Set(reflect.ValueOf(w))
	case "struct":
		if t.Kind() != reflect.Ptr {
			g.fillStruct(v, depth+1)
			return
		}
		if g.r.Intn(4) == 0 || depth > 4 {
			return
		}
		p := reflect.New(t.Elem())
		g.fillStruct(p.Elem(), depth+1)
		v.Set(p)
	case "sequence":
		// sequence:<gotype>:<subkind>[:args]
		n := []int{0, 1, 2, 5}[g.r.Intn(4)]
		if depth > 3 && n > 2 {
			n = 1
		}
		sub := strings.Join(parts[2:], ":")
		s := reflect.MakeSlice(t, 0, n)
		for i := 0; i < n; i++ {
			e := reflect.New(t.Elem()).Elem()
			g.fillElem(e, sub, depth+1)
			s = reflect.Append(s, e)
		}
		if n > 0 {
			v.Set(s)
		}
	case "map":
		// map:<keytype>:<keykind>:<valtypenum>:<valtype>:<valkind>[:args]
		n := g.r.Intn(4)
		if n == 0 {
			return
		}
		mp := reflect.MakeMap(t)
		keyKind := parts[2]
		valAnn := strings.Join(parts[5:], ":")
		for i := 0; i < n; i++ {
			k := reflect.New(t.Key()).Elem()
			g.fillElem(k, keyKind, depth+1)
			e := reflect.New(t.Elem()).Elem()
			g.fillElem(e, valAnn, depth+1)
			mp.SetMapIndex(k, e)
		}
		v.Set(mp)
	default:
		g.kinds["UNKNOWN:"+kind] = true
	}
}

// fillElem fills a sequence element / map key / map value: always present.
func (g *vgen) fillElem(v reflect.Value, ann string, depth int) {
	parts := strings.Split(ann, ":")
	t := v.Type()
	switch parts[0] {
	case "natural", "fixedUint":
		g.setUint(v)
	case "string":
		v.SetString(string(g.bytesOf(1 + g.r.Intn(8))))
	case "binary":
		v.SetBytes(g.bytesOf(g.blen()))
	case "name":
		v.Set(reflect.ValueOf(g.name(false)))
	case "struct":
		if t.Kind() == reflect.Ptr {
			p := reflect.New(t.Elem())
			g.fillStruct(p.Elem(), depth+1)
			v.Set(p)
		} else {
			g.fillStruct(v, depth+1)
		}
	case "wire":
		// a Wire value is a list of chunks: one chunk, several chunks, empty chunks in between
		switch g.r.Intn(4) {
		case 0:
			a, b := g.bytesOf(g.blen()), g.bytesOf(g.blen())
			v.Set(reflect.ValueOf(enc.Wire{a, []byte{}, b}))
		case 1:
			v.Set(reflect.ValueOf(enc.Wire{[]byte{}, g.bytesOf(g.blen()), g.bytesOf(1 + g.r.Intn(4))}))
		default:
			v.Set(reflect.ValueOf(enc.Wire{g.bytesOf(g.blen())}))
		}
	default:
		g.fill(v, ann, depth)
	}
}

func (g *vgen) setUint(v reflect.Value) {
	switch v.Kind() {
	case reflect.Uint, reflect.Uint8, reflect.Uint16, reflect.Uint32, reflect.Uint64:
		v.SetUint(g.uintFor(v.Kind()))
	case reflect.Int, reflect.Int8, reflect.Int16, reflect.Int32, reflect.Int64:
		v.SetInt(int64(g.uintFor(v.Kind())))
	}
}

func (g *vgen) fillStruct(v reflect.Value, depth int) {
	m := c13ByType[v.Type()]
	if m == nil {
		g.kinds["UNREGISTERED:"+v.Type().String()] = true
		return
	}
	for i := 0; i < v.NumField(); i++ {
		sf := v.Type().Field(i)
		if !sf.IsExported() {
			continue
		}
		ann := m.Ann(sf.Name)
		if ann == "" {
			continue
		}
		g.fill(v.Field(i), ann, depth)
	}
}

// ---------- comparison (DeepEqual modulo nil/empty sequences and Wire segmentation)

func c13Equal(a, b reflect.Value, path string) string {
	if a.Type() != b.Type() {
		return path + ": type"
	}
	t := a.Type()
	switch {
	case t == tWire:
		if a.IsNil() != b.IsNil() {
			return path + ": wire presence"
		}
		if !bytes.Equal(a.Interface().(enc.Wire).Join(), b.Interface().(enc.Wire).Join()) {
			return path + ": wire bytes"
		}
		return ""
	case t == tName:
		if a.IsNil() != b.IsNil() {
			return path + ": name presence"
		}
		if refNameCompare(a.Interface().(enc.Name), b.Interface().(enc.Name)) != 0 {
			return path + ": name"
		}
		return ""
	case t == tPlace:
		return ""
	}
	switch t.Kind() {
	case reflect.Ptr:
		if a.IsNil() != b.IsNil() {
			return path + ": presence"
		}
		if a.IsNil() {
			return ""
		}
		return c13Equal(a.Elem(), b.Elem(), path)
	case reflect.Struct:
		for i := 0; i < t.NumField(); i++ {
			if !t.Field(i).IsExported() {
				continue
			}
			if d := c13Equal(a.Field(i), b.Field(i), path+"."+t.Field(i).Name); d != "" {
				return d
			}
		}
		return ""
	case reflect.Slice:
		if t == tBytes {
			if a.IsNil() != b.IsNil() {
				return path + ": binary presence"
			}
			if !bytes.Equal(a.Bytes(), b.Bytes()) {
				return path + ": binary"
			}
			return ""
		}
		if a.Len() != b.Len() {
			return path + ": sequence length"
		}
		for i := 0; i < a.Len(); i++ {
			if d := c13Equal(a.Index(i), b.Index(i), fmt.Sprintf("%s[%d]", path, i)); d != "" {
				return d
			}
		}
		return ""
	case reflect.Map:
		if a.Len() != b.Len() {
			return path + ": map size"
		}
		for _, k := range a.MapKeys() {
			bv := b.MapIndex(k)
			if !bv.IsValid() {
				return path + ": map key missing"
			}
			if d := c13Equal(a.MapIndex(k), bv, path+"[k]"); d != "" {
				return d
			}
		}
		return ""
	default:
		if !reflect.DeepEqual(a.Interface(), b.Interface()) {
			return path + ": value"
		}
		return ""
	}
}

func c13Describe(v any) string {
	s := fmt.Sprintf("%+v", v)
	if len(s) > 600 {
		s = s[:600] + "…"
	}
	return s
}

// ---------- per-model used type numbers (for choosing unknown elements)

func c13UsedTypes(m *reg.Model) map[uint64]bool {
	used := map[uint64]bool{}
	for _, f := range m.Fields {
		tag := f.Tag
		if i := strings.Index(tag, `tlv:"`); i >= 0 {
			s := tag[i+5:]
			if j := strings.Index(s, `"`); j >= 0 {
				if n, err := strconv.ParseUint(strings.TrimPrefix(s[:j], "0x"), 16, 64); err == nil {
					used[n] = true
				} else if n, err := strconv.ParseUint(s[:j], 0, 64); err == nil {
					used[n] = true
				}
			}
		}
		for _, p := range strings.Split(f.Ann, ":") {
			if strings.HasPrefix(p, "0x") {
				if n, err := strconv.ParseUint(p[2:], 16, 64); err == nil {
					used[n] = true
				}
			}
		}
	}
	return used
}

func c13Pick(used map[uint64]bool, cands []uint64, r *rand.Rand) uint64 {
	for tries := 0; tries < 50; tries++ {
		c := cands[r.Intn(len(cands))]
		if !used[c] {
			return c
		}
	}
	return 0
}

var nonCritCands = []uint64{0xF0, 0x20, 0x22, 0x3E8, 0xFC, 0xFE, 0xFFFE, 0x10000, 0x7E, 0x100, 0x3FE}
var critCands = []uint64{0xF1, 0x3E9, 0xFD, 0xFFFF, 0x10001, 1, 3, 9, 11, 13, 15, 17, 19, 29, 31, 4, 6, 16, 30, 0x7F}

// ---------- the run

func c13Run(c *h.Ctx) {
	c13Index()
	r := c.Rng("c13")
	per := c.Pick(20, 110)
	c.Note("models_generated", strconv.Itoa(reg.NGenerated))
	c.Note("models_defined", strconv.Itoa(reg.NDefined))
	for mi, m := range reg.Models {
		for k := 0; k < per; k++ {
			id := fmt.Sprintf("%s#%d", m.ID(), k)
			sub := rand.New(rand.NewSource(r.Int63()))
			if !c.Case(id) {
				continue
			}
			c13One(c, id, m, sub, k)
		}
		_ = mi
	}
	// packets produced by the packet API (signature fields present, which the plain model
	// Encode never produces) through the generated Data / Interest parsers
	nSigned := c.Pick(150, 3000)
	pkt.GetKeys()
	for k := 0; k < nSigned; k++ {
		id := fmt.Sprintf("signed#%d", k)
		var cs *pkt.Case
		for {
			cs = pkt.Gen(r)
			if cs.Signer != "none" {
				break
			}
		}
		sub := rand.New(rand.NewSource(r.Int63()))
		if !c.Case(id) {
			continue
		}
		c13SignedPacket(c, id, cs, sub)
	}
}

// c13SignedPacket: unknown elements inserted at every boundary inside a signed Data / Interest
// built by the packet API must be skipped by the generated parser without changing any field.
func c13SignedPacket(c *h.Ctx, id string, cs *pkt.Case, r *rand.Rand) {
	c.Eval(1)
	mid := "std/ndn/spec_2022.Data"
	if cs.Kind == "interest" {
		mid = "std/ndn/spec_2022.Interest"
	}
	var m *reg.Model
	for _, x := range reg.Models {
		if x.ID() == mid {
			m = x
		}
	}
	if m == nil {
		c.Inconclusive("model " + mid + " not in the registry")
		return
	}
	var built *pkt.Built
	var err error
	if pi := h.Guard(func() { built, err = cs.Build() }); pi != nil || err != nil || built == nil {
		return // construction problems belong to C03/C12
	}
	b := built.Bytes
	outer, werr := tlvwalk.Walk(b, 0, len(b), nil, true)
	if werr != nil || len(outer) != 1 {
		return
	}
	inner := b[outer[0].ValOff:outer[0].End]
	tops, werr := tlvwalk.Walk(inner, 0, len(inner), nil, true)
	if werr != nil {
		return
	}
	desc := map[string]any{"case": cs.Describe(), "model": mid, "inner_wire": h.Hex(inner)}
	parse := func(buf []byte, ic bool) (any, error, *h.PanicInfo) {
		var out any
		var perr error
		pi := h.Guard(func() { out, perr = m.Parse(enc.NewBufferReader(append([]byte{}, buf...)), ic) })
		return out, perr, pi
	}
	base, berr, bpi := parse(inner, false)
	if bpi != nil || berr != nil || base == nil {
		c.Violation("C13:signed-packet-not-parsed:"+mid, id, fmt.Sprintf("generated parser does not accept the value of a packet built by the packet API (err=%v)", berr), desc)
		return
	}
	used := c13UsedTypes(m)
	bounds := []int{0}
	for _, n := range tops {
		bounds = append(bounds, n.End)
	}
	for _, pos := range bounds {
		posClass := "middle"
		if pos == 0 {
			posClass = "first"
		} else if pos == len(inner) {
			posClass = "last"
		}
		vl := []int{0, 1, 2, 7, 40}[r.Intn(5)]
		pay := make([]byte, vl)
		r.Read(pay)
		for _, crit := range []bool{false, true} {
			cands := nonCritCands
			if crit {
				cands = critCands
			}
			t := c13Pick(used, cands, r)
			if t == 0 {
				continue
			}
			mut := append(append(append([]byte{}, inner[:pos]...), tlvwalk.TLV(t, pay)...), inner[pos:]...)
			out, perr, pi := parse(mut, crit)
			d := map[string]any{"case": desc, "inserted_type": t, "inserted_value": h.Hex(pay), "at": pos, "critical_ignored": crit}
			kind := "noncritical"
			if crit {
				kind = "critical-ignored"
			}
			switch {
			case pi != nil:
				c.Violation("C13:panic:parse-unknown:"+mid+":"+pi.Frame+":"+pi.Class, id, "parser panicked with an unknown element inserted into a signed packet: "+pi.Value, d)
			case perr != nil:
				c.Violation("C13:"+kind+"-rejected:"+mid+":signed:"+posClass, id, fmt.Sprintf("unknown element (type %d) at offset %d of a signed packet makes parsing fail: %v", t, pos, perr), d)
			default:
				if df := c13Equal(reflect.ValueOf(base).Elem(), reflect.ValueOf(out).Elem(), m.Name); df != "" {
					c.Violation("C13:"+kind+"-changes-fields:"+mid+":signed:"+posClass, id, fmt.Sprintf("unknown element (type %d) at offset %d of a signed packet changes decoded fields: %s", t, pos, df), d)
				}
			}
			c.Count("signed_packet_insertions", 1)
			c.Distinct(mid + "|signed-insert|" + posClass + "|" + kind)
		}
	}
}

func c13One(c *h.Ctx, id string, m *reg.Model, r *rand.Rand, k int) {
	c.Eval(1)
	g := &vgen{r: r, kinds: map[string]bool{}, allowBig: true}
	val := m.New()
	if k > 0 { // k == 0: the zero value
		g.fillStruct(reflect.ValueOf(val).Elem(), 0)
	}
	for kd := range g.kinds {
		if strings.HasPrefix(kd, "UNKNOWN:") || strings.HasPrefix(kd, "UNREGISTERED:") {
			c.Inconclusive("generator does not know field kind " + kd + " in " + m.ID())
		}
	}
	desc := map[string]any{"model": m.ID(), "flags": m.Flags, "value": c13Describe(val)}
	var wire enc.Wire
	var encoder any
	if pi := h.Guard(func() { wire, encoder = m.Encode(val) }); pi != nil {
		c.Violation("C13:panic:encode:"+m.ID()+":"+pi.Frame+":"+pi.Class, id, "encoder panicked: "+pi.Value, desc)
		return
	}
	if wire == nil {
		c.Violation("C13:encode-nil:"+m.ID(), id, "encoder returned nil", desc)
		return
	}
	b := append([]byte{}, wire.Join()...)
	desc["wire"] = h.Hex(b)
	// announced length
	ev := reflect.ValueOf(encoder).Elem()
	if lf := ev.FieldByName("length"); lf.IsValid() {
		if int(lf.Uint()) != len(b) {
			c.Violation("C13:announced-length:"+m.ID(), id, fmt.Sprintf("encoder announced %d bytes but produced %d", lf.Uint(), len(b)), desc)
		}
		c.Count("length_checked", 1)
	} else {
		c.Inconclusive("encoder of " + m.ID() + " has no length field")
	}
	if wp := ev.FieldByName("wirePlan"); wp.IsValid() && wp.Kind() == reflect.Slice {
		if wp.Len() != len(wire) {
			c.Violation("C13:wireplan-count:"+m.ID(), id, fmt.Sprintf("wire plan has %d buffers, encoder produced %d", wp.Len(), len(wire)), desc)
		} else {
			for i := 0; i < wp.Len(); i++ {
				if pl := int(wp.Index(i).Uint()); pl > 0 && pl != len(wire[i]) {
					c.Violation("C13:wireplan-size:"+m.ID(), id, fmt.Sprintf("wire plan buffer %d announced %d bytes, has %d", i, pl, len(wire[i])), desc)
				}
			}
		}
		c.Count("wireplan_checked", 1)
	}
	// well-formed sequence of top-level elements
	tops, werr := tlvwalk.Walk(b, 0, len(b), nil, true)
	if werr != nil {
		c.Violation("C13:malformed:"+m.ID(), id, "encoding is not a well-formed TLV sequence: "+werr.Error(), desc)
		return
	}
	kinds := make([]string, 0, len(g.kinds))
	for kd := range g.kinds {
		kinds = append(kinds, kd)
	}
	sort.Strings(kinds)
	c.Distinct(m.ID() + "|" + strings.Join(kinds, ","))

	parse := func(buf []byte, ic bool, segmented bool) (any, error, *h.PanicInfo) {
		var out any
		var err error
		pi := h.Guard(func() {
			var rd enc.ParseReader
			if segmented && len(buf) > 2 {
				p1 := 1 + r.Intn(len(buf)-1)
				p2 := 1 + r.Intn(len(buf)-1)
				if p1 > p2 {
					p1, p2 = p2, p1
				}
				w := enc.Wire{}
				prev := 0
				for _, p := range []int{p1, p2} {
					if p > prev {
						w = append(w, append([]byte{}, buf[prev:p]...))
						prev = p
					}
				}
				w = append(w, append([]byte{}, buf[prev:]...))
				rd = enc.NewWireReader(w)
			} else {
				rd = enc.NewBufferReader(append([]byte{}, buf...))
			}
			out, err = m.Parse(rd, ic)
		})
		return out, err, pi
	}
	same := func(out any) string {
		if out == nil {
			return "nil result"
		}
		return c13Equal(reflect.ValueOf(val).Elem(), reflect.ValueOf(out).Elem(), m.Name)
	}
	// plain round trip
	for _, seg := range []bool{false, true} {
		out, err, pi := parse(b, false, seg)
		tag := fmt.Sprintf("seg=%v", seg)
		if pi != nil {
			c.Violation("C13:panic:parse:"+m.ID()+":"+pi.Frame+":"+pi.Class, id, "parser panicked on its own encoder's output: "+pi.Value, desc)
			return
		}
		if err != nil {
			c.Violation("C13:roundtrip-error:"+m.ID()+":"+tag+":"+errClass(err), id, "parser rejected its own encoder's output: "+err.Error(), desc)
			return
		}
		if d := same(out); d != "" {
			desc["decoded"] = c13Describe(out)
			c.Violation("C13:roundtrip-differs:"+m.ID()+":"+tag, id, "decoded value differs at "+d, desc)
			return
		}
	}
	c.Count("roundtrips", 1)
	// decoding straight from the encoder's own wire (no copies) must leave that wire untouched:
	// the caller may join, send or decode it again
	if len(wire) > 0 {
		var out2 any
		var err2 error
		pi := h.Guard(func() { out2, err2 = m.Parse(enc.NewWireReader(wire), false) })
		switch {
		case pi != nil:
			c.Violation("C13:panic:parse:"+m.ID()+":"+pi.Frame+":"+pi.Class, id, "parser panicked on its own encoder's wire: "+pi.Value, desc)
			return
		case err2 != nil:
			c.Violation("C13:roundtrip-error:"+m.ID()+":encoder-wire:"+errClass(err2), id, "parser rejected its own encoder's wire: "+err2.Error(), desc)
			return
		default:
			if d := same(out2); d != "" {
				c.Violation("C13:roundtrip-differs:"+m.ID()+":encoder-wire", id, "decoded value differs at "+d, desc)
				return
			}
		}
		if after := wire.Join(); !bytes.Equal(after, b) {
			desc["wire_after_decoding"] = h.Hex(after)
			c.Violation("C13:decoding-modifies-the-wire:"+m.ID(), id, fmt.Sprintf("after decoding from the encoder's wire that wire joins to %d bytes, it encoded %d", len(after), len(b)), desc)
			return
		}
		c.Count("encoder_wire_decodes", 1)
	}
	// unknown element insertion at every top-level boundary
	used := c13UsedTypes(m)
	bounds := []int{0}
	for _, n := range tops {
		bounds = append(bounds, n.End)
	}
	if len(bounds) > 14 {
		r.Shuffle(len(bounds), func(i, j int) { bounds[i], bounds[j] = bounds[j], bounds[i] })
		bounds = append(bounds[:12], 0, len(b))
	}
	for _, pos := range bounds {
		posClass := "middle"
		if pos == 0 {
			posClass = "first"
		} else if pos == len(b) {
			posClass = "last"
		}
		vl := []int{0, 1, 2, 7, 300}[r.Intn(5)]
		pay := make([]byte, vl) // the unknown element's value is arbitrary bytes, not a well-formed TLV sequence
		r.Read(pay)
		if vl > 0 && r.Intn(4) == 0 {
			pay[0] = 0xff
		}
		// non-critical
		if nt := c13Pick(used, nonCritCands, r); nt != 0 {
			ins := tlvwalk.TLV(nt, pay)
			mut := append(append(append([]byte{}, b[:pos]...), ins...), b[pos:]...)
			seg := r.Intn(3) == 0
			out, err, pi := parse(mut, false, seg)
			d := map[string]any{"case": desc, "inserted_type": nt, "inserted_len": vl, "at": pos, "segmented": seg}
			switch {
			case pi != nil:
				c.Violation("C13:panic:parse-unknown:"+m.ID()+":"+pi.Frame+":"+pi.Class, id, "parser panicked with an unknown non-critical element inserted: "+pi.Value, d)
			case err != nil:
				c.Violation("C13:noncritical-rejected:"+m.ID()+":"+posClass, id, fmt.Sprintf("unknown non-critical element (type %d) at offset %d makes parsing fail: %v", nt, pos, err), d)
			default:
				if df := same(out); df != "" {
					d["decoded"] = c13Describe(out)
					c.Violation("C13:noncritical-changes-fields:"+m.ID()+":"+posClass, id, fmt.Sprintf("unknown non-critical element (type %d) at offset %d changes decoded fields: %s", nt, pos, df), d)
				}
			}
			c.Count("noncritical_insertions", 1)
			c.Distinct(m.ID() + "|insert-noncrit|" + posClass)
		}
		// critical
		if ct := c13Pick(used, critCands, r); ct != 0 {
			ins := tlvwalk.TLV(ct, pay)
			mut := append(append(append([]byte{}, b[:pos]...), ins...), b[pos:]...)
			d := map[string]any{"case": desc, "inserted_type": ct, "inserted_len": vl, "at": pos}
			_, err, pi := parse(mut, false, false)
			if pi != nil {
				c.Violation("C13:panic:parse-critical:"+m.ID()+":"+pi.Frame+":"+pi.Class, id, "parser panicked with an unknown critical element inserted: "+pi.Value, d)
			} else if err == nil {
				c.Violation("C13:critical-accepted:"+m.ID()+":"+posClass, id, fmt.Sprintf("unknown critical element (type %d) at offset %d was not rejected", ct, pos), d)
			}
			out, err, pi := parse(mut, true, false)
			switch {
			case pi != nil:
				c.Violation("C13:panic:parse-critical-ignored:"+m.ID()+":"+pi.Frame+":"+pi.Class, id, "parser panicked (ignoreCritical): "+pi.Value, d)
			case err != nil:
				c.Violation("C13:critical-ignored-rejected:"+m.ID()+":"+posClass, id, fmt.Sprintf("unknown critical element (type %d) at offset %d rejected although the caller asked to ignore it: %v", ct, pos, err), d)
			default:
				if df := same(out); df != "" {
					d["decoded"] = c13Describe(out)
					c.Violation("C13:critical-ignored-changes-fields:"+m.ID()+":"+posClass, id, fmt.Sprintf("ignored critical element (type %d) at offset %d changes decoded fields: %s", ct, pos, df), d)
				}
			}
			c.Count("critical_insertions", 1)
		}
	}
	// unknown element insertion INSIDE nested structures (struct fields and sequences of structs): the
	// statement's "every insertion position" includes positions below the top level, and the caller's
	// ignore-critical choice must reach the nested parser
	nestedDone := 0
	for _, f := range m.Fields {
		sn := ""
		if strings.HasPrefix(f.Ann, "struct:") {
			sn = strings.TrimPrefix(f.Ann, "struct:")
		} else if i := strings.Index(f.Ann, ":struct:"); i >= 0 && strings.HasPrefix(f.Ann, "sequence:") {
			sn = f.Ann[i+8:]
		}
		if i := strings.Index(sn, ":"); i >= 0 {
			sn = sn[:i]
		}
		ft, ok := c13FieldType(f)
		if sn == "" || !ok {
			continue
		}
		var nm *reg.Model
		for _, cand := range reg.Models {
			if cand.Pkg == m.Pkg && cand.Name == sn {
				nm = cand
			}
		}
		if nm == nil {
			continue
		}
		nUsed := c13UsedTypes(nm)
		for _, top := range tops {
			if top.Type != ft || nestedDone >= 6 {
				continue
			}
			kids, kerr := tlvwalk.Walk(b, top.ValOff, top.End, nil, true)
			if kerr != nil {
				continue
			}
			inner := []int{top.ValOff}
			for _, k := range kids {
				inner = append(inner, k.End)
			}
			pos := inner[r.Intn(len(inner))]
			vl := []int{0, 1, 7}[r.Intn(3)]
			pay := make([]byte, vl)
			r.Read(pay)
			build := func(t uint64) []byte {
				val := append(append(append([]byte{}, b[top.ValOff:pos]...), tlvwalk.TLV(t, pay)...), b[pos:top.End]...)
				return append(append(append([]byte{}, b[:top.Off]...), tlvwalk.TLV(top.Type, val)...), b[top.End:]...)
			}
			nestedDone++
			d := map[string]any{"case": desc, "nested_in_field": f.Name, "nested_model": nm.ID(), "inserted_len": vl, "at": pos}
			if nt := c13Pick(nUsed, nonCritCands, r); nt != 0 {
				d["inserted_type"] = nt
				out, err, pi := parse(build(nt), false, r.Intn(3) == 0)
				switch {
				case pi != nil:
					c.Violation("C13:panic:parse-unknown:"+m.ID()+":"+pi.Frame+":"+pi.Class, id, "parser panicked with an unknown non-critical element inserted in a nested structure: "+pi.Value, d)
				case err != nil:
					c.Violation("C13:noncritical-rejected:"+m.ID()+":nested", id, fmt.Sprintf("unknown non-critical element (type %d) inside nested %s at offset %d makes parsing fail: %v", nt, nm.Name, pos, err), d)
				default:
					if df := same(out); df != "" {
						c.Violation("C13:noncritical-changes-fields:"+m.ID()+":nested", id, fmt.Sprintf("unknown non-critical element (type %d) inside nested %s at offset %d changes decoded fields: %s", nt, nm.Name, pos, df), d)
					}
				}
				c.Count("nested_noncritical_insertions", 1)
			}
			if ct := c13Pick(nUsed, critCands, r); ct != 0 {
				d["inserted_type"] = ct
				mut := build(ct)
				if _, err, pi := parse(mut, false, false); pi != nil {
					c.Violation("C13:panic:parse-critical:"+m.ID()+":"+pi.Frame+":"+pi.Class, id, "parser panicked with an unknown critical element inserted in a nested structure: "+pi.Value, d)
				} else if err == nil {
					c.Violation("C13:critical-accepted:"+m.ID()+":nested", id, fmt.Sprintf("unknown critical element (type %d) inside nested %s at offset %d was not rejected", ct, nm.Name, pos), d)
				}
				out, err, pi := parse(mut, true, false)
				switch {
				case pi != nil:
					c.Violation("C13:panic:parse-critical-ignored:"+m.ID()+":"+pi.Frame+":"+pi.Class, id, "parser panicked (ignoreCritical, nested): "+pi.Value, d)
				case err != nil:
					c.Violation("C13:critical-ignored-rejected:"+m.ID()+":nested", id, fmt.Sprintf("unknown critical element (type %d) inside nested %s at offset %d rejected although the caller asked to ignore it: %v", ct, nm.Name, pos, err), d)
				default:
					if df := same(out); df != "" {
						c.Violation("C13:critical-ignored-changes-fields:"+m.ID()+":nested", id, fmt.Sprintf("ignored critical element (type %d) inside nested %s at offset %d changes decoded fields: %s", ct, nm.Name, pos, df), d)
					}
				}
				c.Count("nested_critical_insertions", 1)
			}
			c.Distinct(m.ID() + "|insert-nested|" + nm.Name)
		}
	}
	c.Sample(map[string]any{"model": m.ID(), "value": c13Describe(val), "wire": h.Hex(b)})
}

// c13FieldType returns the TLV type number of a field (from its struct tag).
func c13FieldType(f reg.Field) (uint64, bool) {
	tag := f.Tag
	if i := strings.Index(tag, `tlv:"`); i >= 0 {
		s := tag[i+5:]
		if j := strings.Index(s, `"`); j >= 0 {
			if n, err := strconv.ParseUint(strings.TrimPrefix(s[:j], "0x"), 16, 64); err == nil {
				return n, true
			}
		}
	}
	return 0, false
}

// c13Post runs the generator-equivalence part in the orchestrator.
func c13Post(workDir string, m *h.Merged) {
	vdir := os.Getenv("VERIF_DIR")
	out := filepath.Join(workDir, "regen")
	cmd := exec.Command(filepath.Join(vdir, "tools", "regen.sh"), "check", out)
	ob, err := cmd.CombinedOutput()
	same, diff := 0, 0
	for _, ln := range strings.Split(string(ob), "\n") {
		switch {
		case strings.HasPrefix(ln, "SAME "):
			same++
			m.Distinct["generator-equivalence|"+strings.TrimPrefix(ln, "SAME ")] = struct{}{}
		case strings.HasPrefix(ln, "DIFF "), strings.HasPrefix(ln, "GENERATOR-FAILED"), strings.HasPrefix(ln, "GENERATOR-BUILD-FAILED"):
			diff++
			d := strings.TrimSpace(ln)
			m.Violations = append(m.Violations, h.Violation{Key: "C13:generated-code-differs:" + d, Case: "regen", What: "checked-in zz_generated.go is not what the checked-in generator produces: " + d, Detail: string(ob)})
			m.VioBatch = append(m.VioBatch, 0)
		}
	}
	m.Counters["generator_dirs_same"] = int64(same)
	m.Counters["generator_dirs_diff"] = int64(diff)
	m.Evaluations += int64(same + diff)
	if err != nil && diff == 0 {
		m.Inconclusive = append(m.Inconclusive, "regen.sh failed: "+err.Error()+": "+string(ob))
	}
	if gen, _ := strconv.Atoi(m.Notes["models_generated"]); gen > 0 {
		def, _ := strconv.Atoi(m.Notes["models_defined"])
		m.Counters["models_generated"] = int64(gen)
		m.Counters["models_defined"] = int64(def)
		if gen < def {
			m.Violations = append(m.Violations, h.Violation{Key: "C13:model-without-generated-code", Case: "scan", What: fmt.Sprintf("%d models are defined but only %d have generated encoder+parser", def, gen)})
			m.VioBatch = append(m.VioBatch, 0)
		}
	}
}

func init() {
	h.Register(&h.Prop{
		ID:    "C13",
		Level: "exploration",
		Rule: "models are discovered by scanning zz_generated.go and the definition files of the current tree (cmd/c13scan); per model, values from a type-directed generator (nil/empty/boundary/large fields, nested structs, sequences of 0/1/2/5, maps, multi-buffer wires); " +
			"oracle: announced length == bytes produced, wire plan sizes, strict TLV walk, Parse(Encode(v)) == v (contiguous and segmented), unknown non-critical element inserted at every top-level boundary is skipped with all fields equal, unknown critical element rejected unless ignoreCritical; " +
			"plus byte-equality of freshly generated code with the checked-in zz_generated.go for every definition directory; distinct = (model, set of field kinds populated), (model, insertion position class), generator directories",
		Assumptions: []string{"signature-valued fields are left empty (they need encoder-side estimated lengths; C03/C12 cover them for Interest/Data)", "unexported marker/argument fields are not compared"},
		Batches:     func(t bool) int { return 16 },
		ChildTimeoutS: func(t bool) int {
			if t {
				return 2400
			}
			return 400
		},
		Run:         c13Run,
		PostProcess: c13Post,
		MinDistinct: 150,
		Floors:      map[string]int64{"roundtrips": 300, "noncritical_insertions": 500, "generator_dirs_same": 1, "models_generated": 60},
	})
}
