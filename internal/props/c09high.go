package props

import (
	"fmt"
	"math/rand"

	"github.com/named-data/ndnd/fw/defn"
	enc "github.com/named-data/ndnd/std/encoding"

	"verif/internal/fwsim"
	"verif/internal/h"
)

// c09HighFaceIDs: face ids are handed out sequentially for the life of the process, so a forwarder
// that has seen a few thousand connections holds ids far beyond any small table. A local application
// face and a non-local face whose ids are equal modulo 256 / 1024 / 4096 / 65536 / 2^32 exist at the
// same time: the /localhost Interest of the non-local one must be dropped, the local one's must reach
// the local producer - whatever the order in which the faces were added.
func c09HighFaceIDs(c *h.Ctx, id string, r *rand.Rand) {
	c.Eval(1)
	s := fwsim.New(fwsim.Options{CsAdmit: false, CsServe: false, CsCapacity: 4, DnlLifetimeMs: 100,
		FibAlgo: []string{"nametree", "hashtable"}[r.Intn(2)]})
	step := []uint64{256, 1024, 4096, 65536, 1 << 32}[r.Intn(5)]
	low := uint64(3 + r.Intn(40))
	high := low + step*uint64(1+r.Intn(3))
	localID, remoteID := low, high
	if r.Intn(2) == 0 {
		localID, remoteID = high, low
	}
	prodID := uint64(50 + r.Intn(20))
	add := []func(){
		func() { s.AddFace(localID, true, defn.PointToPoint) },
		func() { s.AddFace(remoteID, false, defn.PointToPoint) },
		func() { s.AddFace(prodID, true, defn.PointToPoint) },
	}
	r.Shuffle(len(add), func(i, j int) { add[i], add[j] = add[j], add[i] })
	for _, f := range add {
		f()
	}
	px, _ := enc.NameFromStr("/localhost/hi")
	s.Fib.InsertNextHopEnc(px, prodID, 1)
	send := func(face uint64, k int) ([]fwsim.Send, bool) {
		nm, _ := enc.NameFromStr(fmt.Sprintf("/localhost/hi/%d/%d", face, k))
		nonce := uint32(9000 + k)
		life := 4000
		st := &fwStep{Kind: "interest", Face: face, name: nm, Nonce: &nonce, LifeMs: &life}
		p, err := s.Ingest(buildInterestWire(st), face, nil, nil)
		if err != nil || p == nil {
			return nil, true // refused at the link service already
		}
		if pi := h.Guard(func() { s.Interest(p) }); pi != nil {
			c.Violation("C09:panic:interest:"+pi.Frame+":"+pi.Class, id, "Interest pipeline panicked: "+pi.Value, nil)
			return nil, false
		}
		return s.TakeSends(), true
	}
	det := map[string]any{"local_face": localID, "non_local_face": remoteID, "local_producer_face": prodID, "ids_equal_modulo": step}
	for k := 0; k < 3; k++ {
		sends, ok := send(remoteID, k)
		if !ok {
			return
		}
		if len(sends) > 0 {
			c.Violation("C09:localhost-interest-accepted-from-nonlocal:high-face-id", id, fmt.Sprintf("a /localhost Interest from non-local face %d was forwarded (%d sends) while local face %d exists (ids equal modulo %d)", remoteID, len(sends), localID, step), det)
			return
		}
		sends, ok = send(localID, k)
		if !ok {
			return
		}
		got := false
		for _, sd := range sends {
			if sd.Face == prodID && sd.Kind == "interest" {
				got = true
			}
		}
		if !got {
			c.Violation("C09:local-localhost-interest-not-forwarded:high-face-id", id, fmt.Sprintf("a /localhost Interest from local face %d did not reach the local producer face %d while non-local face %d exists (ids equal modulo %d)", localID, prodID, remoteID, step), det)
			return
		}
	}
	c.Count("high_face_id_cases", 1)
	c.Distinct(fmt.Sprintf("high-face-ids|modulo=%d|local-is-high=%v", step, localID > remoteID))
}
