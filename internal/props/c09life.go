package props

import (
	"fmt"
	"time"

	"github.com/named-data/ndnd/fw/face"
	enc "github.com/named-data/ndnd/std/encoding"
	mgmt "github.com/named-data/ndnd/std/ndn/mgmt_2022"
	spec "github.com/named-data/ndnd/std/ndn/spec_2022"

	"verif/internal/h"
)

// ---- C09, face life cycle inside a traffic history: faces/destroy takes a face out of the face
// table but does not stop its transport; a destroyed non-local face that keeps delivering
// /localhost packets - while new local faces are being created - must still never be accepted.
// Runs on the mini daemon C17 uses (running forwarding threads and management thread, real link
// services); must be the last thing in its child process.

// framesWith reports whether one of the frames recorded on f carries an Interest / a Data named name.
func c09Saw(f *c17Face, name enc.Name, data bool, keep *[][]byte) bool {
	*keep = append(*keep, f.tr.TakeFrames()...)
	for _, fr := range *keep {
		p, _, err := spec.ReadPacket(enc.NewBufferReader(fr))
		if err != nil {
			continue
		}
		inner := p
		if p.LpPacket != nil {
			ip, _, err := spec.ReadPacket(enc.NewBufferReader(p.LpPacket.Fragment.Join()))
			if err != nil {
				continue
			}
			inner = ip
		}
		if !data && inner.Interest != nil && inner.Interest.NameV.Equal(name) {
			return true
		}
		if data && inner.Data != nil && inner.Data.NameV.Equal(name) {
			return true
		}
	}
	return false
}

func c09Lifecycle(c *h.Ctx) {
	if !c.Case("lifecycle") {
		return
	}
	d := c17Start(c, false, []string{"nametree", "hashtable"}[c.Batch%2])
	r := c.Rng("lifecycle")
	prod := d.app2
	root, _ := enc.NameFromStr("/localhost/c09p")
	cp := c17Params(&mgmt.ControlArgs{Name: root, FaceId: u64p(prod.id)})
	if resp := d.command(d.app, "/localhost/nfd", "rib", "register", &cp, 15*time.Second); resp == nil || resp.StatusCode != 200 {
		c.Inconclusive("lifecycle: route registration got no 200")
		return
	}
	waitFor := func(f *c17Face, name enc.Name, data bool, keep *[][]byte) bool {
		for dl := time.Now().Add(15 * time.Second); time.Now().Before(dl); time.Sleep(300 * time.Microsecond) {
			if c09Saw(f, name, data, keep) {
				return true
			}
		}
		return false
	}
	{
		var keep [][]byte
		probe, _ := enc.NameFromStr("/localhost/c09p/ready")
		d.send(d.app, probe, false)
		if !waitFor(prod, probe, false, &keep) {
			c.Inconclusive("lifecycle: the /localhost route towards the local producer never worked")
			return
		}
	}
	rounds := c.Pick(8, 80)
	fd := 40
	for k := 0; k < rounds; k++ {
		id := fmt.Sprintf("lifecycle/r%d", k)
		c.Eval(1)
		var prodFrames, appFrames [][]byte
		det := func() map[string]any { return map[string]any{"commands": d.log[max(0, len(d.log)-12):]} }
		// a non-local face comes, exchanges some traffic, and is destroyed through management
		fd++
		old := d.newFace(false, fd)
		d.log = append(d.log, fmt.Sprintf("%s: non-local face %d created", id, old.id))
		cp := c17Params(&mgmt.ControlArgs{FaceId: u64p(old.id)})
		if resp := d.command(d.app, "/localhost/nfd", "faces", "destroy", &cp, 15*time.Second); resp == nil || resp.StatusCode != 200 {
			c.Inconclusive("lifecycle: faces/destroy got no 200")
			return
		}
		d.log = append(d.log, fmt.Sprintf("%s: faces/destroy %d", id, old.id))
		// new faces appear afterwards (local ones: applications connecting)
		var fresh []*c17Face
		for j := 0; j < 1+r.Intn(3); j++ {
			fd++
			nf := d.newFace(true, fd)
			fresh = append(fresh, nf)
			d.log = append(d.log, fmt.Sprintf("%s: local face %d created", id, nf.id))
		}
		// a local consumer has a /localhost Interest pending at the producer
		pend, _ := enc.NameFromStr(fmt.Sprintf("/localhost/c09p/pending%d", k))
		d.send(d.app, pend, false)
		if !waitFor(prod, pend, false, &prodFrames) {
			d.fail("C09:local-localhost-exchange-broken", id, "a /localhost Interest from a local application is not forwarded to the local producer that registered the prefix", det())
			return
		}
		// the destroyed face's transport still delivers: a /localhost Interest and a /localhost Data
		evil, _ := enc.NameFromStr(fmt.Sprintf("/localhost/c09p/from-destroyed%d", k))
		d.log = append(d.log, fmt.Sprintf("%s: destroyed non-local face %d delivers Interest %s and Data %s", id, old.id, evil, pend))
		d.send(old, evil, false)
		fresh1 := time.Minute
		if _, wire, err := makeData(pend, &fresh1, []byte("from the destroyed non-local face")); err == nil {
			face.VerifRecv(old.ls, wire)
		}
		c.Count("localhost_packets_from_destroyed_nonlocal_face", 2)
		// a new local face must work: its /localhost Interest reaches the producer (also the barrier
		// behind which the packets above have been handled by the same producer face's send queue)
		nf := fresh[r.Intn(len(fresh))]
		mark, _ := enc.NameFromStr(fmt.Sprintf("/localhost/c09p/marker%d", k))
		d.send(nf, mark, false)
		if !waitFor(prod, mark, false, &prodFrames) {
			d.fail("C09:local-localhost-exchange-broken", id, fmt.Sprintf("a /localhost Interest from the new local face %d is not forwarded to the local producer", nf.id), det())
			return
		}
		time.Sleep(20 * time.Millisecond)
		if c09Saw(prod, evil, false, &prodFrames) {
			d.fail("C09:localhost-interest-accepted-from-nonlocal:destroyed-face", id, fmt.Sprintf("the /localhost Interest delivered by the transport of destroyed non-local face %d was forwarded to the local producer", old.id), det())
			return
		}
		if c09Saw(d.app, pend, true, &appFrames) {
			d.fail("C09:localhost-data-accepted-from-nonlocal:destroyed-face", id, fmt.Sprintf("the /localhost Data delivered by the transport of destroyed non-local face %d satisfied a local application's Interest", old.id), det())
			return
		}
		// the producer answers: the local exchange completes
		if _, wire, err := makeData(pend, &fresh1, []byte("from the producer")); err == nil {
			face.VerifRecv(prod.ls, wire)
			if !waitFor(d.app, pend, true, &appFrames) {
				d.fail("C09:local-localhost-exchange-broken", id, "the local producer's /localhost Data did not reach the local consumer", det())
				return
			}
		}
		c.Count("lifecycle_rounds", 1)
		c.Distinct(fmt.Sprintf("lifecycle|new-local-faces=%d", len(fresh)))
	}
}
