package props

import (
	"fmt"
	"net"
	"time"

	defn "github.com/named-data/ndnd/fw/defn"
	"github.com/named-data/ndnd/fw/face"
	enc "github.com/named-data/ndnd/std/encoding"
	mgmt "github.com/named-data/ndnd/std/ndn/mgmt_2022"
	spec "github.com/named-data/ndnd/std/ndn/spec_2022"

	"verif/internal/h"
	"verif/internal/tlvwalk"
)

// ---- C09, face life cycle inside a traffic history: faces/destroy takes a face out of the face
// table but does not stop its transport; a destroyed non-local face that keeps delivering
// /localhost packets - while new local faces are being created - must still never be accepted.
// Runs on the mini daemon C17 uses (running forwarding threads and management thread, real link
// services); must be the last thing in its child process.

// framesWith reports whether one of the frames recorded on f carries an Interest / a Data named name.
func c09Saw(f *c17Face, name enc.Name, data bool, keep *[][]byte) bool {
	*keep = append(*keep, f.tr.TakeFrames()...)
	for _, fr := range *keep {
		p, _, err := spec.ReadPacket(enc.NewBufferReader(fr))
		if err != nil {
			continue
		}
		inner := p
		if p.LpPacket != nil {
			ip, _, err := spec.ReadPacket(enc.NewBufferReader(p.LpPacket.Fragment.Join()))
			if err != nil {
				continue
			}
			inner = ip
		}
		if !data && inner.Interest != nil && inner.Interest.NameV.Equal(name) {
			return true
		}
		if data && inner.Data != nil && inner.Data.NameV.Equal(name) {
			return true
		}
	}
	return false
}

func c09Lifecycle(c *h.Ctx) {
	if !c.Case("lifecycle") {
		return
	}
	d := c17Start(c, false, []string{"nametree", "hashtable"}[c.Batch%2])
	r := c.Rng("lifecycle")
	prod := d.app2
	root, _ := enc.NameFromStr("/localhost/c09p")
	cp := c17Params(&mgmt.ControlArgs{Name: root, FaceId: u64p(prod.id)})
	if resp := d.command(d.app, "/localhost/nfd", "rib", "register", &cp, 15*time.Second); resp == nil || resp.StatusCode != 200 {
		c.Inconclusive("lifecycle: route registration got no 200")
		return
	}
	waitFor := func(f *c17Face, name enc.Name, data bool, keep *[][]byte) bool {
		for dl := time.Now().Add(15 * time.Second); time.Now().Before(dl); time.Sleep(300 * time.Microsecond) {
			if c09Saw(f, name, data, keep) {
				return true
			}
		}
		return false
	}
	{
		var keep [][]byte
		probe, _ := enc.NameFromStr("/localhost/c09p/ready")
		d.send(d.app, probe, false)
		if !waitFor(prod, probe, false, &keep) {
			c.Inconclusive("lifecycle: the /localhost route towards the local producer never worked")
			return
		}
	}
	rounds := c.Pick(8, 80)
	fd := 40
	for k := 0; k < rounds; k++ {
		id := fmt.Sprintf("lifecycle/r%d", k)
		c.Eval(1)
		var prodFrames, appFrames [][]byte
		det := func() map[string]any { return map[string]any{"commands": d.log[max(0, len(d.log)-12):]} }
		// a non-local face comes, exchanges some traffic, and is destroyed through management
		fd++
		old := d.newFace(false, fd)
		d.log = append(d.log, fmt.Sprintf("%s: non-local face %d created", id, old.id))
		cp := c17Params(&mgmt.ControlArgs{FaceId: u64p(old.id)})
		if resp := d.command(d.app, "/localhost/nfd", "faces", "destroy", &cp, 15*time.Second); resp == nil || resp.StatusCode != 200 {
			c.Inconclusive("lifecycle: faces/destroy got no 200")
			return
		}
		d.log = append(d.log, fmt.Sprintf("%s: faces/destroy %d", id, old.id))
		// new faces appear afterwards (local ones: applications connecting)
		var fresh []*c17Face
		for j := 0; j < 1+r.Intn(3); j++ {
			fd++
			nf := d.newFace(true, fd)
			fresh = append(fresh, nf)
			d.log = append(d.log, fmt.Sprintf("%s: local face %d created", id, nf.id))
		}
		// a local consumer has a /localhost Interest pending at the producer
		pend, _ := enc.NameFromStr(fmt.Sprintf("/localhost/c09p/pending%d", k))
		d.send(d.app, pend, false)
		if !waitFor(prod, pend, false, &prodFrames) {
			d.fail("C09:local-localhost-exchange-broken", id, "a /localhost Interest from a local application is not forwarded to the local producer that registered the prefix", det())
			return
		}
		// the destroyed face's transport still delivers: a /localhost Interest and a /localhost Data
		evil, _ := enc.NameFromStr(fmt.Sprintf("/localhost/c09p/from-destroyed%d", k))
		d.log = append(d.log, fmt.Sprintf("%s: destroyed non-local face %d delivers Interest %s and Data %s", id, old.id, evil, pend))
		d.send(old, evil, false)
		fresh1 := time.Minute
		if _, wire, err := makeData(pend, &fresh1, []byte("from the destroyed non-local face")); err == nil {
			face.VerifRecv(old.ls, wire)
		}
		c.Count("localhost_packets_from_destroyed_nonlocal_face", 2)
		// a new local face must work: its /localhost Interest reaches the producer (also the barrier
		// behind which the packets above have been handled by the same producer face's send queue)
		nf := fresh[r.Intn(len(fresh))]
		mark, _ := enc.NameFromStr(fmt.Sprintf("/localhost/c09p/marker%d", k))
		d.send(nf, mark, false)
		if !waitFor(prod, mark, false, &prodFrames) {
			d.fail("C09:local-localhost-exchange-broken", id, fmt.Sprintf("a /localhost Interest from the new local face %d is not forwarded to the local producer", nf.id), det())
			return
		}
		time.Sleep(20 * time.Millisecond)
		if c09Saw(prod, evil, false, &prodFrames) {
			d.fail("C09:localhost-interest-accepted-from-nonlocal:destroyed-face", id, fmt.Sprintf("the /localhost Interest delivered by the transport of destroyed non-local face %d was forwarded to the local producer", old.id), det())
			return
		}
		if c09Saw(d.app, pend, true, &appFrames) {
			d.fail("C09:localhost-data-accepted-from-nonlocal:destroyed-face", id, fmt.Sprintf("the /localhost Data delivered by the transport of destroyed non-local face %d satisfied a local application's Interest", old.id), det())
			return
		}
		// the producer answers: the local exchange completes
		if _, wire, err := makeData(pend, &fresh1, []byte("from the producer")); err == nil {
			face.VerifRecv(prod.ls, wire)
			if !waitFor(d.app, pend, true, &appFrames) {
				d.fail("C09:local-localhost-exchange-broken", id, "the local producer's /localhost Data did not reach the local consumer", det())
				return
			}
		}
		c.Count("lifecycle_rounds", 1)
		c.Distinct(fmt.Sprintf("lifecycle|new-local-faces=%d", len(fresh)))
	}
	c09Pipelined(c, d)
	c09Retransmit(c, d, prod, waitFor)
	c09UDPAccept(c, d, prod, waitFor)
}

// c09Pipelined: two local applications send /localhost/nfd commands back to back, without waiting
// for each other's answer (the exchange "between local applications and the forwarder itself"):
// each must get the answer to its own command and both commands must take effect.
func c09Pipelined(c *h.Ctx, d *c17Daemon) {
	for k := 0; k < c.Pick(6, 60); k++ {
		id := fmt.Sprintf("lifecycle/pipelined%d", k)
		c.Eval(1)
		n1, _ := enc.NameFromStr(fmt.Sprintf("/pl/a%d", k))
		n2, _ := enc.NameFromStr(fmt.Sprintf("/pl/b%d", k))
		mk := func(n enc.Name) enc.Name {
			cp := c17Params(&mgmt.ControlArgs{Name: n, Cost: u64p(uint64(k % 7))})
			cn, _ := enc.NameFromStr("/localhost/nfd/rib/register")
			return append(cn, cp)
		}
		c1, c2 := mk(n1), mk(n2)
		d.log = append(d.log, fmt.Sprintf("%s: faces %d and %d send rib/register %s / %s back to back", id, d.app.id, d.app2.id, n1, n2))
		d.send(d.app, c1, false)
		d.send(d.app2, c2, false)
		_, b1 := d.await(d.app, c1, 15*time.Second)
		_, b2 := d.await(d.app2, c2, 15*time.Second)
		ok := func(b []byte, n enc.Name, f uint64) bool {
			if b == nil {
				return false
			}
			r, err := mgmt.ParseControlResponse(enc.NewBufferReader(b), true)
			return err == nil && r.Val != nil && r.Val.StatusCode == 200 && r.Val.Params != nil && r.Val.Params.Name.Equal(n) && r.Val.Params.FaceId != nil && *r.Val.Params.FaceId == f
		}
		if !ok(b1, n1, d.app.id) || !ok(b2, n2, d.app2.id) {
			d.fail("C09:local-localhost-exchange-broken:pipelined-commands", id, fmt.Sprintf("two local applications sent /localhost/nfd commands back to back; answered correctly (own prefix, own face, status 200): first %v, second %v", ok(b1, n1, d.app.id), ok(b2, n2, d.app2.id)), map[string]any{"commands": d.log[max(0, len(d.log)-4):]})
			return
		}
		c.Count("pipelined_command_pairs", 1)
	}
	c.Distinct("lifecycle|pipelined-commands")
}

// c09Retransmit: the /localhost prefix of the local producer also has a cheaper next hop towards a
// non-local face (a default route flattened into it). The local consumer's Interest reaches the
// producer; the producer is slow, the consumer retransmits after the suppression interval: the
// retransmission must reach the producer as well ("/localhost exchanges always work") and nothing
// with a /localhost name may ever show up on the non-local face.
func c09Retransmit(c *h.Ctx, d *c17Daemon, prod *c17Face, waitFor func(*c17Face, enc.Name, bool, *[][]byte) bool) {
	root, _ := enc.NameFromStr("/localhost/c09p")
	cp := c17Params(&mgmt.ControlArgs{Name: root, FaceId: u64p(prod.id), Cost: u64p(7)})
	cq := c17Params(&mgmt.ControlArgs{Name: root, FaceId: u64p(d.peer.id), Cost: u64p(1)})
	r1 := d.command(d.app, "/localhost/nfd", "rib", "register", &cp, 15*time.Second)
	r2 := d.command(d.app, "/localhost/nfd", "rib", "register", &cq, 15*time.Second)
	if r1 == nil || r2 == nil || r1.StatusCode != 200 || r2.StatusCode != 200 {
		c.Inconclusive("retransmit: route registration got no 200")
		return
	}
	for k := 0; k < c.Pick(2, 12); k++ {
		id := fmt.Sprintf("lifecycle/retx%d", k)
		c.Eval(1)
		name, _ := enc.NameFromStr(fmt.Sprintf("/localhost/c09p/retx%d", k))
		var prodFrames, peerFrames, appFrames [][]byte
		det := func() map[string]any { return map[string]any{"commands": d.log[max(0, len(d.log)-6):]} }
		d.log = append(d.log, fmt.Sprintf("%s: local face %d sends %s; next hops: non-local face %d (cost 1), local producer face %d (cost 7)", id, d.app.id, name, d.peer.id, prod.id))
		d.send(d.app, name, false)
		if !waitFor(prod, name, false, &prodFrames) {
			d.fail("C09:local-localhost-exchange-broken", id, "a /localhost Interest from a local application is not forwarded to the local producer although a cheaper next hop towards a non-local face cannot be used", det())
			return
		}
		time.Sleep(620 * time.Millisecond) // past the 500 ms suppression interval
		prodFrames = nil
		prod.tr.TakeFrames()
		d.log = append(d.log, fmt.Sprintf("%s: retransmission (new nonce) 620 ms later", id))
		d.send(d.app, name, false)
		if !waitFor(prod, name, false, &prodFrames) {
			d.fail("C09:local-localhost-exchange-broken:retransmission", id, "the retransmission of a /localhost Interest by a local application (620 ms after the first, new nonce) did not reach the local producer, which had not answered yet", det())
			return
		}
		if c09Saw(d.peer, name, false, &peerFrames) {
			d.fail("C09:localhost-interest-to-nonlocal", id, fmt.Sprintf("/localhost Interest %s was transmitted on non-local face %d", name, d.peer.id), det())
			return
		}
		fresh := time.Minute
		if _, wire, err := makeData(name, &fresh, []byte("late answer")); err == nil {
			face.VerifRecv(prod.ls, wire)
			if !waitFor(d.app, name, true, &appFrames) {
				d.fail("C09:local-localhost-exchange-broken", id, "the local producer's /localhost Data did not reach the local consumer", det())
				return
			}
		}
		c.Count("localhost_retransmissions", 1)
		c.Distinct("lifecycle|retransmission")
	}
}

// c09UDPAccept: the forwarder's real UDP listener accepts new peers: per round a peer on the
// loopback address (a local face) and a peer on this host's non-loopback address (a non-local
// face) send their first datagrams - /localhost Interests of equal length - back to back. The
// local peer's Interest must reach the local producer, the non-local peer's must not.
func c09UDPAccept(c *h.Ctx, d *c17Daemon, prod *c17Face, waitFor func(*c17Face, enc.Name, bool, *[][]byte) bool) {
	c09UDPAcceptFam(c, d, prod, waitFor, 4)
	c09UDPAcceptFam(c, d, prod, waitFor, 6)
}

// c09UDPAcceptFam runs the scenario for one address family (4 or 6).
func c09UDPAcceptFam(c *h.Ctx, d *c17Daemon, prod *c17Face, waitFor func(*c17Face, enc.Name, bool, *[][]byte) bool, fam int) {
	host := ""
	network, loop, anyAddr := "udp4", "127.0.0.1", "0.0.0.0"
	if fam == 6 {
		network, loop, anyAddr = "udp6", "::1", "::"
	}
	if as, err := net.InterfaceAddrs(); err == nil {
		for _, a := range as {
			ipn, ok := a.(*net.IPNet)
			if !ok || ipn.IP.IsLoopback() || ipn.IP.IsLinkLocalUnicast() {
				continue
			}
			if (fam == 4) == (ipn.IP.To4() != nil) {
				host = ipn.IP.String()
				break
			}
		}
	}
	if host == "" {
		c.Note(fmt.Sprintf("udp%d_accept", fam), "this host has no non-loopback address of this family: the UDP listener scenario did not run for it")
		return
	}
	probe, err := net.ListenPacket(network, net.JoinHostPort(anyAddr, "0"))
	if err != nil {
		c.Note("udp_accept", "cannot find a free UDP port: "+err.Error())
		return
	}
	port := probe.LocalAddr().(*net.UDPAddr).Port
	probe.Close()
	ln, err := face.MakeUDPListener(defn.MakeUDPFaceURI(fam, anyAddr, uint16(port)))
	if err != nil {
		c.Note("udp_accept", "cannot make the UDP listener: "+err.Error())
		return
	}
	go ln.Run()
	defer ln.Close()
	time.Sleep(50 * time.Millisecond)
	for k := 0; k < c.Pick(30, 300); k++ {
		id := fmt.Sprintf("lifecycle/udp%d-%d", fam, k)
		c.Eval(1)
		la, err1 := net.DialUDP(network, &net.UDPAddr{IP: net.ParseIP(loop)}, &net.UDPAddr{IP: net.ParseIP(loop), Port: port})
		lb, err2 := net.DialUDP(network, &net.UDPAddr{IP: net.ParseIP(host)}, &net.UDPAddr{IP: net.ParseIP(host), Port: port})
		if err1 != nil || err2 != nil {
			c.Note("udp_accept", fmt.Sprintf("cannot open the peers' sockets: %v %v", err1, err2))
			return
		}
		na, _ := enc.NameFromStr(fmt.Sprintf("/localhost/c09p/udp%d-local-%04d", fam, k))
		nb, _ := enc.NameFromStr(fmt.Sprintf("/localhost/c09p/udp%d-remot-%04d", fam, k))
		wa, wb := tlvwalk.TLV(5, d.interestBody(na, false)), tlvwalk.TLV(5, d.interestBody(nb, false))
		d.log = append(d.log, fmt.Sprintf("%s: new UDP peers %s (loopback) and %s (non-loopback) send first datagrams %s / %s", id, la.LocalAddr(), lb.LocalAddr(), na, nb))
		var keep [][]byte
		if k%2 == 0 {
			la.Write(wa)
			lb.Write(wb)
		} else {
			lb.Write(wb)
			la.Write(wa)
		}
		c.Count(fmt.Sprintf("udp%d_first_datagram_pairs", fam), 1)
		okA := waitFor(prod, na, false, &keep)
		time.Sleep(10 * time.Millisecond)
		sawB := c09Saw(prod, nb, false, &keep)
		la.Close()
		lb.Close()
		if sawB {
			d.fail("C09:localhost-interest-accepted-from-nonlocal:udp-first-datagram", id, fmt.Sprintf("the /localhost Interest %s sent as first datagram by the non-loopback UDP peer %s was forwarded to the local producer", nb, lb.LocalAddr()), map[string]any{"commands": d.log[max(0, len(d.log)-6):]})
			return
		}
		if !okA {
			d.fail("C09:local-localhost-exchange-broken", id, fmt.Sprintf("the /localhost Interest %s sent as first datagram by the loopback UDP peer %s never reached the local producer", na, la.LocalAddr()), map[string]any{"commands": d.log[max(0, len(d.log)-6):]})
			return
		}
		c.Distinct(fmt.Sprintf("lifecycle|udp%d-accept", fam))
	}
}
