package props

import (
	"fmt"
	"net"
	"time"

	"github.com/named-data/ndnd/fw/defn"
	"github.com/named-data/ndnd/fw/face"
	"verif/internal/fwenv"

	fwfw "github.com/named-data/ndnd/fw/fw"
	"github.com/named-data/ndnd/fw/table"

	"verif/internal/h"
)

// ---- C09: table state unchanged after a rejected /localhost packet from a non-local face

func (fr *fwRun) c09After(st *fwStep, before table.VerifPitCsInfo) {
	if st.Kind != "interest" && st.Kind != "data" {
		return
	}
	F := fr.m.faces[st.Face]
	if F == nil || F.local || !isLocalhost(st.name) {
		if isLocalhost(st.name) {
			fr.c.Count("localhost_packets_local", 1)
		}
		return
	}
	fr.c.Count("localhost_packets_from_nonlocal", 1)
	after := table.VerifPitCsStats(fwfw.VerifPitCs(fr.sim.T))
	if after.PitEntries != before.PitEntries || after.CsEntries != before.CsEntries || after.Nodes != before.Nodes {
		fr.fail("C09", "C09:rejected-packet-changed-tables", fmt.Sprintf("a /localhost %s from non-local face %d changed the tables: PIT %d->%d, CS %d->%d, tree nodes %d->%d",
			st.Kind, st.Face, before.PitEntries, after.PitEntries, before.CsEntries, after.CsEntries, before.Nodes, after.Nodes), nil)
	}
}

// ---- C08 (forwarder part): structural invariant after every step, drain at quiescence

func (fr *fwRun) c08Invariant(when string) bool {
	info := table.VerifPitCsStats(fwfw.VerifPitCs(fr.sim.T))
	fr.c.Count("structure_checks", 1)
	bad := func(key, what string) bool {
		fr.fail("C08", key, what+" ("+when+")", map[string]any{"snapshot": fmt.Sprintf("%+v", summarize(info))})
		return false
	}
	if info.PitNotQueued > 0 {
		return bad("C08:pit-entry-never-expires", fmt.Sprintf("%d PIT entr(ies) are not in the expiry queue and can therefore never be removed", info.PitNotQueued))
	}
	if info.NPitEntries != info.PitEntries || info.TokenMapSize != info.PitEntries || fr.sim.T.GetNumPitEntries() != info.PitEntries {
		return bad("C08:pit-size-wrong", fmt.Sprintf("reported PIT size %d, token map %d, entries found in the tree %d", info.NPitEntries, info.TokenMapSize, info.PitEntries))
	}
	if info.ExpiryQueue != info.PitEntries {
		return bad("C08:pit-queue-size", fmt.Sprintf("expiry queue holds %d items for %d PIT entries", info.ExpiryQueue, info.PitEntries))
	}
	if info.NCsEntries != info.CsEntries || info.CsMapSize != info.CsEntries || fr.sim.T.GetNumCsEntries() != info.CsEntries {
		return bad("C08:cs-size-wrong", fmt.Sprintf("reported CS size %d, index %d, entries found in the tree %d", info.NCsEntries, info.CsMapSize, info.CsEntries))
	}
	if info.LruQueue >= 0 && info.LruQueue != info.CsEntries {
		return bad("C08:cs-lru-queue-size", fmt.Sprintf("LRU queue holds %d items for %d CS entries", info.LruQueue, info.CsEntries))
	}
	if info.DeadNodes > 0 {
		return bad("C08:pitcs-dead-branch", fmt.Sprintf("%d node(s) of the PIT/CS name tree lie on no path to a PIT or CS entry", info.DeadNodes))
	}
	return true
}

func summarize(i table.VerifPitCsInfo) map[string]int {
	return map[string]int{"nodes": i.Nodes, "pit": i.PitEntries, "pit_not_queued": i.PitNotQueued, "cs": i.CsEntries, "dead_nodes": i.DeadNodes, "npit": i.NPitEntries,
		"ncs": i.NCsEntries, "token_map": i.TokenMapSize, "cs_map": i.CsMapSize, "expiry_queue": i.ExpiryQueue, "lru_queue": i.LruQueue, "lru_locations": i.LruLocations}
}

func (fr *fwRun) c08After(st *fwStep) {
	if !fr.c08Invariant(fmt.Sprintf("after step %d (%s)", len(fr.hist), st.Kind)) {
		return
	}
	if st.Kind == "reap" {
		fr.c08Reclaimed()
	}
}

// c08Reclaimed: right after a maintenance pass every PIT entry still in the table must be one the
// model considers possibly pending (some in-record not surely expired). An entry whose Interests were
// all satisfied (or answered from the cache) has no in-record left and must be gone - "promptly once
// satisfied", not only when its original lifetime ends.
func (fr *fwRun) c08Reclaimed() {
	info := table.VerifPitCsStats(fwfw.VerifPitCs(fr.sim.T))
	alive := map[string]int{}
	for _, e := range fr.m.entries {
		if len(e.in) > 0 {
			alive[nkey(e.name)]++
		}
	}
	real := map[string]int{}
	for _, n := range info.PitEntryNames {
		real[nkey(n)]++
	}
	fr.c.Count("reclaim_checks_after_maintenance", 1)
	for k, cnt := range real {
		if cnt > alive[k] {
			fr.fail("C08", "C08:satisfied-or-expired-pit-entry-survives-maintenance", fmt.Sprintf("after a maintenance pass the PIT holds %d entr(ies) named %s; at most %d can still be pending (the others were satisfied or have expired)", cnt, k, alive[k]),
				map[string]any{"pit_entries": fmt.Sprint(info.PitEntryNames), "model_pending": fr.pendingDesc()})
			return
		}
	}
}

// c08Final: bounded liveness at quiescence.
func (fr *fwRun) c08Final() {
	if fr.stop {
		return
	}
	// every lifetime used by the C08 profile is <= 40 ms; the dead nonce lifetime is 60 ms
	time.Sleep(120 * time.Millisecond)
	pit := fwfw.VerifPitCs(fr.sim.T)
	prev := -1
	for round := 0; round < 50; round++ {
		fr.sim.Reap()
		info := table.VerifPitCsStats(pit)
		if info.ExpiryQueue == prev {
			break
		}
		prev = info.ExpiryQueue
	}
	if !fr.c08Invariant("at quiescence") {
		return
	}
	info := table.VerifPitCsStats(pit)
	if info.PitEntries != 0 || fr.sim.T.GetNumPitEntries() != 0 {
		fr.fail("C08", "C08:pit-not-empty-at-quiescence", fmt.Sprintf("%d PIT entries remain 120 ms after the last Interest although every lifetime was <= 40 ms", info.PitEntries),
			map[string]any{"snapshot": summarize(info), "entries": fmt.Sprint(info.PitEntryNames)})
		return
	}
	need := map[string]bool{}
	for _, n := range info.CachedNames {
		for l := 1; l <= len(n); l++ {
			need[nkey(n[:l])] = true
		}
	}
	if info.Nodes != len(need) {
		fr.fail("C08", "C08:pitcs-tree-not-minimal", fmt.Sprintf("the PIT/CS tree holds %d nodes at quiescence; the paths to the %d live cache entries need %d", info.Nodes, info.CsEntries, len(need)),
			map[string]any{"snapshot": summarize(info)})
		return
	}
	// dead nonce list: reaped 100 entries per tick by design, so keep ticking
	dnl := fwfw.VerifDnl(fr.sim.T)
	time.Sleep(80 * time.Millisecond)
	for round := 0; round < 30; round++ {
		fr.sim.Reap()
		if n, _ := table.VerifDnlLen(dnl); n == 0 {
			break
		}
	}
	if n, q := table.VerifDnlLen(dnl); n != 0 || q != 0 {
		fr.fail("C08", "C08:dead-nonces-not-reclaimed", fmt.Sprintf("%d dead-nonce records (%d queued) remain 200 ms after the last packet although their lifetime is 60 ms", n, q), nil)
		return
	}
	fr.c.Count("quiescence_checks", 1)
}

// ---- runners

func fwHistory(c *h.Ctx, id string, prop string) {
	r := c.Rng(id)
	c.Eval(1)
	fr := newFwRun(c, id, r, prop)
	p := fwProfile{prop: prop}
	switch prop {
	case "C01":
		p.localhost = r.Intn(4) == 0
		p.shortLife = r.Intn(5) == 0
	case "C02":
		p.localhost = r.Intn(4) == 0
		p.shortLife = r.Intn(6) == 0
	case "C09":
		p.localhost = true
		p.shortLife = r.Intn(6) == 0
	case "C08":
		p.shortLife = true
		p.localhost = r.Intn(5) == 0
	}
	fr.run(p)
	if prop == "C08" {
		fr.c08Final()
	}
	c.Count("assertions", int64(fr.nAssert))
	if !fr.stop {
		hh := fr.hist
		if len(hh) > 8 {
			hh = hh[:8]
		}
		c.Sample(map[string]any{"options": fr.opts, "faces": fr.faceDesc(), "steps": len(fr.hist), "first_steps": hh})
		c.Count("packets_ingested_as_link_fragments", int64(fr.sim.NFragmented))
	}
}

func fwRunner(prop string, quick, thorough int) func(c *h.Ctx) {
	return func(c *h.Ctx) {
		n := c.Pick(quick, thorough)
		for k := 0; k < n; k++ {
			id := fmt.Sprintf("h%d", k)
			if !c.Case(id) {
				continue
			}
			fwHistory(c, id, prop)
		}
	}
}

const fwWorkload = "histories of 25-60 steps on one real forwarding thread driven synchronously through hooks, 5-6 recording faces (2 local, 3-4 non-local, one ad-hoc), names from a shared-prefix universe (+/localhost), CanBePrefix/MustBeFresh, nonces from a set of 6, hop limits {absent,0,1,2,255}, lifetimes {20 ms,40 ms,default,10 s}, " +
	"every fourth packet delivered to the ingress link service as two or three link-protocol fragments, downstream tokens {none,1,4,6,32 bytes}, forwarding hints in/outside the producer region, NextHopFaceId, Data with echoed/old/foreign/short/no token from upstream or any face, FIB and strategy changes, sleeps and maintenance ticks; both strategies, cache on/off, both FIB implementations; "

func init() {
	h.Register(&h.Prop{
		ID: "C01", Level: "exploration",
		Rule: fwWorkload + "oracle per DATA step: sends only on faces holding a pending Interest the Data satisfies (token echo or name/CanBePrefix), exactly one byte-identical copy per surely-live pending Interest on faces other than the arrival face with the token that face supplied, nothing for unknown 6-byte tokens, entry consumed afterwards; per INTEREST step answered from cache: one Data, arrival face only, right token, satisfying name, last inserted bytes; " +
			"several threads (4 batches): on a running two-thread mini daemon two local consumers ask for names spread over both forwarding threads, the upstream peer answers with Data that echoes the PIT token or carries none, every consumer that asked must get exactly one copy; distinct = (match branch, #entries, #in-records, arrival-face-is-downstream, #faces with a required copy) and cache-answer classes",
		Assumptions: []string{"tokens of forwarded Interests are learned from observation, never predicted", "expiry-dependent expectations use measured times with a 20 ms guard band; inside it 0 or 1 copies are accepted", "hooks: fw/fw/verif_hooks.go, fw/table/verif_hooks.go"},
		Batches:     func(t bool) int { return 16 },
		ChildTimeoutS: func(t bool) int {
			if t {
				return 3000
			}
			return 500
		},
		Run: func(c *h.Ctx) {
			fwRunner("C01", 200, 1500)(c)
			if c.Batch < 4 {
				c01Threads(c) // last: leaves a running daemon behind in this child process
			}
		},
		MinDistinct: 25,
		Floors:      map[string]int64{"data_forwarded": 200, "data_steps": 1000},
	})
	h.Register(&h.Prop{
		ID: "C02", Level: "exploration",
		Rule: fwWorkload + "oracle per INTEREST step: every copy goes to a next hop of the longest-prefix FIB entry (of the name, or of the first forwarding hint outside the producer region, or the NextHopFaceId face), never back to the point-to-point arrival face, at most once per face, hop limit decremented in the emitted bytes, same nonce; nothing is forwarded for hop limit 0, missing nonce, nonce pending from another face, " +
			"dead nonce, or a new nonce inside the suppression interval; the first Interest with a usable next hop must be forwarded (best-route: one copy on a lowest-cost usable hop; multicast: every usable hop); distinct = (decision class, strategy, #next hops, #usable, hint)",
		Assumptions: []string{"dead nonces that must be recorded: out-record nonces of entries satisfied by equal-name Data or expired unsatisfied; any further nonce the forwarder itself lists as dead may be dropped", "retransmissions after the suppression interval and same-face repeats are left open", "hooks: fw/fw/verif_hooks.go"},
		Batches:     func(t bool) int { return 16 },
		ChildTimeoutS: func(t bool) int {
			if t {
				return 3000
			}
			return 500
		},
		Run: func(c *h.Ctx) {
			fwRunner("C02", 40, 1500)(c)
			if c.Batch < 4 {
				c02Threads(c) // last: leaves a running daemon behind in this child process
			}
		},
		MinDistinct: 30,
		Floors:      map[string]int64{"interests_forwarded": 500, "interest_steps": 1500},
	})
	h.Register(&h.Prop{
		ID: "C09", Level: "exploration",
		Rule: fwWorkload + "with /localhost names mixed into a third of the traffic and routes (default route and /localhost routes towards non-local faces included); oracle: no recorded send on a non-local face carries a name starting with localhost (Interests, forwarded Data, cached Data, NextHopFaceId), a /localhost packet arriving on a non-local face causes no send and leaves PIT/CS/tree sizes unchanged, " +
			"and local-to-local /localhost Interests with a local route are forwarded and answered; real transports (2 batches): UDP/TCP transports towards loopback and other addresses, TCP connections actually established, and WebSocket faces over a real upgrade whose reported peer address is substituted (IPv4, global IPv6, IPv6 link-local with a zone) must be classified local exactly for loopback peers and non-local otherwise; face life cycle (4 batches, on a running mini daemon): a non-local face is destroyed through faces/destroy, new local faces are created, the destroyed face's link service then delivers a /localhost Interest and a /localhost Data for a pending local Interest - neither may be accepted, and the new local faces' /localhost exchanges must work; then the forwarder's real UDP listener accepts per round a loopback peer and a peer on the host's non-loopback address whose first datagrams (/localhost Interests of equal length) are sent back to back - only the loopback peer's may reach the local producer; distinct = model decision classes reached with /localhost names",
		Assumptions: []string{"names are parsed from the recorded bytes by the independent walker", "hooks: fw/fw/verif_hooks.go, fw/table/verif_hooks.go"},
		Batches:     func(t bool) int { return 16 },
		ChildTimeoutS: func(t bool) int {
			if t {
				return 3000
			}
			return 500
		},
		Run: func(c *h.Ctx) {
			if c.Batch < 2 {
				c09Transports(c)
				c09ConnectedTCP(c)
				c09WebSocket(c)
			}
			fwRunner("C09", 200, 1200)(c)
			for k := 0; k < c.Pick(6, 40); k++ {
				id := fmt.Sprintf("highface%d", k)
				if c.Case(id) {
					c09HighFaceIDs(c, id, c.Rng(id))
				}
			}
			if c.Batch >= 2 && c.Batch < 6 {
				c09Lifecycle(c) // last: leaves a running daemon behind in this child process
			}
		},
		MinDistinct: 25,
		Floors:      map[string]int64{"localhost_packets_from_nonlocal": 100, "localhost_packets_local": 200},
	})
}

// ---- C08: state is reclaimed (forwarder part + FIB/RIB part)

func c08Run(c *h.Ctx) {
	n := c.Pick(60, 400)
	for k := 0; k < n; k++ {
		id := fmt.Sprintf("fw%d", k)
		if c.Case(id) {
			fwHistory(c, id, "C08")
		}
	}
	for k := 0; k < c.Pick(2, 12); k++ {
		id := fmt.Sprintf("free%d", k)
		if c.Case(id) {
			c08FreeRun(c, id, c.Rng(id))
		}
	}
	if c.Batch%4 == 0 || c.Thorough() {
		id := "backlog"
		if c.Case(id) {
			c08Backlog(c, id, c.Rng(id))
		}
	}
	for k := 0; k < c.Pick(2, 10); k++ {
		id := fmt.Sprintf("retx%d", k)
		if c.Case(id) {
			c08Retx(c, id, c.Rng(id))
		}
	}
	for k := 0; k < c.Pick(2, 10); k++ {
		id := fmt.Sprintf("dnlburst%d", k)
		if c.Case(id) {
			c08DnlBurst(c, id, c.Rng(id))
		}
	}
	nf := c.Pick(80, 800)
	for k := 0; k < nf; k++ {
		id := fmt.Sprintf("fib%d", k)
		if c.Case(id) {
			runFibHistory(c, id, c.Rng(id), "C08")
		}
		for _, algo := range []string{"nametree", "hashtable"} {
			id := fmt.Sprintf("rib%d-%s", k, algo)
			if c.Case(id) {
				runRibHistory(c, id, c.Rng(fmt.Sprintf("rib%d", k)).Int63(), algo, "C08")
			}
		}
	}
}

func init() {
	h.Register(&h.Prop{
		ID: "C08", Level: "exploration",
		Rule: "(a) forwarder histories as in C01/C02 with lifetimes of 20/40 ms, retransmissions, Data, cache hits, capacity 2-4 (constant eviction), dead-nonce lifetime 60 ms: after every step a structural walk of the PIT/CS tree (hook) must find every PIT entry in the expiry queue, PIT/CS counters == entries found == token-map / index / LRU-queue sizes, no node off the path to a live entry; " +
			"at the end, 120 ms after the last packet and after driving the reaper until the queue stops shrinking: PIT empty, tree == exactly the paths to live cache entries, dead-nonce list empty after its lifetime (also after a burst of 120-420 Interests expiring together); (b) the C05 FIB histories and C06 RIB histories with a structural check after every op (tree nodes == union of paths to live entries; hash table real/virtual tables == live prefixes and their m-prefixes; RIB nodes == paths to entries with routes) and after a final teardown; " +
			"distinct = model decision classes reached plus (op, shape) classes of the FIB/RIB histories",
		Assumptions: []string{"quiescence is reached by driving the reaper through a hook, not by waiting for its timer", "a missed deadline with an intact invariant would be reported as inconclusive; leak detection itself is structural and clock-independent", "hooks: fw/table/verif_hooks.go, fw/fw/verif_hooks.go"},
		Batches:     func(t bool) int { return 16 },
		ChildTimeoutS: func(t bool) int {
			if t {
				return 3000
			}
			return 600
		},
		Run:         c08Run,
		MinDistinct: 60,
		Floors:      map[string]int64{"structure_checks": 2000, "quiescence_checks": 50, "fib_struct_checks": 1000, "rib_struct_checks": 1000},
	})
}

// ---- C09: scope classification of real transports (a face towards a non-loopback peer is non-local)

func c09Transports(c *h.Ctx) {
	fwenvLoadDefault()
	type tc struct {
		kind, host string
		ver        int
		local      bool
	}
	cases := []tc{
		{"udp", "127.0.0.1", 4, true}, {"udp", "127.44.55.66", 4, true}, {"udp", "::1", 6, true},
		{"udp", "192.0.2.77", 4, false}, {"udp", "10.9.8.7", 4, false}, {"udp", "fd00::77", 6, false},
		{"tcp", "127.0.0.1", 4, true}, {"tcp", "127.1.2.3", 4, true}, {"tcp", "::1", 6, true},
		{"tcp", "192.0.2.77", 4, false}, {"tcp", "203.0.113.5", 4, false}, {"tcp", "2001:db8::5", 6, false},
	}
	for i, t := range cases {
		id := fmt.Sprintf("transport%d", i)
		if !c.Case(id) {
			continue
		}
		c.Eval(1)
		var scope defn.Scope = defn.Unknown
		built := false
		port := uint16(20000 + c.Batch*50 + i)
		_ = h.Guard(func() {
			switch t.kind {
			case "udp":
				remote := defn.MakeUDPFaceURI(t.ver, t.host, 6363)
				lh := "127.0.0.1"
				if t.ver == 6 {
					lh = "::1"
				}
				if !t.local {
					lh = map[int]string{4: "0.0.0.0", 6: "::"}[t.ver]
				}
				local := defn.MakeUDPFaceURI(t.ver, lh, port)
				tr, err := face.MakeUnicastUDPTransport(remote, local, face.PersistencyPersistent)
				if err == nil && tr != nil {
					scope, built = tr.Scope(), true
					tr.Close()
				}
			case "tcp":
				remote := defn.MakeTCPFaceURI(t.ver, t.host, 9)
				tr, err := face.MakeUnicastTCPTransport(remote, nil, face.PersistencyPersistent)
				if err == nil && tr != nil {
					scope, built = tr.Scope(), true
					tr.Close()
				}
			}
		})
		if !built {
			c.Count("transports_not_constructible", 1)
			continue
		}
		c.Count("transports_classified", 1)
		c.Distinct(fmt.Sprintf("transport|%s|v%d|local=%v", t.kind, t.ver, t.local))
		want := defn.NonLocal
		if t.local {
			want = defn.Local
		}
		if scope != want {
			c.Violation(fmt.Sprintf("C09:transport-scope-wrong:%s:peer-loopback=%v", t.kind, t.local), id, fmt.Sprintf("a %s face towards %s is classified as scope %d (local=1, non-local=0): /localhost traffic would be accepted from / sent to it", t.kind, t.host, scope),
				map[string]any{"kind": t.kind, "peer": t.host})
		}
	}
}

// c09ConnectedTCP: TCP faces whose connection is really established (dialled through the
// transport's own receive loop, and accepted) towards this host's non-loopback address and
// towards loopback: the scope the forwarder consults must stay right after the connection is up.
func c09ConnectedTCP(c *h.Ctx) {
	fwenvLoadDefault()
	hosts := []string{"127.0.0.1"}
	if as, err := net.InterfaceAddrs(); err == nil {
		for _, a := range as {
			if ipn, ok := a.(*net.IPNet); ok && ipn.IP.To4() != nil && !ipn.IP.IsLoopback() {
				hosts = append(hosts, ipn.IP.String())
				break
			}
		}
	}
	if len(hosts) == 1 {
		c.Note("connected_tcp_nonloopback", "this host has no non-loopback IPv4 address: only the loopback case ran")
	}
	for i, host := range hosts {
		id := fmt.Sprintf("tcpconn%d", i)
		if !c.Case(id) {
			continue
		}
		c.Eval(1)
		loop := net.ParseIP(host).IsLoopback()
		want := defn.NonLocal
		if loop {
			want = defn.Local
		}
		ln, err := net.Listen("tcp4", net.JoinHostPort(host, "0"))
		if err != nil {
			c.Note("connected_tcp_listen_error", err.Error())
			continue
		}
		port := uint16(ln.Addr().(*net.TCPAddr).Port)
		accepted := make(chan net.Conn, 1)
		go func() {
			conn, err := ln.Accept()
			if err != nil {
				accepted <- nil
				return
			}
			accepted <- conn
		}()
		var dialScope, acceptScope defn.Scope = defn.Unknown, defn.Unknown
		dialed, acceptedOK := false, false
		pi := h.Guard(func() {
			tr, err := face.MakeUnicastTCPTransport(defn.MakeTCPFaceURI(4, host, port), nil, face.PersistencyPersistent)
			if err != nil || tr == nil {
				return
			}
			ls := face.MakeNDNLPLinkService(tr, face.MakeNDNLPLinkServiceOptions())
			ls.Run(nil)
			var conn net.Conn
			select {
			case conn = <-accepted:
			case <-time.After(5 * time.Second):
			}
			if conn == nil {
				tr.Close()
				for k := 0; k < 300 && face.FaceTable.Get(ls.FaceID()) != nil; k++ {
					time.Sleep(10 * time.Millisecond)
				}
				return
			}
			// the transport marks itself running after the dial has succeeded
			for k := 0; k < 300 && !tr.IsRunning(); k++ {
				time.Sleep(10 * time.Millisecond)
			}
			if tr.IsRunning() {
				dialed = true
				dialScope = ls.Scope()
			}
			if at, err := face.AcceptUnicastTCPTransport(conn, nil, face.PersistencyPersistent); err == nil && at != nil {
				acceptedOK = true
				acceptScope = at.Scope()
			}
			tr.Close()
			conn.Close()
			// the link service leaves the face table asynchronously: wait, so that its id cannot
			// be unregistered underneath a later simulated face with the same id
			for k := 0; k < 300 && face.FaceTable.Get(ls.FaceID()) != nil; k++ {
				time.Sleep(10 * time.Millisecond)
			}
		})
		ln.Close()
		if pi != nil {
			c.Note("connected_tcp_panic", pi.Value)
			continue
		}
		for _, x := range []struct {
			side  string
			ok    bool
			scope defn.Scope
		}{{"dialled", dialed, dialScope}, {"accepted", acceptedOK, acceptScope}} {
			if !x.ok {
				c.Count("connected_tcp_not_established", 1)
				continue
			}
			c.Count("connected_tcp_classified", 1)
			c.Distinct(fmt.Sprintf("transport|tcp-connected|%s|loopback=%v", x.side, loop))
			if x.scope != want {
				c.Violation(fmt.Sprintf("C09:transport-scope-wrong:tcp-connected:%s:peer-loopback=%v", x.side, loop), id,
					fmt.Sprintf("a %s TCP face with an established connection to %s is classified as scope %d (local=1, non-local=0)", x.side, host, x.scope), map[string]any{"peer": host, "side": x.side})
			}
		}
	}
}

func fwenvLoadDefault() { fwenv.Load(fwenv.Config()) }
