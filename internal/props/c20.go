package props

import (
	"crypto/sha256"
	"errors"
	"fmt"
	"math/rand"
	"runtime"
	"sort"
	"sync"
	"sync/atomic"
	"time"

	enc "github.com/named-data/ndnd/std/encoding"
	"github.com/named-data/ndnd/std/engine/basic"
	"github.com/named-data/ndnd/std/engine/dummy"
	"github.com/named-data/ndnd/std/ndn"
	mgmt "github.com/named-data/ndnd/std/ndn/mgmt_2022"
	spec "github.com/named-data/ndnd/std/ndn/spec_2022"
	sec "github.com/named-data/ndnd/std/security"

	"verif/internal/gen"
	"verif/internal/h"
	"verif/internal/simeng"
	"verif/internal/tlvwalk"
)

// ---- C20: every expressed Interest resolves exactly once, only with Data that satisfies it

type c20Pending struct {
	id       int
	name     enc.Name // without implicit digest
	digest   []byte
	cbp      bool
	tExpress time.Time
	life     time.Duration
	results  []string // callbacks observed
	resolved bool
	dataName enc.Name
	tResolve time.Time
	kind     ndn.InterestResult
}

type c20Event struct {
	Ev       string
	Name     string `json:",omitempty"`
	CBP      bool   `json:",omitempty"`
	Digest   string `json:",omitempty"`
	LP       bool   `json:",omitempty"` // Data delivered inside an LpPacket
	LifeMs   int    `json:",omitempty"`
	Id       int    `json:",omitempty"`
	Ms       int    `json:",omitempty"`
	Observed string `json:",omitempty"`
}

type c20Run struct {
	c        *h.Ctx
	id       string
	eng      *basic.Engine
	face     *simeng.Face
	tm       c20Clock
	pend     []*c20Pending
	hist     []*c20Event
	fired    []int // ids whose callback ran during the current event
	handlers map[string]enc.Name
	called   []string // handler prefixes called during the current event
	incoming []ndn.InterestHandlerArgs
	inMeta   []c20In
	dataWire map[string][]byte
	stop     bool
	r        *rand.Rand // separate stream for delivery framing choices
}

// c20Clock is a virtual clock the history can advance: the harness timer or the repository's.
type c20Clock interface {
	ndn.Timer
	Advance(d time.Duration) int
}

type repoClock struct{ *dummy.Timer }

func (rc repoClock) Advance(d time.Duration) int { rc.MoveForward(d); return 0 }

type c20In struct {
	deadline time.Time
	name     enc.Name
	zero     bool // explicit InterestLifetime of 0: a reply at the very instant of arrival is left open
}

func (cr *c20Run) fail(key, what string, extra map[string]any) {
	d := map[string]any{"history": cr.hist}
	for k, v := range extra {
		d[k] = v
	}
	cr.c.Violation(key, cr.id, what, d)
	cr.stop = true
}

func c20Data(name enc.Name) []byte {
	_, w, err := makeData(name, nil, []byte("content of "+name.String()))
	if err != nil {
		panic(err)
	}
	return w
}

func (cr *c20Run) wireFor(name enc.Name) []byte {
	k := nkey(name)
	if w, ok := cr.dataWire[k]; ok {
		return w
	}
	w := c20Data(name)
	cr.dataWire[k] = w
	return w
}

func (cr *c20Run) express(name enc.Name, cbp bool, withDigest, wrongDigest bool, life time.Duration, ev *c20Event) {
	p := &c20Pending{id: len(cr.pend), name: name.Clone(), cbp: cbp, tExpress: cr.tm.Now(), life: life}
	final := name.Clone()
	if withDigest {
		dg := sha256.Sum256(cr.wireFor(name))
		if wrongDigest {
			dg[0] ^= 0xff
		}
		p.digest = dg[:]
		final = append(final, enc.Component{Typ: enc.TypeImplicitSha256DigestComponent, Val: dg[:]})
		ev.Digest = "right"
		if wrongDigest {
			ev.Digest = "wrong"
		}
	}
	cfg := &ndn.InterestConfig{CanBePrefix: cbp, Lifetime: &life}
	nonce := uint64(1000 + p.id)
	cfg.Nonce = &nonce
	ei, err := spec.Spec{}.MakeInterest(final, cfg, nil, nil)
	if err != nil {
		cr.c.Inconclusive("MakeInterest failed: " + err.Error())
		cr.stop = true
		return
	}
	cr.pend = append(cr.pend, p)
	ev.Id = p.id
	id := p.id
	err = cr.eng.Express(ei, func(a ndn.ExpressCallbackArgs) {
		q := cr.pend[id]
		q.results = append(q.results, fmt.Sprint(a.Result))
		cr.fired = append(cr.fired, id)
		if !q.resolved {
			q.resolved = true
			q.kind = a.Result
			q.tResolve = cr.tm.Now()
			if a.Result == ndn.InterestResultData && a.Data != nil {
				q.dataName = a.Data.Name().Clone()
			}
		}
	})
	if err != nil {
		cr.fail("C20:express-error", "Express returned an error: "+err.Error(), nil)
	}
	cr.face.TakeSent()
}

func (cr *c20Run) checkOnce() bool {
	for _, p := range cr.pend {
		if len(p.results) > 1 {
			cr.fail("C20:callback-more-than-once", fmt.Sprintf("the callback of Interest #%d (%s) ran %d times: %v", p.id, p.name, len(p.results), p.results), nil)
			return false
		}
	}
	return true
}

var c20Watch *h.CallWatch

func c20History(c *h.Ctx, id string, r *rand.Rand) {
	c.Eval(1)
	cr := &c20Run{c: c, id: id, handlers: map[string]enc.Name{}, dataWire: map[string][]byte{}, r: c.Rng(id + "/framing")}
	if cr.r.Intn(2) == 0 {
		cr.tm = simeng.NewTimer()
	} else {
		cr.tm = repoClock{dummy.NewTimer()} // the repository's own virtual timer (an anchor of this property)
		c.Count("histories_on_repository_timer", 1)
	}
	// a second, independent engine with its own timer lives next to the one under test (an
	// application may run several): it expresses one Interest now; at the end of the history its
	// clock is moved past the lifetime and that Interest must have timed out exactly once
	var byTimer *dummy.Timer
	var byResults []ndn.InterestResult
	var byMu sync.Mutex
	if _, isRepo := cr.tm.(repoClock); isRepo {
		byTimer = dummy.NewTimer()
		byFace := simeng.NewFace(true)
		byEng := basic.NewEngine(byFace, byTimer, sec.NewSha256IntSigner(byTimer), func(enc.Name, enc.Wire, ndn.Signature) bool { return true })
		if byEng.Start() == nil {
			bn, _ := enc.NameFromStr("/bystander")
			life := 100 * time.Millisecond
			if bi, err := (spec.Spec{}).MakeInterest(bn, &ndn.InterestConfig{Lifetime: &life}, nil, nil); err == nil {
				_ = byEng.Express(bi, func(a ndn.ExpressCallbackArgs) {
					byMu.Lock()
					byResults = append(byResults, a.Result)
					byMu.Unlock()
				})
			}
		} else {
			byTimer = nil
		}
	}
	defer func() {
		if byTimer == nil || cr.stop {
			return
		}
		byTimer.MoveForward(10 * time.Second)
		byMu.Lock()
		defer byMu.Unlock()
		c.Count("bystander_engine_checks", 1)
		if len(byResults) != 1 || byResults[0] != ndn.InterestResultTimeout {
			cr.fail("C20:second-engine-interest-not-resolved-once", fmt.Sprintf("an Interest expressed on a second, independent engine (own timer) was resolved %v after its clock moved 10 s past a 100 ms lifetime (exactly one Timeout expected)", byResults), nil)
		}
	}()
	cr.face = simeng.NewFace(true)
	cr.eng = basic.NewEngine(cr.face, cr.tm, sec.NewSha256IntSigner(cr.tm), func(enc.Name, enc.Wire, ndn.Signature) bool { return true })
	u := gen.NewUniverse(3, false)
	attach := func(nm enc.Name, when string) {
		ev := &c20Event{Ev: "attach" + when, Name: nm.String()}
		cr.hist = append(cr.hist, ev)
		key := nkey(nm)
		err := cr.eng.AttachHandler(nm.Clone(), func(a ndn.InterestHandlerArgs) {
			cr.called = append(cr.called, key)
			cr.incoming = append(cr.incoming, a)
		})
		_, had := cr.handlers[key]
		if had != (err != nil) {
			cr.fail("C20:attach-result", fmt.Sprintf("AttachHandler(%s) returned %v although a handler %s attached there", nm, err, map[bool]string{true: "is already", false: "is not"}[had]), nil)
		}
		if !had && err == nil {
			cr.handlers[key] = nm.Clone()
		}
		c.Distinct("attach" + when)
	}
	if r.Intn(3) == 0 {
		// an application may attach its handlers first and start the engine afterwards
		for k := 1 + r.Intn(2); k > 0; k-- {
			attach(u.Pick(r), "-before-start")
		}
	}
	if err := cr.eng.Start(); err != nil {
		c.Inconclusive("engine start: " + err.Error())
		return
	}
	lifes := []time.Duration{100 * time.Millisecond, 500 * time.Millisecond, 4 * time.Second}
	n := 25 + r.Intn(30)
	pick := func() enc.Name {
		nm := u.Pick(r)
		if len(nm) == 0 {
			nm = u.PickDepth(r, 1)
		}
		return nm
	}
	if c20Watch == nil {
		// an engine call that never returns (a lock left held) must not silently starve the run: a
		// step of virtual-time history takes microseconds, 30 s of wall time mean it hangs
		c20Watch = h.NewCallWatch(30 * time.Second)
	}
	defer c20Watch.End()
	for step := 0; step < n && !cr.stop; step++ {
		c20Watch.Begin(fmt.Sprintf("%s/step%d", id, step))
		cr.fired, cr.called = nil, nil
		switch k := r.Intn(100); {
		case k < 34: // EXPRESS
			nm := pick()
			if len(cr.pend) > 0 && r.Intn(3) == 0 { // duplicates and relatives of pending names
				nm = cr.pend[r.Intn(len(cr.pend))].name.Clone()
				switch r.Intn(4) {
				case 0:
					nm = u.Extend(r, nm, 1)
				case 1:
					if len(nm) > 1 {
						nm = nm[:len(nm)-1]
					}
				}
			}
			life := lifes[r.Intn(len(lifes))]
			ev := &c20Event{Ev: "express", Name: nm.String(), CBP: r.Intn(3) == 0, LifeMs: int(life / time.Millisecond)}
			cr.hist = append(cr.hist, ev)
			wd := r.Intn(6) == 0
			cr.express(nm, ev.CBP, wd, wd && r.Intn(2) == 0, life, ev)
			if len(cr.fired) > 0 {
				cr.fail("C20:callback-during-express", "a callback ran while expressing an Interest", nil)
			}
			c.Distinct(fmt.Sprintf("express|cbp=%v|digest=%s", ev.CBP, ev.Digest))
		case k < 60: // DATA
			nm := pick()
			if len(cr.pend) > 0 && r.Intn(4) != 0 {
				nm = cr.pend[r.Intn(len(cr.pend))].name.Clone()
				switch r.Intn(5) {
				case 0:
					nm = u.Extend(r, nm, 2)
				case 1:
					if len(nm) > 1 {
						nm = nm[:len(nm)-1]
					}
				}
			}
			ev := &c20Event{Ev: "data", Name: nm.String()}
			cr.hist = append(cr.hist, ev)
			cr.stepData(nm, ev)
		case k < 68: // NACK
			nm := pick()
			if len(cr.pend) > 0 && r.Intn(4) != 0 {
				nm = cr.pend[r.Intn(len(cr.pend))].name.Clone()
			}
			ev := &c20Event{Ev: "nack", Name: nm.String()}
			cr.hist = append(cr.hist, ev)
			cr.stepNack(nm, ev)
		case k < 80: // ADVANCE
			ms := []int{1, 50, 105, 111, 400, 520, 1000, 4100}[r.Intn(8)]
			ev := &c20Event{Ev: "advance", Ms: ms}
			cr.hist = append(cr.hist, ev)
			cr.stepAdvance(time.Duration(ms)*time.Millisecond, ev)
		case k < 86: // ATTACH
			attach(u.Pick(r), "")
		case k < 90: // DETACH
			var nm enc.Name
			if ks := sortedKeys(cr.handlers); len(ks) > 0 && r.Intn(4) != 0 {
				nm = cr.handlers[ks[r.Intn(len(ks))]].Clone()
			} else {
				nm = u.Pick(r)
			}
			ev := &c20Event{Ev: "detach", Name: nm.String()}
			cr.hist = append(cr.hist, ev)
			_ = cr.eng.DetachHandler(nm.Clone())
			delete(cr.handlers, nkey(nm))
			c.Distinct("detach")
		case k < 91 && len(cr.handlers) > 0 && r.Intn(2) == 0: // ROUTE WITHDRAWAL: the application withdraws a prefix announcement (its handlers stay attached)
			emptyPending := false
			for _, p := range cr.pend {
				if !p.resolved && len(p.name) == 0 {
					emptyPending = true
				}
			}
			if emptyPending {
				break
			}
			pfx := cr.handlers[sortedKeys(cr.handlers)[r.Intn(len(cr.handlers))]].Clone()
			if len(pfx) > 0 && r.Intn(2) == 0 {
				pfx = pfx[:len(pfx)-1] // a shorter prefix: handlers sit strictly below it
			}
			ev := &c20Event{Ev: "unregister-route", Name: pfx.String()}
			cr.hist = append(cr.hist, ev)
			cr.face.TakeSent()
			done := make(chan error, 1)
			go func() { done <- cr.eng.UnregisterRoute(pfx.Clone()) }()
			var cmd []byte
			for dl := time.Now().Add(5 * time.Second); cmd == nil && time.Now().Before(dl); time.Sleep(100 * time.Microsecond) {
				if sent := cr.face.TakeSent(); len(sent) > 0 {
					cmd = sent[0]
				}
			}
			if cmd == nil {
				cr.c.Inconclusive("the rib/unregister command Interest never appeared on the face")
				cr.stop = true
				break
			}
			in, _, perr := spec.Spec{}.ReadInterest(enc.NewBufferReader(cmd))
			if perr != nil {
				cr.fail("C20:command-interest-malformed", "the engine's rib/unregister command Interest does not decode: "+perr.Error(), nil)
				return
			}
			resp := &mgmt.ControlResponse{Val: &mgmt.ControlResponseVal{StatusCode: 200, StatusText: "OK", Params: &mgmt.ControlArgs{Name: pfx.Clone()}}}
			rd, derr := spec.Spec{}.MakeData(in.Name(), &ndn.DataConfig{}, resp.Encode(), sec.NewSha256Signer())
			if derr != nil {
				cr.c.Inconclusive("cannot build the management response")
				cr.stop = true
				break
			}
			if pi := h.Guard(func() { _ = cr.face.Feed(rd.Wire.Join()) }); pi != nil {
				cr.fail("C20:panic:mgmt-response:"+pi.Frame+":"+pi.Class, "engine panicked on a management response: "+pi.Value, nil)
				return
			}
			select {
			case <-done:
			case <-time.After(10 * time.Second):
				cr.fail("C20:unregister-route-never-returns", "UnregisterRoute did not return within 10 s of its command being answered with status 200", nil)
				return
			}
			c.Count("route_withdrawals", 1)
			c.Distinct("unregister-route")
		case k < 91 && len(cr.pend) > 0: // FACE ERROR: the transport reports an error while Interests are pending
			ev := &c20Event{Ev: "face-error"}
			cr.hist = append(cr.hist, ev)
			if pi := h.Guard(func() { _ = cr.face.RaiseError(errors.New("read: connection reset by peer")) }); pi != nil {
				cr.fail("C20:panic:face-error:"+pi.Frame+":"+pi.Class, "engine panicked in its face error callback: "+pi.Value, nil)
				return
			}
			ev.Observed = fmt.Sprint(cr.fired)
			// whatever the engine decides to tell the callbacks now, it is their one and only result, and a
			// Timeout among them is subject to the same rule as any other: not before the lifetime
			for _, id := range cr.fired {
				p := cr.pend[id]
				if len(p.results) == 1 && p.kind == ndn.InterestResultTimeout && p.tResolve.Before(p.tExpress.Add(p.life)) {
					cr.fail("C20:timeout-too-early", fmt.Sprintf("Interest #%d was reported as timed out %v after it was expressed (on a face error), its lifetime is %v", id, p.tResolve.Sub(p.tExpress), p.life), nil)
					return
				}
			}
			c.Count("face_errors_with_pending_interests", 1)
			c.Distinct("face-error")
		case k < 96: // INCOMING INTEREST
			nm := pick()
			if r.Intn(2) == 0 {
				nm = u.Extend(r, nm, 2)
			}
			// 0 = no InterestLifetime element (default 4 s); -1 = an explicit InterestLifetime of 0 ms
			lifeMs := []int{0, 100, 1000, -1}[r.Intn(4)]
			ev := &c20Event{Ev: "incoming-interest", Name: nm.String(), LifeMs: lifeMs}
			cr.hist = append(cr.hist, ev)
			cr.stepIncoming(nm, lifeMs, ev)
		default: // REPLY to an earlier incoming Interest
			if len(cr.incoming) == 0 {
				continue
			}
			i := r.Intn(len(cr.incoming))
			ev := &c20Event{Ev: "reply", Id: i}
			cr.hist = append(cr.hist, ev)
			cr.stepReply(i, ev)
		}
		if !cr.stop {
			cr.checkOnce()
		}
	}
	if cr.stop {
		return
	}
	// ---- end: a long advance resolves everything - also when the application stops the engine
	// first (pending Interests are not silently forgotten: each still resolves, by timeout)
	if r.Intn(4) == 0 {
		cr.hist = append(cr.hist, &c20Event{Ev: "engine-stop"})
		if pi := h.Guard(func() { _ = cr.eng.Stop() }); pi != nil {
			cr.fail("C20:panic:stop:"+pi.Frame+":"+pi.Class, "Engine.Stop panicked: "+pi.Value, nil)
			return
		}
		c.Count("histories_ending_with_engine_stop", 1)
	}
	cr.fired = nil
	ev := &c20Event{Ev: "advance", Ms: 10000}
	cr.hist = append(cr.hist, ev)
	cr.stepAdvance(10*time.Second, ev)
	if cr.stop {
		return
	}
	for _, p := range cr.pend {
		if len(p.results) != 1 {
			cr.fail("C20:never-resolved", fmt.Sprintf("Interest #%d (%s) was resolved %d times by the end of the history (10 s after the last event)", p.id, p.name, len(p.results)), nil)
			return
		}
	}
	c.Count("interests_expressed", int64(len(cr.pend)))
	hh := cr.hist
	if len(hh) > 10 {
		hh = hh[:10]
	}
	c.Sample(map[string]any{"events": len(cr.hist), "first_events": hh})
}

// satisfied: does Data named dn with wire w satisfy p?
func (p *c20Pending) satisfiedBy(dn enc.Name, w []byte) bool {
	if !(refNameCompare(p.name, dn) == 0 || (p.cbp && refIsPrefix(p.name, dn))) {
		return false
	}
	if p.digest != nil {
		dg := sha256.Sum256(w)
		if string(dg[:]) != string(p.digest) {
			return false
		}
	}
	return true
}

func (cr *c20Run) stepData(nm enc.Name, ev *c20Event) {
	w := cr.wireFor(nm)
	now := cr.tm.Now()
	must := map[int]bool{}
	may := map[int]bool{}
	for _, p := range cr.pend {
		if p.resolved || !p.satisfiedBy(nm, w) {
			continue
		}
		if now.Before(p.tExpress.Add(p.life)) {
			must[p.id] = true
		} else {
			may[p.id] = true // lifetime over but the timeout has not been delivered yet
		}
	}
	frame := w
	if cr.r.Intn(3) == 0 { // the Data arrives inside a link-protocol packet (with a PIT token), as a forwarder sends it
		tok := make([]byte, []int{1, 6, 8}[cr.r.Intn(3)])
		cr.r.Read(tok)
		frame = tlvwalk.TLV(0x64, append(tlvwalk.TLV(0x62, tok), tlvwalk.TLV(0x50, w)...))
		ev.LP = true
		cr.c.Count("data_events_lp_wrapped", 1)
	}
	if pi := h.Guard(func() { _ = cr.face.Feed(frame) }); pi != nil {
		cr.fail("C20:panic:data:"+pi.Frame+":"+pi.Class, "engine panicked on Data: "+pi.Value, nil)
		return
	}
	sort.Ints(cr.fired)
	ev.Observed = fmt.Sprint(cr.fired)
	cr.c.Count("data_events", 1)
	for _, id := range cr.fired {
		p := cr.pend[id]
		if len(p.results) == 1 && p.kind != ndn.InterestResultData {
			cr.fail("C20:wrong-result-kind-on-data", fmt.Sprintf("Interest #%d got result %v while Data arrived", id, p.kind), nil)
			return
		}
		if !must[id] && !may[id] {
			if len(p.results) > 1 {
				cr.fail("C20:callback-more-than-once", fmt.Sprintf("Interest #%d (%s) was resolved again by Data %s", id, p.name, nm), nil)
			} else {
				cr.fail("C20:resolved-by-non-satisfying-data", fmt.Sprintf("Interest #%d (%s, CanBePrefix=%v, digest=%v) was resolved with Data %s, which does not satisfy it", id, p.name, p.cbp, p.digest != nil, nm), nil)
			}
			return
		}
		if refNameCompare(p.dataName, nm) != 0 {
			cr.fail("C20:callback-data-name", fmt.Sprintf("Interest #%d callback carries Data %s while Data %s arrived", id, p.dataName, nm), nil)
			return
		}
	}
	for id := range must {
		if len(cr.pend[id].results) == 0 {
			p := cr.pend[id]
			rel := "equal-name"
			if len(nm) > len(p.name) {
				rel = "prefix"
			}
			cr.fail("C20:data-did-not-resolve-pending:"+rel, fmt.Sprintf("Data %s arrived but pending Interest #%d (%s, CanBePrefix=%v), which it satisfies and whose lifetime has not elapsed, was not resolved", nm, id, p.name, p.cbp),
				map[string]any{"pending_other": cr.pendingDesc()})
			return
		}
	}
	cr.c.Distinct(fmt.Sprintf("data|must=%d|may=%d", min(len(must), 3), min(len(may), 2)))
}

func (cr *c20Run) pendingDesc() []string {
	var out []string
	for _, p := range cr.pend {
		if !p.resolved {
			out = append(out, fmt.Sprintf("#%d %s cbp=%v digest=%v", p.id, p.name, p.cbp, p.digest != nil))
		}
	}
	return out
}

func (cr *c20Run) stepNack(nm enc.Name, ev *c20Event) {
	// LpPacket{Nack{reason 150}, Fragment: Interest(nm)}
	in := tlvwalk.TLV(5, append(nm.Bytes(), tlvwalk.TLV(0x0a, []byte{0, 0, 0, 1})...))
	lp := tlvwalk.TLV(0x64, append(tlvwalk.TLV(0x0320, tlvwalk.TLV(0x0321, []byte{150})), tlvwalk.TLV(0x50, in)...))
	if pi := h.Guard(func() { _ = cr.face.Feed(lp) }); pi != nil {
		cr.fail("C20:panic:nack:"+pi.Frame+":"+pi.Class, "engine panicked on Nack: "+pi.Value, nil)
		return
	}
	ev.Observed = fmt.Sprint(cr.fired)
	for _, id := range cr.fired {
		p := cr.pend[id]
		if len(p.results) > 1 {
			continue // reported by checkOnce
		}
		if p.kind != ndn.InterestResultNack {
			cr.fail("C20:wrong-result-kind-on-nack", fmt.Sprintf("Interest #%d got result %v while a Nack arrived", id, p.kind), nil)
			return
		}
		full := p.name
		if refNameCompare(full, nm) != 0 || p.digest != nil {
			cr.fail("C20:nack-for-other-name", fmt.Sprintf("Interest #%d (%s) was resolved with the Nack for %s", id, p.name, nm), nil)
			return
		}
	}
	cr.c.Distinct(fmt.Sprintf("nack|resolved=%d", min(len(cr.fired), 3)))
}

func (cr *c20Run) stepAdvance(d time.Duration, ev *c20Event) {
	if pi := h.Guard(func() { cr.tm.Advance(d) }); pi != nil {
		cr.fail("C20:panic:timer:"+pi.Frame+":"+pi.Class, "engine panicked in a timer callback: "+pi.Value, nil)
		return
	}
	now := cr.tm.Now()
	ev.Observed = fmt.Sprint(cr.fired)
	for _, id := range cr.fired {
		p := cr.pend[id]
		if len(p.results) > 1 {
			continue
		}
		if p.kind != ndn.InterestResultTimeout {
			cr.fail("C20:wrong-result-kind-on-timer", fmt.Sprintf("Interest #%d got result %v from a timer", id, p.kind), nil)
			return
		}
		if p.tResolve.Before(p.tExpress.Add(p.life)) {
			cr.fail("C20:timeout-too-early", fmt.Sprintf("Interest #%d timed out %v after it was expressed, its lifetime is %v", id, p.tResolve.Sub(p.tExpress), p.life), nil)
			return
		}
	}
	// bounded progress: every Interest whose lifetime + 10 ms margin has passed is resolved
	for _, p := range cr.pend {
		if !p.resolved && !now.Before(p.tExpress.Add(p.life).Add(11*time.Millisecond)) {
			cr.fail("C20:timeout-not-delivered", fmt.Sprintf("Interest #%d (%s) is unresolved %v after it was expressed (lifetime %v)", p.id, p.name, now.Sub(p.tExpress), p.life),
				map[string]any{"pending_other": cr.pendingDesc()})
			return
		}
	}
	cr.c.Distinct(fmt.Sprintf("advance|timeouts=%d", min(len(cr.fired), 3)))
	cr.c.Count("timeouts", int64(len(cr.fired)))
}

func (cr *c20Run) stepIncoming(nm enc.Name, lifeMs int, ev *c20Event) {
	body := append(nm.Bytes(), tlvwalk.TLV(0x0a, []byte{0, 0, 0, 7})...)
	if lifeMs > 0 {
		body = append(body, tlvwalk.TLV(0x0c, natBytes(uint64(lifeMs)))...)
	} else if lifeMs < 0 {
		body = append(body, tlvwalk.TLV(0x0c, []byte{0})...)
		cr.c.Count("incoming_interests_lifetime_zero", 1)
	}
	in := tlvwalk.TLV(5, body)
	if cr.r.Intn(3) == 0 { // the Interest arrives inside a link-protocol packet with a PIT token, as a forwarder sends it
		tok := make([]byte, []int{1, 6, 8}[cr.r.Intn(3)])
		cr.r.Read(tok)
		in = tlvwalk.TLV(0x64, append(tlvwalk.TLV(0x62, tok), tlvwalk.TLV(0x50, in)...))
		ev.LP = true
		cr.c.Count("incoming_interests_lp_wrapped", 1)
	}
	before := len(cr.incoming)
	if pi := h.Guard(func() { _ = cr.face.Feed(in) }); pi != nil {
		cr.fail("C20:panic:interest:"+pi.Frame+":"+pi.Class, "engine panicked on an incoming Interest: "+pi.Value, nil)
		return
	}
	// expected handler: longest attached prefix (harness map)
	want := ""
	for l := len(nm); l >= 0; l-- {
		if _, ok := cr.handlers[nkey(nm[:l])]; ok {
			want = nkey(nm[:l])
			break
		}
	}
	got := ""
	if len(cr.called) > 0 {
		got = cr.called[0]
	}
	ev.Observed = got
	if len(cr.called) > 1 || got != want {
		cr.fail("C20:wrong-handler", fmt.Sprintf("incoming Interest %s was handed to handler(s) %v, the longest attached prefix is %q (attached: %v)", nm, cr.called, want, sortedKeys(cr.handlers)), nil)
		return
	}
	life := 4 * time.Second
	if lifeMs > 0 {
		life = time.Duration(lifeMs) * time.Millisecond
	} else if lifeMs < 0 {
		life = 0
	}
	for i := before; i < len(cr.incoming); i++ {
		cr.inMeta = append(cr.inMeta, c20In{deadline: cr.tm.Now().Add(life), name: nm.Clone(), zero: lifeMs < 0})
	}
	cr.c.Distinct(fmt.Sprintf("incoming|handler=%v|depth=%d", want != "", len(nm)))
	cr.c.Count("incoming_interests", 1)
}

func (cr *c20Run) stepReply(i int, ev *c20Event) {
	a := cr.incoming[i]
	meta := cr.inMeta[i]
	w := cr.wireFor(meta.name)
	cr.face.TakeSent()
	var err error
	if pi := h.Guard(func() { err = a.Reply(enc.Wire{w}) }); pi != nil {
		cr.fail("C20:panic:reply:"+pi.Frame+":"+pi.Class, "Reply panicked: "+pi.Value, nil)
		return
	}
	sent := cr.face.TakeSent()
	now := cr.tm.Now()
	ev.Observed = fmt.Sprintf("sent=%d err=%v late=%v", len(sent), err, now.After(meta.deadline))
	if now.After(meta.deadline) {
		if len(sent) > 0 {
			cr.fail("C20:reply-after-deadline", fmt.Sprintf("a reply to Interest %s was transmitted %v after its deadline", meta.name, now.Sub(meta.deadline)), nil)
			return
		}
	} else if meta.zero && now.Equal(meta.deadline) {
		// don't-care
	} else if len(sent) != 1 {
		cr.fail("C20:reply-not-sent", fmt.Sprintf("a reply to Interest %s before its deadline transmitted %d packets (err=%v)", meta.name, len(sent), err), nil)
		return
	}
	cr.c.Distinct(fmt.Sprintf("reply|late=%v", now.After(meta.deadline)))
}

// c20Concurrent: real goroutines express, feed Data and advance the virtual clock at the same time
// (race-detector build); the exactly-once / correct-result oracle decides, race reports are diagnostics.
func c20Concurrent(c *h.Ctx, id string, r *rand.Rand) {
	c.Eval(1)
	tm := simeng.NewTimer()
	fc := simeng.NewFace(true)
	eng := basic.NewEngine(fc, tm, sec.NewSha256IntSigner(tm), func(enc.Name, enc.Wire, ndn.Signature) bool { return true })
	if err := eng.Start(); err != nil {
		c.Inconclusive("engine start: " + err.Error())
		return
	}
	fc.OnSend = func([]byte) {} // discard outgoing packets
	u := gen.NewUniverse(3, false)
	nInt := 30 + r.Intn(30)
	type rec struct {
		name     enc.Name
		cbp      bool
		life     time.Duration
		tExpress time.Time
		count    atomic.Int32
		kind     atomic.Int32
		dataName atomic.Value
		tResolve atomic.Int64
	}
	recs := make([]*rec, nInt)
	var names []enc.Name
	for i := range recs {
		nm := u.Pick(r)
		if len(nm) == 0 {
			nm = u.PickDepth(r, 1)
		}
		recs[i] = &rec{name: nm, cbp: r.Intn(3) == 0, life: []time.Duration{100 * time.Millisecond, 500 * time.Millisecond, 2 * time.Second}[r.Intn(3)]}
		names = append(names, nm)
	}
	wires := map[string][]byte{}
	for _, nm := range names {
		for _, x := range []enc.Name{nm, u.Extend(r, nm, 1)} {
			wires[nkey(x)] = c20Data(x)
		}
	}
	var wkeys []string
	for k := range wires {
		wkeys = append(wkeys, k)
	}
	sort.Strings(wkeys)
	seedD, seedT := r.Int63(), r.Int63()
	var wg sync.WaitGroup
	wg.Add(3)
	go func() { // expresser
		defer wg.Done()
		for i, rc := range recs {
			i, rc := i, rc
			life := rc.life
			nonce := uint64(5000 + i)
			ei, err := spec.Spec{}.MakeInterest(rc.name.Clone(), &ndn.InterestConfig{CanBePrefix: rc.cbp, Lifetime: &life, Nonce: &nonce}, nil, nil)
			if err != nil {
				continue
			}
			rc.tExpress = tm.Now()
			_ = eng.Express(ei, func(a ndn.ExpressCallbackArgs) {
				rc.count.Add(1)
				rc.kind.Store(int32(a.Result))
				rc.tResolve.Store(tm.Now().UnixNano())
				if a.Result == ndn.InterestResultData && a.Data != nil {
					rc.dataName.Store(a.Data.Name().Clone())
				}
			})
			if i%4 == 0 {
				runtime.Gosched()
			}
		}
	}()
	go func() { // data feeder
		defer wg.Done()
		rr := rand.New(rand.NewSource(seedD))
		for k := 0; k < 3*nInt; k++ {
			_ = fc.Feed(wires[wkeys[rr.Intn(len(wkeys))]])
			if k%3 == 0 {
				runtime.Gosched()
			}
		}
	}()
	go func() { // clock
		defer wg.Done()
		rr := rand.New(rand.NewSource(seedT))
		for k := 0; k < 60; k++ {
			tm.Advance(time.Duration(10+rr.Intn(80)) * time.Millisecond)
			runtime.Gosched()
		}
	}()
	done := make(chan struct{})
	go func() { wg.Wait(); close(done) }()
	select {
	case <-done:
	case <-time.After(60 * time.Second):
		c.Violation("C20:concurrent-deadlock", id, "expressing, feeding Data and advancing the clock concurrently did not finish within 60 s", nil)
		return
	}
	tm.Advance(10 * time.Second)
	for i, rc := range recs {
		if rc.tExpress.IsZero() {
			continue
		}
		n := rc.count.Load()
		det := map[string]any{"interest": rc.name.String(), "cbp": rc.cbp, "lifetime_ms": rc.life.Milliseconds(), "profile": "concurrent"}
		if n != 1 {
			c.Violation("C20:concurrent:callback-count", id, fmt.Sprintf("Interest #%d (%s) callback ran %d times under concurrent arrivals and timer expirations", i, rc.name, n), det)
			return
		}
		switch ndn.InterestResult(rc.kind.Load()) {
		case ndn.InterestResultData:
			dn, _ := rc.dataName.Load().(enc.Name)
			if !(refNameCompare(dn, rc.name) == 0 || (rc.cbp && refIsPrefix(rc.name, dn))) {
				c.Violation("C20:concurrent:resolved-by-non-satisfying-data", id, fmt.Sprintf("Interest #%d (%s, CanBePrefix=%v) resolved with Data %s", i, rc.name, rc.cbp, dn), det)
				return
			}
		case ndn.InterestResultTimeout:
			if time.Unix(0, rc.tResolve.Load()).Before(rc.tExpress.Add(rc.life)) {
				c.Violation("C20:concurrent:timeout-too-early", id, fmt.Sprintf("Interest #%d timed out before its lifetime", i), det)
				return
			}
		default:
			c.Violation("C20:concurrent:unexpected-result", id, fmt.Sprintf("Interest #%d resolved with result %d", i, rc.kind.Load()), det)
			return
		}
	}
	c.Count("concurrent_runs", 1)
	c.Count("concurrent_interests", int64(nInt))
	c.Distinct(fmt.Sprintf("concurrent|n=%d", nInt/10*10))
}

func c20Main(c *h.Ctx) {
	n := c.Pick(5000, 40000)
	for k := 0; k < n; k++ {
		id := fmt.Sprintf("h%d", k)
		if !c.Case(id) {
			continue
		}
		c20History(c, id, c.Rng(id))
	}
	for k := 0; k < c.Pick(4, 30); k++ {
		id := fmt.Sprintf("realtimer%d", k)
		if c.Case(id) {
			c20RealTimer(c, id, c.Rng(id))
		}
	}
	for k := 0; k < c.Pick(15, 300); k++ {
		id := fmt.Sprintf("conc%d", k)
		if c.Case(id) {
			c20Concurrent(c, id, c.Rng(id))
		}
	}
}

func init() {
	h.Register(&h.Prop{
		ID: "C20", Level: "exploration", Race: true,
		Rule: "histories of 25-55 events on a real basic.Engine over a harness face and a virtual clock: EXPRESS (nested names with duplicates, CanBePrefix, implicit digest right/wrong, lifetimes 100 ms/500 ms/4 s), DATA (equal/longer/shorter/sibling names), NACK, ADVANCE (1 ms .. 4.1 s incl. lifetime+margin boundaries), ATTACH/DETACH, INCOMING INTEREST, REPLY; " +
			"oracle: every callback at most once during and exactly once by the end, Data result only from Data that satisfies (name/CanBePrefix/digest) and during that Data's event, every unexpired pending Interest a Data satisfies is resolved in that event, Nack only for exactly that name, Timeout never before the lifetime and delivered by lifetime+margin, " +
			"incoming Interest handed to the longest attached prefix per the harness's own map, Reply transmits iff virtual now <= deadline; plus a concurrent profile in a race-detector build (one goroutine expresses 30-60 Interests, one feeds Data, one advances the clock): every callback exactly once with a satisfying result, race reports listed as diagnostics; distinct = per-event decision classes; real timer: on basic.NewTimer a short-lived Interest's timer fires while the engine is still delivering (slow application callback) the Data that also satisfies it - both resolve exactly once and the engine still resolves a later Interest (10 s watchdogs)",
		Assumptions: []string{"virtual ndn.Timer owned by the harness (thread-safe); callbacks only record", "Nacks are sent for names without implicit digest"},
		Batches:     func(t bool) int { return 16 },
		ChildTimeoutS: func(t bool) int {
			if t {
				return 2400
			}
			return 400
		},
		Run:         c20Main,
		MinDistinct: 25,
		Floors:      map[string]int64{"interests_expressed": 1000, "data_events": 1000, "timeouts": 100, "incoming_interests": 200, "concurrent_runs": 50},
		PostProcess: racePostDiagnostic,
	})
}
