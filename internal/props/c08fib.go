package props

import (
	"fmt"

	"github.com/named-data/ndnd/fw/table"
	enc "github.com/named-data/ndnd/std/encoding"

	"verif/internal/h"
)

// c08FibStruct is the FIB part of C08: the structures hold nothing beyond what live entries require.
func c08FibStruct(c *h.Ctx, fibs []*fibImpl, ref *refFib, m int, fail func(key, what string, extra map[string]any)) {
	for _, f := range fibs {
		info := table.VerifFibStats(f.t)
		c.Count("fib_struct_checks", 1)
		// next-hop records: exactly those of the live entries (the root entry has no node of its
		// own to count, so the node comparison below cannot see a record left behind there)
		wantRec, gotRec := map[string]int{}, map[string]int{}
		for k, e := range ref.m {
			if len(e.hops) > 0 {
				wantRec[k] = len(e.hops)
			}
		}
		for _, e := range f.t.GetAllFIBEntries() {
			if nh := e.GetNextHops(); len(nh) > 0 {
				gotRec[nkey(e.Name())] = len(nh)
			}
		}
		if fmt.Sprint(wantRec) != fmt.Sprint(gotRec) {
			fail("C08:fib-nexthop-records-beyond-live-entries", fmt.Sprintf("%s FIB holds next-hop records %v, the live entries require %v", info.Kind, gotRec, wantRec),
				map[string]any{"impl": info.Kind, "held": gotRec, "required": wantRec})
		}
		switch info.Kind {
		case "nametree":
			// nodes required = union of the paths to reference entries
			need := map[string]bool{}
			for _, e := range ref.m {
				for l := 1; l <= len(e.name); l++ {
					need[nkey(e.name[:l])] = true
				}
			}
			if info.DeadNodes > 0 || info.Nodes != len(need) {
				fail("C08:fib-tree-dead-nodes", fmt.Sprintf("name-tree FIB holds %d nodes (%d of them on no path to a live entry); live entries require %d", info.Nodes, info.DeadNodes, len(need)),
					map[string]any{"impl": "nametree", "nodes": info.Nodes, "dead": info.DeadNodes, "required": len(need)})
			}
		case "hashtable":
			real := map[string]bool{}
			for _, n := range info.RealNames {
				real[nkey(n)] = true
			}
			want := map[string]bool{}
			virt := map[string]bool{}
			for k, e := range ref.m {
				want[k] = true
				if len(e.name) >= m {
					virt[nkey(e.name[:m])] = true
				}
			}
			if len(real) != len(want) {
				fail("C08:fib-hashtable-real-size", fmt.Sprintf("hash-table FIB real table holds %d names, live entries are %d", len(real), len(want)),
					map[string]any{"impl": "hashtable", "real": len(real), "want": len(want)})
			}
			if info.VirtSize != len(virt) || info.VirtNames != len(virt) {
				fail("C08:fib-hashtable-virtual-leak", fmt.Sprintf("hash-table FIB keeps %d virtual entries / %d virtual name sets, live entries require %d", info.VirtSize, info.VirtNames, len(virt)),
					map[string]any{"impl": "hashtable", "virt": info.VirtSize, "virt_names": info.VirtNames, "required": len(virt)})
			}
		}
	}
	_ = enc.Name{}
}
