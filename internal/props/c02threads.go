package props

import (
	"fmt"
	"time"

	fwfw "github.com/named-data/ndnd/fw/fw"
	enc "github.com/named-data/ndnd/std/encoding"
	mgmt "github.com/named-data/ndnd/std/ndn/mgmt_2022"
	spec "github.com/named-data/ndnd/std/ndn/spec_2022"

	"verif/internal/h"
)

// c17Regions is the producer-region list the next mini daemon is configured with.
var c17Regions []string

// c02Threads: the duplicate-nonce rule on a forwarder with two forwarding threads, a producer region and
// forwarding hints. An Interest that carries a hint inside the producer region (the hint is then ignored
// for forwarding) is pending from one local face; the same name and nonce arrives from another face
// without the hint. Whatever thread each of them is handed to, the repetition must not be forwarded.
// Must be the last thing in its child process.
func c02Threads(c *h.Ctx) {
	if !c.Case("threads-hints") {
		return
	}
	c17CsOn = false
	c17Regions = []string{"/region"}
	defer func() { c17Regions = nil }()
	d := c17Start(c, false, []string{"nametree", "hashtable"}[c.Batch%2])
	r := c.Rng("threads-hints")
	root, _ := enc.NameFromStr("/h")
	cp := c17Params(&mgmt.ControlArgs{Name: root, FaceId: u64p(d.peer.id)})
	if resp := d.command(d.app, "/localhost/nfd", "rib", "register", &cp, 15*time.Second); resp == nil || resp.StatusCode != 200 {
		c.Inconclusive("threads-hints: route registration got no 200")
		return
	}
	seen := func(name enc.Name, wait time.Duration) int {
		n := 0
		for dl := time.Now().Add(wait); time.Now().Before(dl); time.Sleep(300 * time.Microsecond) {
			for _, fr := range d.peer.tr.TakeFrames() {
				p, _, err := spec.ReadPacket(enc.NewBufferReader(fr))
				if err != nil {
					continue
				}
				inner := p
				if p.LpPacket != nil {
					if ip, _, err := spec.ReadPacket(enc.NewBufferReader(p.LpPacket.Fragment.Join())); err == nil {
						inner = ip
					}
				}
				if inner.Interest != nil && inner.Interest.NameV.Equal(name) {
					n++
				}
			}
			if n > 0 && wait > time.Second {
				return n
			}
		}
		return n
	}
	for k := 0; k < c.Pick(40, 400); k++ {
		id := fmt.Sprintf("threads-hints/r%d", k)
		c.Eval(1)
		name, _ := enc.NameFromStr(fmt.Sprintf("/h/n%d/%c", k, 'a'+rune(r.Intn(3))))
		hint, _ := enc.NameFromStr(fmt.Sprintf("/region/site%d", r.Intn(7)))
		hintedFirst := r.Intn(2) == 0
		d.log = append(d.log, fmt.Sprintf("%s: Interest %s (thread of the name %d, thread of the hint %d) from face %d %s the hint %s, then the same name and nonce from face %d %s it", id, name, fwfw.HashNameToFwThread(name), fwfw.HashNameToFwThread(hint), d.app.id,
			map[bool]string{true: "with", false: "without"}[hintedFirst], hint, d.app2.id, map[bool]string{true: "without", false: "with"}[hintedFirst]))
		if hintedFirst {
			d.sendHinted(d.app, name, hint)
		} else {
			d.send(d.app, name, false)
		}
		if seen(name, 10*time.Second) == 0 {
			d.fail("C02:first-interest-not-forwarded:threads-hints", id, fmt.Sprintf("Interest %s (hint %s inside the producer region: %v) from a local consumer never reached the upstream face that holds the route", name, hint, hintedFirst), nil)
			return
		}
		d.nonce-- // the repetition carries the same nonce
		if hintedFirst {
			d.send(d.app2, name, false)
		} else {
			d.sendHinted(d.app2, name, hint)
		}
		again := seen(name, 60*time.Millisecond)
		c.Count("duplicate_nonce_rounds_across_threads", 1)
		c.Distinct(fmt.Sprintf("threads-hints|name-thread=%d|hint-thread=%d|hinted-first=%v", fwfw.HashNameToFwThread(name), fwfw.HashNameToFwThread(hint), hintedFirst))
		if again > 0 {
			d.fail("C02:forwarded-although:duplicate-nonce:threads-hints", id, fmt.Sprintf("Interest %s with the nonce of the Interest still pending from face %d arrived from face %d (one of the two carries the forwarding hint %s, which lies inside the producer region) and was forwarded upstream again", name, d.app.id, d.app2.id, hint), nil)
			return
		}
	}
}
