package props

import (
	"bytes"
	"fmt"
	"math/rand"
	"net"
	"sort"
	"strings"
	"time"

	"github.com/named-data/ndnd/fw/core"
	"github.com/named-data/ndnd/fw/defn"
	"github.com/named-data/ndnd/fw/dispatch"
	"github.com/named-data/ndnd/fw/face"
	fwfw "github.com/named-data/ndnd/fw/fw"
	fwmgmt "github.com/named-data/ndnd/fw/mgmt"
	"github.com/named-data/ndnd/fw/table"
	enc "github.com/named-data/ndnd/std/encoding"
	mgmt "github.com/named-data/ndnd/std/ndn/mgmt_2022"
	spec "github.com/named-data/ndnd/std/ndn/spec_2022"

	"verif/internal/fwenv"
	"verif/internal/h"
	"verif/internal/tlvwalk"
)

// ---- C17: management commands are authorised, act as specified; bad ones refused safely

type c17Face struct {
	ls    *face.NDNLPLinkService
	tr    *face.VerifTransport
	local bool
	id    uint64
	conn  net.Conn // remote TCP peer: the harness end of a real connection (tr is nil)
}

type c17Daemon struct {
	c        *h.Ctx
	allowHop bool
	app      *c17Face // local application face (the requester)
	app2     *c17Face // second local face
	peer     *c17Face // non-local face
	extra    []*c17Face
	tcp      *c17Face // non-local face over a real TCP connection from this host's non-loopback address (nil when the host has none)
	nonce    uint32
	// reference state
	routes    map[string]map[string]refRoute // name -> "face/origin" -> route
	fib       map[string]map[uint64]uint64   // direct FIB edits (prefixes under /f)
	strat     map[string]string
	capacity  int
	destroyed map[uint64]bool
	mix       map[string]map[uint64]uint64 // direct FIB next hops at names lying between RIB routes (prefixes under /m)
	log       []string
}

// c17CsOn switches the daemon's Content Store on (used by C07's management-capacity family).
var c17CsOn bool

func c17Start(c *h.Ctx, allowHop bool, algo string) *c17Daemon {
	cfg := fwenv.Config()
	cfg.Fw.Threads = 2
	cfg.Mgmt.AllowLocalhop = allowHop
	cfg.Tables.Rib.ReadvertiseNlsr = false
	cfg.Faces.CongestionMarking = false
	cfg.Tables.ContentStore.Capacity = 64
	cfg.Tables.NetworkRegion.Regions = append([]string{}, c17Regions...)
	// status datasets carry a freshness period of 1 s: with the cache serving, a dataset fetched
	// right after a command would legitimately be the cached previous one
	cfg.Tables.ContentStore.Admit = c17CsOn
	cfg.Tables.ContentStore.Serve = c17CsOn
	fwenv.Load(cfg)
	table.Configure()
	fwfw.Configure()
	fwmgmt.Configure()
	table.CreateFIBTable(algo)
	table.VerifResetRib()
	core.ShouldQuit = false
	threads := make([]*fwfw.Thread, 2)
	fts := make([]dispatch.FWThread, 2)
	for i := range threads {
		threads[i] = fwfw.NewThread(i)
		fts[i] = threads[i]
	}
	fwfw.Threads = threads
	dispatch.InitializeFWThreads(fts)
	for _, t := range threads {
		go t.Run()
	}
	m := fwmgmt.MakeMgmtThread()
	go m.Run()
	d := &c17Daemon{c: c, allowHop: allowHop, routes: map[string]map[string]refRoute{}, fib: map[string]map[uint64]uint64{}, strat: map[string]string{"/": "/localhost/nfd/strategy/best-route/v=1"},
		capacity: 64, destroyed: map[uint64]bool{}, nonce: uint32(1000 + c.Batch*100000)}
	d.app = d.newFace(true, 1)
	d.app2 = d.newFace(true, 2)
	d.peer = d.newFace(false, 3)
	d.tcp = d.tcpPeer()
	// wait for the management thread to install its own route
	deadline := time.Now().Add(5 * time.Second)
	pfx, _ := enc.NameFromStr("/localhost/nfd")
	for time.Now().Before(deadline) {
		if len(table.FibStrategyTable.FindNextHopsEnc(pfx)) > 0 {
			break
		}
		time.Sleep(time.Millisecond)
	}
	return d
}

func (d *c17Daemon) newFace(local bool, fd int) *c17Face {
	sc := defn.NonLocal
	if local {
		sc = defn.Local
	}
	tr := face.NewVerifTransportFD(fd, sc, defn.PointToPoint, defn.MaxNDNPacketSize)
	ls := face.MakeNDNLPLinkService(tr, face.MakeNDNLPLinkServiceOptions())
	ls.Run(nil)
	f := &c17Face{ls: ls, tr: tr, local: local, id: ls.FaceID()}
	return f
}

func c17Params(a *mgmt.ControlArgs) enc.Component {
	p := &mgmt.ControlParameters{Val: a}
	return enc.Component{Typ: enc.TypeGenericNameComponent, Val: p.Encode().Join()}
}

// interestBody builds the value of an Interest element (fresh nonce, MustBeFresh, 10 s lifetime).
func (d *c17Daemon) interestBody(name enc.Name, cbp bool) []byte {
	d.nonce++
	body := name.Bytes()
	if cbp {
		body = append(body, tlvwalk.TLV(0x21, nil)...)
	}
	body = append(body, tlvwalk.TLV(0x12, nil)...)
	body = append(body, tlvwalk.TLV(0x0a, []byte{byte(d.nonce >> 24), byte(d.nonce >> 16), byte(d.nonce >> 8), byte(d.nonce)})...)
	body = append(body, tlvwalk.TLV(0x0c, []byte{0x27, 0x10})...)
	return body
}

// sendHinted injects an Interest for name that carries a forwarding hint (delegation name hint).
func (d *c17Daemon) sendHinted(f *c17Face, name, hint enc.Name) {
	d.nonce++
	body := name.Bytes()
	body = append(body, tlvwalk.TLV(0x12, nil)...)
	body = append(body, tlvwalk.TLV(0x1e, hint.Bytes())...)
	body = append(body, tlvwalk.TLV(0x0a, []byte{byte(d.nonce >> 24), byte(d.nonce >> 16), byte(d.nonce >> 8), byte(d.nonce)})...)
	body = append(body, tlvwalk.TLV(0x0c, []byte{0x27, 0x10})...)
	face.VerifRecv(f.ls, tlvwalk.TLV(5, body))
}

// send builds an Interest and injects it on face f; returns the Interest name.
func (d *c17Daemon) send(f *c17Face, name enc.Name, cbp bool) enc.Name {
	body := d.interestBody(name, cbp)
	if f.conn != nil {
		// a real remote peer: the bytes travel through the socket and the transport's receive loop
		before := f.ls.NInInterests()
		f.conn.SetWriteDeadline(time.Now().Add(5 * time.Second))
		f.conn.Write(tlvwalk.TLV(5, body))
		for dl := time.Now().Add(5 * time.Second); f.ls.NInInterests() == before && time.Now().Before(dl); {
			time.Sleep(200 * time.Microsecond)
		}
		return name
	}
	face.VerifRecv(f.ls, tlvwalk.TLV(5, body))
	return name
}

// tcpPeer connects a real TCP peer from this host's non-loopback IPv4 address (nil when there is none).
func (d *c17Daemon) tcpPeer() *c17Face {
	host := ""
	if as, err := net.InterfaceAddrs(); err == nil {
		for _, a := range as {
			if ipn, ok := a.(*net.IPNet); ok && ipn.IP.To4() != nil && !ipn.IP.IsLoopback() {
				host = ipn.IP.String()
				break
			}
		}
	}
	if host == "" {
		d.c.Note("tcp_peer", "this host has no non-loopback IPv4 address: no real TCP requester")
		return nil
	}
	ln, err := net.Listen("tcp4", net.JoinHostPort(host, "0"))
	if err != nil {
		d.c.Note("tcp_peer", "listen: "+err.Error())
		return nil
	}
	defer ln.Close()
	client, err := net.DialTimeout("tcp4", ln.Addr().String(), 5*time.Second)
	if err != nil {
		d.c.Note("tcp_peer", "dial: "+err.Error())
		return nil
	}
	srv, err := ln.Accept()
	if err != nil {
		client.Close()
		return nil
	}
	tr, err := face.AcceptUnicastTCPTransport(srv, nil, face.PersistencyPersistent)
	if err != nil || tr == nil {
		client.Close()
		srv.Close()
		return nil
	}
	ls := face.MakeNDNLPLinkService(tr, face.MakeNDNLPLinkServiceOptions())
	ls.Run(nil)
	return &c17Face{ls: ls, id: ls.FaceID(), conn: client}
}

// nonLocal picks one of the non-local requesters.
func (d *c17Daemon) nonLocal(r *rand.Rand) *c17Face {
	if d.tcp != nil && r.Intn(2) == 0 {
		d.c.Count("commands_from_real_tcp_peer", 1)
		return d.tcp
	}
	return d.peer
}

// await polls the face's recorded frames for a Data whose name has prefix name.
func (d *c17Daemon) await(f *c17Face, name enc.Name, wait time.Duration) (*spec.Data, []byte) {
	deadline := time.Now().Add(wait)
	if f.tr == nil { // real TCP peer: replies are not read (its commands are the unauthorised ones)
		time.Sleep(wait)
		return nil, nil
	}
	for {
		for _, fr := range f.tr.TakeFrames() {
			p, _, err := spec.ReadPacket(enc.NewBufferReader(fr))
			if err != nil {
				continue
			}
			var inner *spec.Packet = p
			if p.LpPacket != nil {
				raw := p.LpPacket.Fragment.Join()
				ip, _, err := spec.ReadPacket(enc.NewBufferReader(raw))
				if err != nil {
					continue
				}
				inner = ip
			}
			if inner.Data != nil && name.IsPrefix(inner.Data.NameV) {
				return inner.Data, append([]byte{}, inner.Data.ContentV.Join()...)
			}
		}
		if time.Now().After(deadline) {
			return nil, nil
		}
		time.Sleep(300 * time.Microsecond)
	}
}

// command sends a control command and returns the decoded response (nil when none arrived).
func (d *c17Daemon) command(f *c17Face, prefix, module, verb string, comp *enc.Component, wait time.Duration) *mgmt.ControlResponseVal {
	name, _ := enc.NameFromStr(prefix + "/" + module + "/" + verb)
	if comp != nil {
		name = append(name, *comp)
	}
	d.send(f, name, false)
	_, content := d.await(f, name, wait)
	if content == nil {
		return nil
	}
	r, err := mgmt.ParseControlResponse(enc.NewBufferReader(content), true)
	if err != nil || r.Val == nil {
		return &mgmt.ControlResponseVal{StatusCode: 0, StatusText: "undecodable response"}
	}
	return r.Val
}

func (d *c17Daemon) dataset(module, verb string) []byte {
	name, _ := enc.NameFromStr("/localhost/nfd/" + module + "/" + verb)
	d.send(d.app, name, true)
	_, content := d.await(d.app, name, 15*time.Second)
	return content
}

// ---- table snapshots (direct reads)

func c17Snapshot() string {
	var sb strings.Builder
	var rib []string
	for _, e := range table.Rib.GetAllEntries() {
		for _, rt := range e.GetRoutes() {
			rib = append(rib, fmt.Sprintf("%s:%d/%d/%d/%d", e.Name, rt.FaceID, rt.Origin, rt.Cost, rt.Flags))
		}
	}
	sort.Strings(rib)
	var fib []string
	for _, e := range table.FibStrategyTable.GetAllFIBEntries() {
		hm, _ := copyHops(e.GetNextHops())
		fib = append(fib, e.Name().String()+hopsStr(hm))
	}
	sort.Strings(fib)
	var st []string
	for _, e := range table.FibStrategyTable.GetAllForwardingStrategies() {
		st = append(st, e.Name().String()+"="+e.GetStrategy().String())
	}
	sort.Strings(st)
	var faces []string
	for _, f := range face.FaceTable.GetAll() {
		faces = append(faces, fmt.Sprintf("%d(mtu=%d)", f.FaceID(), f.MTU()))
	}
	sort.Strings(faces)
	fmt.Fprintf(&sb, "rib=%v fib=%v strategies=%v cs_capacity=%d faces=%v", rib, fib, st, table.CsCapacity(), faces)
	return sb.String()
}

func (d *c17Daemon) refRibStr() string {
	var rib []string
	for n, m := range d.routes {
		for _, rt := range m {
			rib = append(rib, fmt.Sprintf("%s:%d/%d/%d/%d", n, rt.face, rt.origin, rt.cost, rt.flags))
		}
	}
	sort.Strings(rib)
	return fmt.Sprint(rib)
}

func c17RibStr() string {
	var rib []string
	for _, e := range table.Rib.GetAllEntries() {
		for _, rt := range e.GetRoutes() {
			rib = append(rib, fmt.Sprintf("%s:%d/%d/%d/%d", e.Name, rt.FaceID, rt.Origin, rt.Cost, rt.Flags))
		}
	}
	sort.Strings(rib)
	return fmt.Sprint(rib)
}

func (d *c17Daemon) fail(key, id, what string, extra map[string]any) {
	det := map[string]any{"allow_localhop": d.allowHop, "faces": fmt.Sprintf("app=%d app2=%d peer(non-local)=%d", d.app.id, d.app2.id, d.peer.id), "commands": d.log[max(0, len(d.log)-25):], "tables": c17Snapshot()}
	for k, v := range extra {
		det[k] = v
	}
	d.c.Violation(key, id, what, det)
}

func (d *c17Daemon) alive(id string) bool {
	name, _ := enc.NameFromStr("/localhost/nfd/status/general")
	d.send(d.app, name, true)
	if _, content := d.await(d.app, name, 15*time.Second); content == nil {
		d.fail("C17:daemon-unresponsive", id, "the daemon no longer answers status/general after the last command", nil)
		return false
	}
	return true
}

func u64p(v uint64) *uint64 { return &v }

// one generated command
func (d *c17Daemon) step(id string, r *rand.Rand) bool {
	c := d.c
	// incl. siblings that differ only in a component's type (keyword 32=a next to generic a)
	names := []string{"/r/a", "/r/a/b", "/r/a/b/c", "/r/c", "/f/x", "/f/x/y", "/r/32=a", "/r/a/32=b", "/f/32=x"} // three nested levels under /r
	pick := func(pfx string) enc.Name {
		for {
			s := names[r.Intn(len(names))]
			if strings.HasPrefix(s, pfx) {
				n, _ := enc.NameFromStr(s)
				return n
			}
		}
	}
	faceIDs := []uint64{d.app.id, d.app2.id, d.peer.id}
	for _, e := range d.extra {
		faceIDs = append(faceIDs, e.id)
	}
	before := c17Snapshot()
	kind := r.Intn(100)
	switch {
	case kind < 40: // ---- well-formed, authorised commands
		requester := []*c17Face{d.app, d.app2}[r.Intn(2)]
		switch r.Intn(9) {
		case 7: // both modules on one branch: a direct FIB next hop at a name that lies between two RIB routes
			if d.mix == nil {
				d.mix = map[string]map[uint64]uint64{}
			}
			base := fmt.Sprintf("/m/k%d", len(d.mix))
			mid := base + "/mid"
			reg := func(ns string) bool {
				n, _ := enc.NameFromStr(ns)
				d.log = append(d.log, fmt.Sprintf("%s: face %d rib/register %s", id, requester.id, ns))
				cp := c17Params(&mgmt.ControlArgs{Name: n})
				resp := d.command(requester, "/localhost/nfd", "rib", "register", &cp, 15*time.Second)
				if resp == nil || resp.StatusCode != 200 {
					d.fail("C17:valid-command-not-200:rib/register", id, "well-formed rib/register was answered with "+respStr(resp), nil)
					return false
				}
				if d.routes[ns] == nil {
					d.routes[ns] = map[string]refRoute{}
				}
				d.routes[ns][fmt.Sprintf("%d/%d", requester.id, 0)] = refRoute{face: requester.id, origin: 0, cost: 0, flags: 1}
				return true
			}
			if !reg(mid + "/leaf") {
				return false
			}
			fid, cst := d.peer.id, uint64(1+r.Intn(9))
			mn, _ := enc.NameFromStr(mid)
			d.log = append(d.log, fmt.Sprintf("%s: fib/add-nexthop %s face=%d cost=%d (between two RIB routes)", id, mid, fid, cst))
			cpf := c17Params(&mgmt.ControlArgs{Name: mn, FaceId: u64p(fid), Cost: u64p(cst)})
			if resp := d.command(requester, "/localhost/nfd", "fib", "add-nexthop", &cpf, 15*time.Second); resp == nil || resp.StatusCode != 200 {
				d.fail("C17:valid-command-not-200:fib/add-nexthop", id, "well-formed fib/add-nexthop was answered with "+respStr(resp), nil)
				return false
			}
			d.mix[mid] = map[uint64]uint64{fid: cst}
			if !d.checkTables(id, "a fib/add-nexthop between two RIB routes") {
				return false
			}
			if !reg(base) {
				return false
			}
			c.Count("fib_next_hops_between_rib_routes", 1)
			c.Distinct("ok|mixed-modules")
		case 0, 1: // rib/register
			n := pick("/r")
			a := &mgmt.ControlArgs{Name: n}
			exp := refRoute{face: requester.id, origin: 0, cost: 0, flags: 1}
			if r.Intn(2) == 0 {
				fid := faceIDs[r.Intn(len(faceIDs))]
				if d.destroyed[fid] {
					fid = requester.id
				}
				a.FaceId, exp.face = u64p(fid), fid
			} else if r.Intn(4) == 0 {
				a.FaceId = u64p(0) // FaceId 0 stands for the requesting face, like an absent FaceId
				c.Count("rib_commands_with_faceid_zero", 1)
			}
			if r.Intn(2) == 0 {
				o := []uint64{0, 65, 128, 255}[r.Intn(4)]
				a.Origin, exp.origin = u64p(o), o
			}
			if r.Intn(2) == 0 {
				cst := uint64(r.Intn(20))
				a.Cost, exp.cost = u64p(cst), cst
			}
			if r.Intn(2) == 0 {
				fl := uint64(r.Intn(4))
				a.Flags, exp.flags = u64p(fl), fl
			}
			if m := d.routes[n.String()]; len(m) > 0 && r.Intn(3) == 0 {
				// refresh of an existing route with exactly one parameter changed (or none)
				ks := sortedKeys(m)
				rt := m[ks[r.Intn(len(ks))]]
				if !d.destroyed[rt.face] {
					exp = rt
					switch r.Intn(4) {
					case 0:
						exp.cost = (rt.cost + 1 + uint64(r.Intn(5))) % 20
					case 1:
						exp.flags = rt.flags ^ 1
					case 2:
						exp.flags = rt.flags ^ 2
					}
					a.FaceId, a.Origin, a.Cost, a.Flags = u64p(exp.face), u64p(exp.origin), u64p(exp.cost), u64p(exp.flags)
					c.Count("route_refreshes_one_parameter_changed", 1)
				}
			}
			d.log = append(d.log, fmt.Sprintf("%s: face %d rib/register %s face=%v origin=%v cost=%v flags=%v", id, requester.id, n, fmtU(a.FaceId), fmtU(a.Origin), fmtU(a.Cost), fmtU(a.Flags)))
			cp := c17Params(a)
			resp := d.command(requester, "/localhost/nfd", "rib", "register", &cp, 15*time.Second)
			if resp == nil || resp.StatusCode != 200 {
				d.fail("C17:valid-command-not-200:rib/register", id, fmt.Sprintf("well-formed rib/register from a local face was answered with %s", respStr(resp)), nil)
				return false
			}
			k := n.String()
			if d.routes[k] == nil {
				d.routes[k] = map[string]refRoute{}
			}
			d.routes[k][fmt.Sprintf("%d/%d", exp.face, exp.origin)] = exp
			p := resp.Params
			if p == nil || !p.Name.Equal(n) || p.FaceId == nil || *p.FaceId != exp.face || p.Origin == nil || *p.Origin != exp.origin || p.Cost == nil || *p.Cost != exp.cost || p.Flags == nil || *p.Flags != exp.flags {
				d.fail("C17:echoed-parameters-wrong:rib/register", id, fmt.Sprintf("rib/register response does not echo the effective parameters (expected face %d origin %d cost %d flags %d): %s", exp.face, exp.origin, exp.cost, exp.flags, respStr(resp)), nil)
				return false
			}
			c.Distinct(fmt.Sprintf("ok|rib/register|face=%v|origin=%v|cost=%v|flags=%v", a.FaceId != nil, a.Origin != nil, a.Cost != nil, a.Flags != nil))
		case 2: // rib/unregister
			n := pick("/r")
			a := &mgmt.ControlArgs{Name: n}
			fid, origin := requester.id, uint64(0)
			if m := d.routes[n.String()]; len(m) > 0 && r.Intn(4) != 0 {
				ks := sortedKeys(m)
				rt := m[ks[r.Intn(len(ks))]]
				fid, origin = rt.face, rt.origin
				a.FaceId, a.Origin = u64p(fid), u64p(origin)
				if fid == requester.id && r.Intn(2) == 0 {
					a.FaceId = u64p(0) // the requesting face, written as 0
					if r.Intn(2) == 0 {
						a.FaceId = nil // or left out
					}
					c.Count("rib_commands_with_faceid_zero", 1)
				}
			}
			d.log = append(d.log, fmt.Sprintf("%s: face %d rib/unregister %s face=%v origin=%v", id, requester.id, n, fmtU(a.FaceId), fmtU(a.Origin)))
			cp := c17Params(a)
			resp := d.command(requester, "/localhost/nfd", "rib", "unregister", &cp, 15*time.Second)
			if resp == nil || resp.StatusCode != 200 {
				d.fail("C17:valid-command-not-200:rib/unregister", id, "well-formed rib/unregister was answered with "+respStr(resp), nil)
				return false
			}
			if m := d.routes[n.String()]; m != nil {
				delete(m, fmt.Sprintf("%d/%d", fid, origin))
				if len(m) == 0 {
					delete(d.routes, n.String())
				}
			}
			c.Distinct("ok|rib/unregister")
		case 3: // fib/add-nexthop, fib/remove-nexthop
			n := pick("/f")
			fid := faceIDs[r.Intn(len(faceIDs))]
			if d.destroyed[fid] {
				fid = requester.id
			}
			if r.Intn(3) != 0 {
				cst := uint64(r.Intn(10))
				a := &mgmt.ControlArgs{Name: n, FaceId: u64p(fid), Cost: u64p(cst)}
				d.log = append(d.log, fmt.Sprintf("%s: fib/add-nexthop %s face=%d cost=%d", id, n, fid, cst))
				cp := c17Params(a)
				resp := d.command(requester, "/localhost/nfd", "fib", "add-nexthop", &cp, 15*time.Second)
				if resp == nil || resp.StatusCode != 200 {
					d.fail("C17:valid-command-not-200:fib/add-nexthop", id, "well-formed fib/add-nexthop was answered with "+respStr(resp), nil)
					return false
				}
				if d.fib[n.String()] == nil {
					d.fib[n.String()] = map[uint64]uint64{}
				}
				d.fib[n.String()][fid] = cst
			} else {
				a := &mgmt.ControlArgs{Name: n, FaceId: u64p(fid)}
				d.log = append(d.log, fmt.Sprintf("%s: fib/remove-nexthop %s face=%d", id, n, fid))
				cp := c17Params(a)
				resp := d.command(requester, "/localhost/nfd", "fib", "remove-nexthop", &cp, 15*time.Second)
				if resp == nil || resp.StatusCode != 200 {
					d.fail("C17:valid-command-not-200:fib/remove-nexthop", id, "well-formed fib/remove-nexthop was answered with "+respStr(resp), nil)
					return false
				}
				if m := d.fib[n.String()]; m != nil {
					delete(m, fid)
					if len(m) == 0 {
						delete(d.fib, n.String())
					}
				}
			}
			c.Distinct("ok|fib")
		case 4: // strategy-choice/set, unset
			n := pick("/")
			if r.Intn(3) != 0 {
				sname := []string{"/localhost/nfd/strategy/multicast", "/localhost/nfd/strategy/best-route", "/localhost/nfd/strategy/multicast/v=1"}[r.Intn(3)]
				sn, _ := enc.NameFromStr(sname)
				a := &mgmt.ControlArgs{Name: n, Strategy: &mgmt.Strategy{Name: sn}}
				d.log = append(d.log, fmt.Sprintf("%s: strategy-choice/set %s %s", id, n, sname))
				cp := c17Params(a)
				resp := d.command(requester, "/localhost/nfd", "strategy-choice", "set", &cp, 15*time.Second)
				if resp == nil || resp.StatusCode != 200 {
					d.fail("C17:valid-command-not-200:strategy-choice/set", id, "well-formed strategy-choice/set was answered with "+respStr(resp), nil)
					return false
				}
				full := sname
				if !strings.Contains(full, "/v=") {
					full += "/v=1"
				}
				d.strat[n.String()] = full
			} else {
				a := &mgmt.ControlArgs{Name: n}
				d.log = append(d.log, fmt.Sprintf("%s: strategy-choice/unset %s", id, n))
				cp := c17Params(a)
				resp := d.command(requester, "/localhost/nfd", "strategy-choice", "unset", &cp, 15*time.Second)
				if resp == nil || resp.StatusCode != 200 {
					d.fail("C17:valid-command-not-200:strategy-choice/unset", id, "well-formed strategy-choice/unset was answered with "+respStr(resp), nil)
					return false
				}
				delete(d.strat, n.String())
			}
			c.Distinct("ok|strategy-choice")
		case 5: // cs/config
			capv := uint64(r.Intn(200))
			if r.Intn(5) == 0 { // the smallest capacities: nothing / one packet may be cached
				capv = uint64(r.Intn(2))
			} else if r.Intn(4) == 0 { // capacities around and beyond 16 bits (NFD's default is 65536)
				capv = []uint64{65535, 65536, 65537, 70000, 1 << 20, 1<<32 + 5}[r.Intn(6)]
			}
			a := &mgmt.ControlArgs{Capacity: u64p(capv)}
			d.log = append(d.log, fmt.Sprintf("%s: cs/config capacity=%d", id, capv))
			cp := c17Params(a)
			resp := d.command(requester, "/localhost/nfd", "cs", "config", &cp, 15*time.Second)
			if resp == nil || resp.StatusCode != 200 {
				d.fail("C17:valid-command-not-200:cs/config", id, "well-formed cs/config was answered with "+respStr(resp), nil)
				return false
			}
			d.capacity = int(capv)
			c.Distinct("ok|cs/config")
		case 6: // faces/destroy of a face that holds routes: every dataset must drop what belonged to it
			tmp := d.newFace(r.Intn(2) == 0, 400+len(d.log))
			for j := 1 + r.Intn(2); j > 0; j-- {
				n := pick("/r")
				o := []uint64{0, 65, 128}[r.Intn(3)]
				a := &mgmt.ControlArgs{Name: n, FaceId: u64p(tmp.id), Origin: u64p(o)}
				d.log = append(d.log, fmt.Sprintf("%s: face %d rib/register %s face=%d origin=%d (a face about to be destroyed)", id, requester.id, n, tmp.id, o))
				cp := c17Params(a)
				resp := d.command(requester, "/localhost/nfd", "rib", "register", &cp, 15*time.Second)
				if resp == nil || resp.StatusCode != 200 {
					d.fail("C17:valid-command-not-200:rib/register", id, "well-formed rib/register for a newly created face was answered with "+respStr(resp), nil)
					return false
				}
				if d.routes[n.String()] == nil {
					d.routes[n.String()] = map[string]refRoute{}
				}
				d.routes[n.String()][fmt.Sprintf("%d/%d", tmp.id, o)] = refRoute{face: tmp.id, origin: o, cost: 0, flags: 1}
			}
			if !d.checkTables(id, "routes registered for a face about to be destroyed") {
				return false
			}
			d.log = append(d.log, fmt.Sprintf("%s: faces/destroy face=%d", id, tmp.id))
			cp := c17Params(&mgmt.ControlArgs{FaceId: u64p(tmp.id)})
			resp := d.command(requester, "/localhost/nfd", "faces", "destroy", &cp, 15*time.Second)
			if resp == nil || resp.StatusCode != 200 {
				d.fail("C17:valid-command-not-200:faces/destroy", id, "faces/destroy of an existing face was answered with "+respStr(resp), nil)
				return false
			}
			for k, m := range d.routes {
				for rk, rt := range m {
					if rt.face == tmp.id {
						delete(m, rk)
					}
				}
				if len(m) == 0 {
					delete(d.routes, k)
				}
			}
			c.Count("faces_destroyed_holding_routes", 1)
			c.Distinct("ok|faces/destroy|with-routes")
		default: // faces/update with a usable MTU, then traffic on the face
			tgt := d.targetFace(r)
			mtu := uint64([]int{128, 200, 1500, 8800, 9000, 100000}[r.Intn(6)])
			a := &mgmt.ControlArgs{FaceId: u64p(tgt.id), Mtu: u64p(mtu)}
			d.log = append(d.log, fmt.Sprintf("%s: faces/update face=%d mtu=%d", id, tgt.id, mtu))
			cp := c17Params(a)
			resp := d.command(requester, "/localhost/nfd", "faces", "update", &cp, 15*time.Second)
			if resp == nil || resp.StatusCode != 200 {
				d.fail("C17:valid-command-not-200:faces/update", id, "faces/update with a usable MTU was answered with "+respStr(resp), nil)
				return false
			}
			if !d.traffic(id, tgt) {
				return false
			}
			c.Distinct(fmt.Sprintf("ok|faces/update|mtu=%d", mtu))
		}
		if !d.checkTables(id, "an accepted command") {
			return false
		}
	case kind < 62: // ---- not authorised: must change nothing
		n := pick("/r")
		a := &mgmt.ControlArgs{Name: n, Cost: u64p(7), Origin: u64p(65)}
		cp := c17Params(a)
		cls := ""
		switch r.Intn(6) {
		case 0:
			cls = "localhost-prefix-from-non-local-face"
			nl := d.nonLocal(r)
			d.log = append(d.log, fmt.Sprintf("%s: NON-LOCAL face %d sends /localhost/nfd/rib/register %s", id, nl.id, n))
			d.command(nl, "/localhost/nfd", "rib", "register", &cp, 40*time.Millisecond)
		case 1:
			cls = "localhop-prefix-non-rib-module"
			mod := [][2]string{{"fib", "add-nexthop"}, {"strategy-choice", "unset"}, {"cs", "config"}, {"faces", "destroy"}}[r.Intn(4)]
			a2 := &mgmt.ControlArgs{Name: n, FaceId: u64p(d.app2.id), Capacity: u64p(3)}
			cp2 := c17Params(a2)
			d.log = append(d.log, fmt.Sprintf("%s: face %d sends /localhop/nfd/%s/%s", id, d.peer.id, mod[0], mod[1]))
			f := []*c17Face{d.peer, d.app}[r.Intn(2)]
			d.command(f, "/localhop/nfd", mod[0], mod[1], &cp2, 40*time.Millisecond)
		case 2:
			if d.allowHop {
				// allowed: RIB command under the link-local prefix
				cls = "localhop-rib-allowed"
				d.log = append(d.log, fmt.Sprintf("%s: face %d sends /localhop/nfd/rib/register %s (allowed)", id, d.peer.id, n))
				resp := d.command(d.peer, "/localhop/nfd", "rib", "register", &cp, 15*time.Second)
				if resp == nil || resp.StatusCode != 200 {
					d.fail("C17:localhop-rib-refused-although-enabled", id, "rib/register under /localhop/nfd with allow_localhop=true was answered with "+respStr(resp), nil)
					return false
				}
				k := n.String()
				if d.routes[k] == nil {
					d.routes[k] = map[string]refRoute{}
				}
				d.routes[k][fmt.Sprintf("%d/%d", d.peer.id, 65)] = refRoute{face: d.peer.id, origin: 65, cost: 7, flags: 1}
				c.Distinct("ok|localhop-rib")
				return d.checkTables(id, "an accepted /localhop RIB command")
			}
			cls = "localhop-rib-while-disabled"
			d.log = append(d.log, fmt.Sprintf("%s: face %d sends /localhop/nfd/rib/register %s (allow_localhop=false)", id, d.peer.id, n))
			d.command(d.peer, "/localhop/nfd", "rib", "register", &cp, 40*time.Millisecond)
		case 5:
			// the command name is under /localhost/nfd, a forwarding hint names the link-local
			// management prefix (or the local one): the scope of the NAME decides, not the hint's
			cls = "localhost-prefix-from-non-local-face-with-forwarding-hint"
			hint, _ := enc.NameFromStr([]string{"/localhop/nfd", "/localhost/nfd", "/localhop"}[r.Intn(3)])
			cn, _ := enc.NameFromStr("/localhost/nfd/rib/register")
			cn = append(cn, cp)
			d.log = append(d.log, fmt.Sprintf("%s: NON-LOCAL face %d sends /localhost/nfd/rib/register %s with forwarding hint %s", id, d.peer.id, n, hint))
			d.sendHinted(d.peer, cn, hint)
			time.Sleep(40 * time.Millisecond)
		case 3:
			cls = "other-prefix"
			d.log = append(d.log, fmt.Sprintf("%s: face %d sends /nfd/rib/register", id, d.app.id))
			d.command(d.app, "/nfd", "rib", "register", &cp, 40*time.Millisecond)
		default:
			cls = "localhost-prefix-from-non-local-face-cs"
			a2 := &mgmt.ControlArgs{Capacity: u64p(1)}
			cp2 := c17Params(a2)
			nl := d.nonLocal(r)
			d.log = append(d.log, fmt.Sprintf("%s: NON-LOCAL face %d sends /localhost/nfd/cs/config capacity=1", id, nl.id))
			d.command(nl, "/localhost/nfd", "cs", "config", &cp2, 40*time.Millisecond)
		}
		if !d.alive(id) {
			return false
		}
		if after := c17Snapshot(); after != before {
			d.fail("C17:unauthorised-command-changed-state:"+cls, id, "a command that is not authorised ("+cls+") changed forwarder state", map[string]any{"before": before, "after": after})
			return false
		}
		c.Distinct("unauthorised|" + cls)
	default: // ---- malformed / missing / out of range: 4xx, nothing changes
		requester := d.app
		n := pick("/r")
		cls := ""
		var resp *mgmt.ControlResponseVal
		need4xx := true
		switch r.Intn(13) {
		case 11, 12:
			// one invalid field next to valid ones: the command as a whole must be refused and
			// nothing (not even the valid MTU) may be applied
			tgt := d.targetFace(r)
			before = c17Snapshot()
			a := &mgmt.ControlArgs{FaceId: u64p(tgt.id), Mtu: u64p(uint64(1000 + r.Intn(7000)))}
			switch r.Intn(3) {
			case 0:
				a.Flags = u64p(uint64(r.Intn(4)))
				cls = "update-flags-without-mask-plus-valid-mtu"
			case 1:
				a.Mask = u64p(uint64(1 + r.Intn(3)))
				cls = "update-mask-without-flags-plus-valid-mtu"
			default:
				a.FacePersistency = u64p(uint64(7 + r.Intn(90)))
				cls = "update-unknown-persistency-plus-valid-mtu"
			}
			cp := c17Params(a)
			d.log = append(d.log, fmt.Sprintf("%s: faces/update face=%d %s", id, tgt.id, cls))
			resp = d.command(requester, "/localhost/nfd", "faces", "update", &cp, 15*time.Second)
		case 0:
			cls = "no-parameters-component"
			mv := [][2]string{{"rib", "register"}, {"rib", "unregister"}, {"fib", "add-nexthop"}, {"fib", "remove-nexthop"}, {"strategy-choice", "set"}, {"strategy-choice", "unset"}, {"cs", "config"}, {"faces", "update"}, {"faces", "destroy"}}[r.Intn(9)]
			cls += ":" + mv[0] + "/" + mv[1]
			d.log = append(d.log, fmt.Sprintf("%s: %s/%s without ControlParameters", id, mv[0], mv[1]))
			resp = d.command(requester, "/localhost/nfd", mv[0], mv[1], nil, 15*time.Second)
		case 1:
			cls = "garbage-parameters"
			g := make([]byte, 1+r.Intn(12))
			r.Read(g)
			g[0] = 0x68 // looks like ControlParameters
			cp := enc.Component{Typ: 8, Val: g}
			mv := [][2]string{{"rib", "register"}, {"fib", "add-nexthop"}, {"strategy-choice", "set"}, {"faces", "update"}}[r.Intn(4)]
			d.log = append(d.log, fmt.Sprintf("%s: %s/%s with garbage parameters %x", id, mv[0], mv[1], g))
			resp = d.command(requester, "/localhost/nfd", mv[0], mv[1], &cp, 15*time.Second)
		case 2:
			cls = "missing-name"
			cp := c17Params(&mgmt.ControlArgs{Cost: u64p(1)})
			mv := [][2]string{{"rib", "register"}, {"rib", "unregister"}, {"fib", "add-nexthop"}, {"strategy-choice", "set"}, {"strategy-choice", "unset"}}[r.Intn(5)]
			cls += ":" + mv[0] + "/" + mv[1]
			d.log = append(d.log, fmt.Sprintf("%s: %s/%s without Name", id, mv[0], mv[1]))
			resp = d.command(requester, "/localhost/nfd", mv[0], mv[1], &cp, 15*time.Second)
		case 3:
			cls = "unknown-face"
			cp := c17Params(&mgmt.ControlArgs{Name: n, FaceId: u64p(987654)})
			mv := [][2]string{{"rib", "register"}, {"fib", "add-nexthop"}, {"faces", "update"}}[r.Intn(3)]
			cls += ":" + mv[0] + "/" + mv[1]
			d.log = append(d.log, fmt.Sprintf("%s: %s/%s with unknown face 987654", id, mv[0], mv[1]))
			resp = d.command(requester, "/localhost/nfd", mv[0], mv[1], &cp, 15*time.Second)
		case 4:
			cls = "missing-strategy"
			cp := c17Params(&mgmt.ControlArgs{Name: n})
			d.log = append(d.log, fmt.Sprintf("%s: strategy-choice/set without Strategy", id))
			resp = d.command(requester, "/localhost/nfd", "strategy-choice", "set", &cp, 15*time.Second)
		case 5:
			cls = "unknown-strategy"
			sn, _ := enc.NameFromStr([]string{"/localhost/nfd/strategy/nonexistent", "/some/other/name", "/localhost/nfd/strategy/multicast/v=99", "/localhost/nfd/strategy/multicast/notaversion",
				"/localhost/nfd/strategy/best-route/v=0", "/localhost/nfd/strategy/multicast/v=0", "/localhost/nfd/strategy/best-route/v=2", "/localhost/nfd/strategy/best-route/v=18446744073709551615"}[r.Intn(8)])
			cp := c17Params(&mgmt.ControlArgs{Name: n, Strategy: &mgmt.Strategy{Name: sn}})
			d.log = append(d.log, fmt.Sprintf("%s: strategy-choice/set %s", id, sn))
			resp = d.command(requester, "/localhost/nfd", "strategy-choice", "set", &cp, 15*time.Second)
		case 6:
			cls = "strategy-name-without-strategy-component"
			sn, _ := enc.NameFromStr("/localhost/nfd/strategy")
			cp := c17Params(&mgmt.ControlArgs{Name: n, Strategy: &mgmt.Strategy{Name: sn}})
			d.log = append(d.log, fmt.Sprintf("%s: strategy-choice/set %s", id, sn))
			resp = d.command(requester, "/localhost/nfd", "strategy-choice", "set", &cp, 15*time.Second)
		case 7:
			cls = "unset-root-strategy"
			cp := c17Params(&mgmt.ControlArgs{Name: enc.Name{}})
			d.log = append(d.log, fmt.Sprintf("%s: strategy-choice/unset /", id))
			resp = d.command(requester, "/localhost/nfd", "strategy-choice", "unset", &cp, 15*time.Second)
		case 8:
			cls = "flags-without-mask"
			mv := [][2]string{{"cs", "config"}, {"faces", "update"}}[r.Intn(2)]
			var a *mgmt.ControlArgs
			if r.Intn(2) == 0 {
				a = &mgmt.ControlArgs{Flags: u64p(1), Capacity: u64p(5)}
			} else {
				a = &mgmt.ControlArgs{Mask: u64p(1), Capacity: u64p(5)}
			}
			if mv[0] == "faces" {
				a.FaceId = u64p(d.app2.id)
				a.Capacity = nil
			}
			cls += ":" + mv[0]
			cp := c17Params(a)
			d.log = append(d.log, fmt.Sprintf("%s: %s/%s with Flags xor Mask", id, mv[0], mv[1]))
			resp = d.command(requester, "/localhost/nfd", mv[0], mv[1], &cp, 15*time.Second)
		case 9:
			tgt := d.targetFace(r)
			before = c17Snapshot() // the target face may just have been created by the harness
			mtu := uint64([]int{0, 1, 5, 21, 22}[r.Intn(5)])
			cls = "mtu-too-small"
			cp := c17Params(&mgmt.ControlArgs{FaceId: u64p(tgt.id), Mtu: u64p(mtu)})
			d.log = append(d.log, fmt.Sprintf("%s: faces/update face=%d mtu=%d", id, tgt.id, mtu))
			resp = d.command(requester, "/localhost/nfd", "faces", "update", &cp, 15*time.Second)
			if resp == nil || resp.StatusCode < 400 || resp.StatusCode > 499 {
				d.fail("C17:bad-command-not-4xx:"+cls, id, fmt.Sprintf("faces/update with MTU %d (too small to carry a packet) was answered with %s", mtu, respStr(resp)), nil)
				return false
			}
			if !d.traffic(id, tgt) {
				return false
			}
			need4xx = false
		default:
			tgt := d.targetFace(r)
			mtu := uint64(23 + r.Intn(105))
			cls = "mtu-23..127"
			cp := c17Params(&mgmt.ControlArgs{FaceId: u64p(tgt.id), Mtu: u64p(mtu)})
			d.log = append(d.log, fmt.Sprintf("%s: faces/update face=%d mtu=%d (status left open)", id, tgt.id, mtu))
			resp = d.command(requester, "/localhost/nfd", "faces", "update", &cp, 15*time.Second)
			need4xx = false
			if !d.traffic(id, tgt) {
				return false
			}
			// restore a sane MTU so that later steps are comparable
			cp2 := c17Params(&mgmt.ControlArgs{FaceId: u64p(tgt.id), Mtu: u64p(8800)})
			d.command(requester, "/localhost/nfd", "faces", "update", &cp2, 15*time.Second)
			before = c17Snapshot()
		}
		if need4xx && (resp == nil || resp.StatusCode < 400 || resp.StatusCode > 499) {
			d.fail("C17:bad-command-not-4xx:"+cls, id, fmt.Sprintf("a malformed command (%s) was answered with %s instead of a 4xx status", cls, respStr(resp)), nil)
			return false
		}
		if !d.alive(id) {
			return false
		}
		if after := c17Snapshot(); after != before {
			d.fail("C17:bad-command-changed-state:"+cls, id, "a refused command ("+cls+") changed forwarder state", map[string]any{"before": before, "after": after})
			return false
		}
		c.Distinct("malformed|" + cls)
	}
	return true
}

func (d *c17Daemon) targetFace(r *rand.Rand) *c17Face {
	if len(d.extra) < 2 {
		f := d.newFace(r.Intn(2) == 0, 10+len(d.extra))
		d.extra = append(d.extra, f)
		return f
	}
	return d.extra[r.Intn(len(d.extra))]
}

// traffic: a small and a maximum-size packet, with and without PIT token, are sent on the face;
// frames or a clean drop are both fine, a dead process is not (the orchestrator sees that), and
// the daemon must still answer afterwards.
// settle waits until the face's send goroutine has gone quiet and returns the frames recorded meanwhile.
func (f *c17Face) settle() [][]byte {
	var all [][]byte
	quiet := 0
	for i := 0; i < 400 && quiet < 8; i++ {
		fr := f.tr.TakeFrames()
		if len(fr) > 0 {
			all = append(all, fr...)
			quiet = 0
		} else {
			quiet++
		}
		time.Sleep(time.Millisecond)
	}
	return all
}

func (d *c17Daemon) traffic(id string, f *c17Face) bool {
	f.settle() // frames of earlier traffic (sent under an earlier MTU) are not this step's subject
	for _, size := range []int{1, 8700} {
		_, wire, err := makeData(enc.Name{enc.NewStringComponent(8, "t")}, nil, bytes.Repeat([]byte{7}, size))
		if err != nil {
			continue
		}
		for _, tok := range [][]byte{nil, {0, 0, 1, 2, 3, 4}} {
			p, _, err := spec.ReadPacket(enc.NewBufferReader(append([]byte{}, wire...)))
			if err != nil {
				continue
			}
			inFace := d.app.id
			f.ls.SendPacket(dispatch.OutPkt{Pkt: &defn.Pkt{Raw: append([]byte{}, wire...), L3: p, IncomingFaceID: &inFace}, PitToken: tok, InFace: &inFace})
		}
	}
	mtu := f.ls.MTU()
	for _, fr := range f.settle() {
		if len(fr) > mtu {
			d.fail("C17:frame-exceeds-configured-mtu", id, fmt.Sprintf("after faces/update a frame of %d bytes was sent on a face whose MTU is %d", len(fr), mtu), nil)
			return false
		}
	}
	return d.alive(id)
}

func respStr(r *mgmt.ControlResponseVal) string {
	if r == nil {
		return "no response"
	}
	s := fmt.Sprintf("status %d (%s)", r.StatusCode, r.StatusText)
	if r.Params != nil {
		s += fmt.Sprintf(" params{name=%v face=%v origin=%v cost=%v flags=%v}", r.Params.Name, fmtU(r.Params.FaceId), fmtU(r.Params.Origin), fmtU(r.Params.Cost), fmtU(r.Params.Flags))
	}
	return s
}

func fmtU(p *uint64) string {
	if p == nil {
		return "-"
	}
	return fmt.Sprint(*p)
}

// checkTables compares tables and datasets with the reference after an accepted command.
func (d *c17Daemon) checkTables(id, after string) bool {
	if got, want := c17RibStr(), d.refRibStr(); got != want {
		d.fail("C17:rib-effect-wrong", id, "after "+after+" the RIB differs from what the accepted commands describe", map[string]any{"rib": got, "expected": want})
		return false
	}
	// FIB entries under /f are exactly the direct edits
	gotF := map[string]string{}
	for _, e := range table.FibStrategyTable.GetAllFIBEntries() {
		if s := e.Name().String(); strings.HasPrefix(s, "/f") {
			hm, _ := copyHops(e.GetNextHops())
			gotF[s] = hopsStr(hm)
		}
	}
	wantF := map[string]string{}
	for n, m := range d.fib {
		wantF[n] = hopsStr(m)
	}
	if !sameStrMap(gotF, wantF) {
		d.fail("C17:fib-effect-wrong", id, "after "+after+" the FIB differs from what the accepted fib commands describe", map[string]any{"fib": gotF, "expected": wantF})
		return false
	}
	// direct next hops at names between RIB routes are nobody else's business
	for n, m := range d.mix {
		found := ""
		for _, e := range table.FibStrategyTable.GetAllFIBEntries() {
			if e.Name().String() == n {
				hm, _ := copyHops(e.GetNextHops())
				found = hopsStr(hm)
			}
		}
		if found != hopsStr(m) {
			d.fail("C17:fib-effect-wrong:next-hop-between-rib-routes", id, fmt.Sprintf("after %s the FIB entry %s holds %q; fib/add-nexthop put %s there and no command has touched that name since", after, n, found, hopsStr(m)), map[string]any{"rib": d.refRibStr()})
			return false
		}
	}
	// FIB entries produced by the RIB are the flattening of the accepted registrations
	// (child-inherit / capture semantics as in C06's reference)
	ref := newRefRib()
	for ns, m := range d.routes {
		n, _ := enc.NameFromStr(ns)
		for _, rt := range m {
			ref.add(n, rt)
		}
	}
	wantR := map[string]string{}
	for k, m := range ref.flatten() {
		if len(m) > 0 {
			wantR[ref.names[k].String()] = hopsStr(m)
		}
	}
	gotR := map[string]string{}
	for _, e := range table.FibStrategyTable.GetAllFIBEntries() {
		s := e.Name().String()
		if _, listed := wantR[s]; listed || strings.HasPrefix(s, "/r") {
			hm, _ := copyHops(e.GetNextHops())
			if len(hm) > 0 {
				gotR[s] = hopsStr(hm)
			}
		}
	}
	if !sameStrMap(gotR, wantR) {
		d.fail("C17:rib-command-fib-effect-wrong", id, "after "+after+" the FIB entries derived from the RIB differ from the flattening of the accepted registrations", map[string]any{"fib": gotR, "expected": wantR, "rib": d.refRibStr()})
		return false
	}
	gotS := map[string]string{}
	for _, e := range table.FibStrategyTable.GetAllForwardingStrategies() {
		gotS[e.Name().String()] = e.GetStrategy().String()
	}
	if !sameStrMap(gotS, d.strat) {
		d.fail("C17:strategy-effect-wrong", id, "after "+after+" the strategy table differs from what the accepted commands describe", map[string]any{"strategies": gotS, "expected": d.strat})
		return false
	}
	// what forwarding will actually use: longest-prefix lookups below and at the command prefixes
	wantAll := map[string]string{}
	for k, v := range wantF {
		wantAll[k] = v
	}
	for k, v := range wantR {
		wantAll[k] = v
	}
	for _, ps := range []string{"/r/a", "/r/a/b", "/r/a/b/q", "/r/a/q", "/r/c", "/r/c/q/q", "/f/x", "/f/x/y", "/f/x/y/q", "/f/x/q", "/r", "/f", "/r/32=a", "/r/32=a/q", "/r/a/32=b", "/r/a/32=b/q", "/f/32=x", "/f/32=x/y", "/r/a/b/c", "/r/a/b/c/q"} {
		pn, _ := enc.NameFromStr(ps)
		want := ""
		for l := len(pn); l >= 0; l-- {
			if v, ok := wantAll[pn[:l].String()]; ok {
				want = v
				break
			}
		}
		hm, _ := copyHops(table.FibStrategyTable.FindNextHopsEnc(pn))
		if got := hopsStr(hm); got != want && !(len(hm) == 0 && want == "") {
			d.fail("C17:lookup-after-commands-wrong", id, fmt.Sprintf("after %s FindNextHops(%s) = %s, the accepted commands describe %s (longest prefix with next hops)", after, ps, got, want), map[string]any{"expected_fib": wantAll, "strategies": gotS})
			return false
		}
	}
	if table.CsCapacity() != d.capacity {
		d.fail("C17:cs-capacity-wrong", id, fmt.Sprintf("CS capacity is %d, the accepted commands set %d", table.CsCapacity(), d.capacity), nil)
		return false
	}
	// ---- datasets list exactly the table contents
	if b := d.dataset("rib", "list"); b != nil {
		rs, err := mgmt.ParseRibStatus(enc.NewBufferReader(b), true)
		var got []string
		if err == nil {
			for _, e := range rs.Entries {
				for _, rt := range e.Routes {
					got = append(got, fmt.Sprintf("%s:%d/%d/%d/%d", e.Name, rt.FaceId, rt.Origin, rt.Cost, rt.Flags))
				}
			}
		}
		sort.Strings(got)
		if err != nil || fmt.Sprint(got) != d.refRibStr() {
			d.fail("C17:dataset-differs:rib/list", id, "rib/list does not list exactly the current routes", map[string]any{"dataset": got, "expected": d.refRibStr(), "error": fmt.Sprint(err)})
			return false
		}
	} else {
		d.fail("C17:dataset-missing:rib/list", id, "rib/list was not answered", nil)
		return false
	}
	if b := d.dataset("fib", "list"); b != nil {
		fs, err := mgmt.ParseFibStatus(enc.NewBufferReader(b), true)
		got := map[string]string{}
		if err == nil {
			for _, e := range fs.Entries {
				hm := map[uint64]uint64{}
				for _, nh := range e.NextHopRecords {
					hm[nh.FaceId] = nh.Cost
				}
				got[e.Name.String()] = hopsStr(hm)
			}
		}
		want := map[string]string{}
		for _, e := range table.FibStrategyTable.GetAllFIBEntries() {
			hm, _ := copyHops(e.GetNextHops())
			want[e.Name().String()] = hopsStr(hm)
		}
		if err != nil || !sameStrMap(got, want) {
			d.fail("C17:dataset-differs:fib/list", id, "fib/list does not list exactly the current FIB", map[string]any{"dataset": got, "table": want, "error": fmt.Sprint(err)})
			return false
		}
	} else {
		d.fail("C17:dataset-missing:fib/list", id, "fib/list was not answered", nil)
		return false
	}
	if b := d.dataset("strategy-choice", "list"); b != nil {
		ss, err := mgmt.ParseStrategyChoiceMsg(enc.NewBufferReader(b), true)
		got := map[string]string{}
		if err == nil {
			for _, e := range ss.StrategyChoices {
				if e.Strategy != nil {
					got[e.Name.String()] = e.Strategy.Name.String()
				}
			}
		}
		if err != nil || !sameStrMap(got, d.strat) {
			d.fail("C17:dataset-differs:strategy-choice/list", id, "strategy-choice/list does not list exactly the current strategy choices", map[string]any{"dataset": got, "expected": d.strat, "error": fmt.Sprint(err)})
			return false
		}
	} else {
		d.fail("C17:dataset-missing:strategy-choice/list", id, "strategy-choice/list was not answered", nil)
		return false
	}
	if b := d.dataset("cs", "info"); b != nil {
		ci, err := mgmt.ParseCsInfoMsg(enc.NewBufferReader(b), true)
		if err != nil || ci.CsInfo == nil || int(ci.CsInfo.Capacity) != d.capacity {
			d.fail("C17:dataset-differs:cs/info", id, fmt.Sprintf("cs/info does not report the configured capacity %d", d.capacity), nil)
			return false
		}
	} else {
		d.fail("C17:dataset-missing:cs/info", id, "cs/info was not answered", nil)
		return false
	}
	if b := d.dataset("faces", "list"); b != nil {
		fs, err := mgmt.ParseFaceStatusMsg(enc.NewBufferReader(b), true)
		var got, want []int
		if err == nil {
			for _, v := range fs.Vals {
				got = append(got, int(v.FaceId))
			}
		}
		for _, f := range face.FaceTable.GetAll() {
			want = append(want, int(f.FaceID()))
		}
		sort.Ints(got)
		sort.Ints(want)
		if err != nil || fmt.Sprint(got) != fmt.Sprint(want) {
			d.fail("C17:dataset-differs:faces/list", id, "faces/list does not list exactly the current faces", map[string]any{"dataset": got, "table": want, "error": fmt.Sprint(err)})
			return false
		}
	} else {
		d.fail("C17:dataset-missing:faces/list", id, "faces/list was not answered", nil)
		return false
	}
	d.c.Count("table_checks", 1)
	return true
}

func c17Run(c *h.Ctx) {
	if c.Batch == 7 {
		// one batch has the Content Store switched on and checks the effect of cs/config on what is
		// actually cached (the command batches keep it off: status datasets would be served from it)
		c07MgmtAs(c, "C17")
		return
	}
	allow := c.Batch%2 == 0
	algo := []string{"nametree", "hashtable"}[(c.Batch/2)%2]
	d := c17Start(c, allow, algo)
	c.Eval(1)
	if !d.alive("start") {
		return
	}
	r := c.Rng("c17")
	n := c.Pick(400, 6000)
	for k := 0; k < n; k++ {
		id := fmt.Sprintf("cmd%d", k)
		sub := rand.New(rand.NewSource(r.Int63()))
		if !c.Case(id) {
			continue
		}
		c.Eval(1)
		if !d.step(id, sub) {
			return // the daemon's state no longer matches the reference: stop this batch
		}
		c.Count("commands", 1)
	}
	c.Sample(map[string]any{"allow_localhop": allow, "fib": algo, "commands": n, "last_commands": d.log[max(0, len(d.log)-6):]})
}

func init() {
	h.Register(&h.Prop{
		ID: "C17", Level: "exploration",
		Rule: "one mini daemon per child process (core config -> table/fw/mgmt/face Configure -> FIB -> 2 running forwarding threads -> running management thread; local and non-local application faces are real NDNLP link services over recording transports); commands are encoded with the generated ControlParameters codec and injected as frames; responses and status datasets are read from the frames the transports record; " +
			"per generated command: well-formed authorised commands (rib register/unregister with every subset of FaceId/Origin/Cost/Flags, fib add/remove, strategy set/unset, cs config, faces update) must answer 200, echo the effective parameters with the documented defaults, and leave tables and the datasets rib/list, fib/list, strategy-choice/list, cs/info, faces/list equal to a harness-side reference; " +
			"unauthorised commands (/localhost/nfd from a non-local face, /localhop/nfd for non-RIB modules, /localhop RIB commands while disabled, other prefixes) must change nothing; malformed ones (no parameters component, garbage, missing Name/Strategy, unknown face/strategy, strategy name without a strategy component, unset on the root, Flags without Mask, MTU <= 22) must answer 4xx and change nothing; one batch runs with the Content Store on: cs/config lowers the capacity (to 0, 1, 2, k-1, k/2) and the packets cached through the real pipeline afterwards must stay within it; after every command the daemon must still answer status/general, and after face updates small and 8800-byte packets with and without PIT token are sent on the face; distinct = command classes",
		Assumptions: []string{"plain (non-race) build: races are C16's subject", "status for MTU 23..127 is left open; frames on such a face must still respect the MTU or be dropped", "face creation with sockets is not exercised (no network in the sandbox): faces are harness-made link services with fd:// URIs", "RIB commands use prefixes under /r and direct FIB commands prefixes under /f so that the two never overwrite each other"},
		Batches:     func(t bool) int { return 8 },
		Parallel:    8,
		ChildTimeoutS: func(t bool) int {
			if t {
				return 3400
			}
			return 900
		},
		Run:         c17Run,
		MinDistinct: 25,
		Floors:      map[string]int64{"commands": 300, "table_checks": 80},
	})
}
