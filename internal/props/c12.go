package props

import (
	"bytes"
	"crypto"
	"crypto/ecdsa"
	"crypto/hmac"
	"crypto/rsa"
	"crypto/sha256"
	"fmt"
	spec "github.com/named-data/ndnd/std/ndn/spec_2022"
	"math/rand"
	"sort"
	"strings"
	"sync"
	"sync/atomic"

	enc "github.com/named-data/ndnd/std/encoding"
	"github.com/named-data/ndnd/std/ndn"
	sec "github.com/named-data/ndnd/std/security"

	"verif/internal/h"
	"verif/internal/pkt"
)

// c12Validate runs the repository validator that matches the signer.
func c12Validate(signer string, cov enc.Wire, sig ndn.Signature) bool {
	k := pkt.GetKeys()
	switch signer {
	case "sha256", "sha256int":
		return sec.Sha256Validate(cov, sig)
	case "hmac", "hmac-cert", "hmacint":
		return sec.HmacValidate(cov, sig, k.Hmac)
	case "ecc", "eccint":
		return sec.EcdsaValidate(cov, sig, &k.Ecc.PublicKey)
	case "ecc384":
		return sec.EcdsaValidate(cov, sig, &k.Ecc384.PublicKey)
	case "ecc224":
		return sec.EcdsaValidate(cov, sig, &k.Ecc224.PublicKey)
	case "ecc521":
		return sec.EcdsaValidate(cov, sig, &k.Ecc521.PublicKey)
	case "rsa1024", "rsa1024int":
		return sec.RsaValidate(cov, sig, &k.Rsa1024.PublicKey)
	case "rsa2048":
		return sec.RsaValidate(cov, sig, &k.Rsa2048.PublicKey)
	}
	return false
}

// c12Independent verifies (signed bytes, signature value) with the harness's own crypto calls.
func c12Independent(signer string, signed, sigVal []byte) bool {
	k := pkt.GetKeys()
	dg := sha256.Sum256(signed)
	switch signer {
	case "sha256", "sha256int":
		return bytes.Equal(dg[:], sigVal)
	case "hmac", "hmac-cert", "hmacint":
		m := hmac.New(sha256.New, k.Hmac)
		m.Write(signed)
		return hmac.Equal(m.Sum(nil), sigVal)
	case "ecc", "eccint":
		return ecdsa.VerifyASN1(&k.Ecc.PublicKey, dg[:], sigVal)
	case "ecc384":
		return ecdsa.VerifyASN1(&k.Ecc384.PublicKey, dg[:], sigVal)
	case "ecc224":
		return ecdsa.VerifyASN1(&k.Ecc224.PublicKey, dg[:], sigVal)
	case "ecc521":
		return ecdsa.VerifyASN1(&k.Ecc521.PublicKey, dg[:], sigVal)
	case "rsa1024", "rsa1024int":
		return rsa.VerifyPKCS1v15(&k.Rsa1024.PublicKey, crypto.SHA256, dg[:], sigVal) == nil
	case "rsa2048":
		return rsa.VerifyPKCS1v15(&k.Rsa2048.PublicKey, crypto.SHA256, dg[:], sigVal) == nil
	}
	return false
}

func c12Signed(s string) bool { return s != "none" && s != "empty" }

// c12Concurrent: untampered packets of all signer types are validated from several goroutines at
// once (a forwarder or application validates packets on more than one goroutine): every call must
// accept, exactly as it does when the calls are made one after the other.
func c12Concurrent(c *h.Ctx, id string, r *rand.Rand) {
	c.Eval(1)
	type item struct {
		signer string
		sig    ndn.Signature
		cov    enc.Wire
	}
	var items []item
	for len(items) < 12 {
		cs := pkt.Gen(r)
		if !c12Signed(cs.Signer) {
			continue
		}
		if len(cs.PayloadBytes()) > 300 {
			b := cs.PayloadBytes()[:r.Intn(300)]
			cs.Payload = [][]byte{b}
		}
		var built *pkt.Built
		var err error
		if pi := h.Guard(func() { built, err = cs.Build() }); pi != nil || err != nil || built == nil {
			continue
		}
		sig, cov, derr := pkt.DecodeSig(cs.Kind, enc.NewBufferReader(append([]byte{}, built.Bytes...)))
		if derr != nil || sig == nil {
			continue
		}
		if !c12Validate(cs.Signer, cov, sig) {
			continue // sequential rejection is the single-packet path's business
		}
		items = append(items, item{cs.Signer, sig, cov})
	}
	var wg sync.WaitGroup
	var rejected, panicked atomic.Int64
	var firstBad atomic.Value
	for g := 0; g < 8; g++ {
		wg.Add(1)
		go func(g int) {
			defer wg.Done()
			for k := 0; k < 60; k++ {
				it := items[(g*7+k)%len(items)]
				ok := false
				if pi := h.Guard(func() { ok = c12Validate(it.signer, it.cov, it.sig) }); pi != nil {
					panicked.Add(1)
					firstBad.CompareAndSwap(nil, it.signer+": panic: "+pi.Value)
				} else if !ok {
					rejected.Add(1)
					firstBad.CompareAndSwap(nil, it.signer+": rejected")
				}
			}
		}(g)
	}
	wg.Wait()
	c.Count("concurrent_validations", 8*60)
	if rejected.Load() > 0 || panicked.Load() > 0 {
		c.Violation("C12:untampered-rejected-under-concurrent-validation", id,
			fmt.Sprintf("%d of 480 concurrent validations of untampered packets were rejected and %d panicked (each of these packets is accepted when validated alone); first: %v", rejected.Load(), panicked.Load(), firstBad.Load()), nil)
	}
}

// c12AgreementOnly makes c12One stop after oracle A (construction, independent verification,
// decoding and the matching validator on the untampered packet).
var c12AgreementOnly bool

// c12Many: many small packets per signer with a signature of variable numeric value (RSA, ECDSA):
// whether an untampered packet verifies must not depend on the value the signature happens to have
// (leading zero bytes, a short r or s, the longest possible encoding).
func c12Many(c *h.Ctx, r *rand.Rand) {
	c12AgreementOnly = true
	defer func() { c12AgreementOnly = false }()
	for _, sg := range []struct {
		signer string
		n      int
	}{{"rsa1024", c.Pick(160, 1500)}, {"rsa1024int", c.Pick(40, 400)}, {"ecc", c.Pick(60, 600)}, {"ecc224", c.Pick(30, 300)}, {"ecc384", c.Pick(20, 200)}, {"ecc521", c.Pick(20, 200)}, {"eccint", c.Pick(20, 200)}} {
		for i := 0; i < sg.n; i++ {
			id := fmt.Sprintf("many-%s-%d", sg.signer, i)
			var cs *pkt.Case
			for {
				cs = pkt.Gen(r)
				if (cs.Kind == "interest") == strings.HasSuffix(sg.signer, "int") && len(cs.Name) <= 4 {
					break
				}
			}
			cs.Signer = sg.signer
			if cs.Kind == "interest" || r.Intn(2) == 0 {
				pay := make([]byte, r.Intn(24))
				r.Read(pay)
				cs.Payload = [][]byte{pay}
			}
			if !c.Case(id) {
				continue
			}
			c12One(c, id, cs, r)
			c.Count("many_signatures:"+sg.signer, 1)
		}
	}
}

func c12Run(c *h.Ctx) {
	r := c.Rng("c12")
	n := c.Pick(40, 1200)
	// one HMAC key length per child process: below, at and beyond the 64-byte block size of SHA-256
	pkt.HmacKeyLen = []int{0, 1, 32, 64, 65, 80, 128, 200}[c.Batch%8]
	c.Distinct(fmt.Sprintf("hmac-key-len=%d", pkt.HmacKeyLen))
	pkt.GetKeys()
	for i := 0; i < n; i++ {
		id := fmt.Sprintf("p%d", i)
		var cs *pkt.Case
		for {
			cs = pkt.Gen(r)
			// only cases that exercise signing or the parameters digest
			if c12Signed(cs.Signer) || (cs.Kind == "interest" && cs.Payload != nil) {
				break
			}
		}
		// keep most packets small so that every bit position can be flipped
		if r.Intn(4) != 0 && len(cs.PayloadBytes()) > 150 {
			b := cs.PayloadBytes()[:r.Intn(150)]
			cs.Payload = [][]byte{b[:len(b)/2], b[len(b)/2:]}
		}
		sr := rand.New(rand.NewSource(r.Int63()))
		br := rand.New(rand.NewSource(r.Int63()))
		boundary := r.Intn(3) == 0
		if cs.Kind == "interest" && cs.Payload != nil && br.Intn(8) == 0 {
			cs.Payload = [][]byte{{}} // zero-length ApplicationParameters are parameters too
			boundary = false
		}
		if cs.Kind == "interest" && len(cs.Name) >= 1 && br.Intn(8) == 0 {
			// a follow-up built on an earlier parameterized Interest's name: that name's parameters
			// digest stays in the middle, the new Interest gets its own at the end
			dg := make([]byte, 32)
			br.Read(dg)
			k := br.Intn(len(cs.Name))
			if cs.Payload != nil && br.Intn(3) == 0 {
				// the earlier Interest's final name re-used as it is: the stale digest is the last
				// component and the API puts the new Interest's own digest in its place
				k = len(cs.Name)
				c.Count("interests_reissued_under_a_final_name", 1)
			}
			nn := append(enc.Name{}, cs.Name[:k]...)
			nn = append(nn, enc.Component{Typ: enc.TypeParametersSha256DigestComponent, Val: dg})
			nn = append(nn, cs.Name[k:]...)
			cs.Name = nn
			c.Count("interests_with_an_inner_parameters_digest", 1)
		}
		if !c.Case(id) {
			continue
		}
		if boundary {
			c12Boundary(cs, br)
			c.Count("length_form_boundary_cases", 1)
		}
		c12One(c, id, cs, sr)
		if i%4 == 3 && c12Signed(cs.Signer) {
			c12Reuse(c, id+"-reuse", cs, br)
		}
		if i%10 == 9 {
			c12Concurrent(c, id+"-concurrent", br)
		}
	}
	c12Many(c, c.Rng("c12-many"))
}

// c12Boundary resizes the payload so that the outer TLV's value length lands next to a
// length-form boundary (252/253, rarely 65535/65536): signers whose signature is shorter than
// their estimate then make the final length field shrink to a shorter form.
func c12Boundary(cs *pkt.Case, r *rand.Rand) {
	if c12Signed(cs.Signer) && r.Intn(2) == 0 { // variable-length signatures (estimate 72/104, actual shorter)
		if cs.Kind == "data" {
			cs.Signer = []string{"ecc", "ecc384", "ecc224", "ecc521"}[r.Intn(4)]
		} else {
			cs.Signer = "eccint"
		}
	}
	target := 249 + r.Intn(12)
	if r.Intn(10) == 0 {
		target = 65530 + r.Intn(14)
	}
	for it := 0; it < 3; it++ {
		var built *pkt.Built
		var err error
		if pi := h.Guard(func() { built, err = cs.Build() }); pi != nil || err != nil || built == nil {
			return
		}
		total := len(built.Bytes)
		hdr := 2
		if total-2 >= 253 {
			hdr = 4
		}
		if total-4 >= 65536 {
			hdr = 6
		}
		delta := target - (total - hdr)
		if delta == 0 {
			return
		}
		nl := len(cs.PayloadBytes()) + delta
		if nl < 0 {
			return
		}
		b := make([]byte, nl)
		r.Read(b)
		cs.Payload = [][]byte{b[:nl/2], b[nl/2:]}
	}
}

// c12Reuse signs several packets with ONE signer object (what an application does for the
// segments of an object) and only then serialises and verifies them: a packet must keep verifying
// after the signer has been used again.
func c12Reuse(c *h.Ctx, id string, cs *pkt.Case, r *rand.Rand) { c12ReuseAs(c, "C12", id, cs, r) }

// c12ReuseAs reports under property prop (C03 runs it for its clause "decodes to the fields supplied").
func c12ReuseAs(c *h.Ctx, prop, id string, cs *pkt.Case, r *rand.Rand) {
	c.Eval(1)
	k := 2 + r.Intn(3)
	signer := cs.MakeSigner()
	var built []*pkt.Built
	var first [][]byte
	desc := cs.Describe()
	desc["packets_signed_with_one_signer"] = k
	for j := 0; j < k; j++ {
		cj := *cs
		cj.Name = append(cs.Name.Clone(), enc.NewSequenceNumComponent(uint64(j)))
		pl := make([]byte, r.Intn(60))
		r.Read(pl)
		cj.Payload = [][]byte{pl}
		var b *pkt.Built
		var err error
		if pi := h.Guard(func() { b, err = cj.BuildWith(signer) }); pi != nil {
			c.Violation(prop+":panic:build:"+pi.Frame+":"+pi.Class, id, "packet construction panicked: "+pi.Value, desc)
			return
		}
		if err != nil {
			return // refused combinations are reported by the single-packet path
		}
		built = append(built, b)
		first = append(first, b.Bytes)
	}
	c.Count("signer_reuse_batches", 1)
	for j, b := range built {
		now := b.Wire.Join()
		if !bytes.Equal(now, first[j]) {
			desc["packet_index"] = j
			desc["wire_at_build"] = h.HexFull(first[j][:min(len(first[j]), 400)])
			desc["wire_after_later_signing"] = h.HexFull(now[:min(len(now), 400)])
			c.Violation(prop+":packet-changes-after-signer-reuse:"+cs.Kind+":"+cs.Signer, id,
				fmt.Sprintf("packet %d of %d built with one signer object changed after the signer signed later packets", j, k), desc)
			return
		}
		lay, werr := pkt.Analyse(now)
		if werr != nil || !lay.HasSig {
			continue
		}
		if !c12Independent(cs.Signer, lay.Signed, lay.SigValue) {
			desc["packet_index"] = j
			c.Violation(prop+":independent-verify-fails:"+cs.Kind+":"+cs.Signer, id, "signature value of a packet built with a reused signer object does not verify (harness crypto)", desc)
			return
		}
	}
}

func c12One(c *h.Ctx, id string, cs *pkt.Case, r *rand.Rand) {
	c.Eval(1)
	desc := cs.Describe()
	var built *pkt.Built
	var err error
	if pi := h.Guard(func() { built, err = cs.Build() }); pi != nil {
		c.Violation("C12:panic:build:"+pi.Frame+":"+pi.Class, id, "packet construction panicked: "+pi.Value, desc)
		return
	}
	if err != nil {
		c.Violation("C12:make-error:"+cs.Kind+":"+cs.Signer+":"+errClass(err), id, "packet API refused a supported combination: "+err.Error(), desc)
		return
	}
	b := built.Bytes
	desc["wire"] = h.HexFull(b[:min(len(b), 600)])
	desc["wire_len"] = len(b)
	lay, werr := pkt.Analyse(b)
	if werr != nil {
		c.Violation("C12:malformed:"+cs.Kind, id, "encoded packet is not well-formed: "+werr.Error(), desc)
		return
	}
	signed := c12Signed(cs.Signer)
	c.Distinct(fmt.Sprintf("%s|%s|params:%v|len:%d", cs.Kind, cs.Signer, cs.Payload != nil, min(len(b)/100, 9)))

	// ---- Oracle A: agreement
	if signed {
		if !lay.HasSig {
			c.Violation("C12:no-signature-value:"+cs.Kind+":"+cs.Signer, id, "signer was supplied but the packet carries no signature value", desc)
			return
		}
		if !bytes.Equal(built.SigCovered.Join(), lay.Signed) {
			c.Violation("C12:encoder-covered-differs:"+cs.Kind, id, "the bytes handed to the signer are not the signed portion defined by the NDN spec", desc)
		}
		if !c12Independent(cs.Signer, lay.Signed, lay.SigValue) {
			c.Violation("C12:independent-verify-fails:"+cs.Kind+":"+cs.Signer, id, "signature value does not verify over the spec-defined signed portion (harness crypto)", desc)
		}
	}
	viaPacket := false // decode through spec.ReadPacket (what faces and engines call) instead of ReadData/ReadInterest
	decodeAccepts := func(mut []byte, segmented bool) (accepted bool, covEq bool, perr *h.PanicInfo) {
		var sig ndn.Signature
		var cov enc.Wire
		var derr error
		perr = h.Guard(func() {
			var rd enc.ParseReader
			if segmented && len(mut) > 3 {
				p1 := 1 + r.Intn(len(mut)-1)
				p2 := 1 + r.Intn(len(mut)-1)
				if p1 > p2 {
					p1, p2 = p2, p1
				}
				rd = enc.NewWireReader(pkt.Segment(mut, []int{p1, p2}))
			} else {
				rd = enc.NewBufferReader(mut)
			}
			if viaPacket {
				p, ctx, err := spec.ReadPacket(rd)
				switch {
				case err != nil:
					derr = err
				case cs.Kind == "data" && p.Data != nil:
					sig, cov = p.Data.Signature(), ctx.Data_context.SigCovered()
				case cs.Kind == "interest" && p.Interest != nil:
					sig, cov = p.Interest.Signature(), ctx.Interest_context.SigCovered()
				default:
					derr = fmt.Errorf("decoded as another packet type")
				}
			} else {
				sig, cov, derr = pkt.DecodeSig(cs.Kind, rd)
			}
			if derr != nil {
				return
			}
			if signed {
				accepted = c12Validate(cs.Signer, cov, sig)
			} else {
				accepted = true // unsigned Interest with parameters: the digest check inside ReadInterest is the validator
			}
			covEq = bytes.Equal(cov.Join(), lay.Signed)
		})
		return
	}
	for _, seg := range []bool{false, true} {
		acc, covEq, pi := decodeAccepts(append([]byte{}, b...), seg)
		if pi != nil {
			c.Violation("C12:panic:decode:"+pi.Frame+":"+pi.Class, id, "decoder/validator panicked on an untampered packet: "+pi.Value, desc)
			return
		}
		if !acc {
			c.Violation(fmt.Sprintf("C12:untampered-rejected:%s:%s:seg=%v", cs.Kind, cs.Signer, seg), id, "untampered packet is rejected by the decoder or the matching validator", desc)
			return
		}
		if signed && !covEq {
			c.Violation(fmt.Sprintf("C12:parser-covered-differs:%s:seg=%v", cs.Kind, seg), id, "signed portion reported by the parser differs from the spec-defined signed portion", desc)
		}
	}
	c.Count("agreement_checked", 1)
	if c12AgreementOnly {
		c.Count("agreement_only_packets", 1)
		return
	}

	// ---- Oracle B: single bit flips
	var positions []int // bit positions
	addRange := func(a, z int) {
		for p := a; p < z; p++ {
			for bit := 0; bit < 8; bit++ {
				positions = append(positions, p*8+bit)
			}
		}
	}
	if signed {
		for _, rg := range lay.SignedRanges {
			addRange(rg[0], rg[1])
		}
		addRange(lay.SigValOff, lay.SigValEnd)
	}
	if cs.Kind == "interest" && lay.ParamsNode != nil {
		if !signed {
			addRange(lay.ParamsNode.Off, lay.ParamsNode.End)
		}
	}
	limit := c.Pick(1200, 4000)
	if len(positions) > limit {
		// all header bits of small elements first are kept by sampling uniformly
		r.Shuffle(len(positions), func(i, j int) { positions[i], positions[j] = positions[j], positions[i] })
		positions = positions[:limit]
	}
	flips := 0
	for _, bp := range positions {
		mut := append([]byte{}, b...)
		mut[bp/8] ^= 1 << uint(bp%8)
		viaPacket = flips%2 == 1
		acc, _, pi := decodeAccepts(mut, flips%7 == 6)
		viaPacket = false
		flips++
		if pi != nil {
			// a crash on hostile bytes is C04's subject; here it still is "not rejected cleanly"
			c.Violation("C12:panic:tampered:"+pi.Frame+":"+pi.Class, id, "decoder/validator panicked on a tampered packet: "+pi.Value, map[string]any{"case": desc, "bit": bp})
			continue
		}
		if acc {
			where := "signed-portion"
			if bp/8 >= lay.SigValOff && bp/8 < lay.SigValEnd && signed {
				where = "signature-value"
			} else if lay.ParamsNode != nil && bp/8 >= lay.ParamsNode.Off && bp/8 < lay.ParamsNode.End {
				where = "parameters"
			}
			c.Violation(fmt.Sprintf("C12:tamper-accepted:%s:%s:%s", cs.Kind, cs.Signer, where), id,
				fmt.Sprintf("flipping bit %d of byte %d (%s) still decodes and verifies", bp%8, bp/8, where), map[string]any{"case": desc, "byte": bp / 8, "bit": bp % 8})
		}
	}
	c.Count("bit_flips", int64(flips))

	// ---- Oracle C: parameters digest
	if cs.Kind == "interest" && lay.ParamsNode != nil {
		if lay.DigestComp == nil || !bytes.Equal(b[lay.DigestComp.ValOff:lay.DigestComp.End], lay.Digest) ||
			lay.DigestComp != lay.NameNode.Children[len(lay.NameNode.Children)-1] {
			c.Violation("C12:params-digest-wrong", id, "Interest with parameters does not carry the correct digest as its last name component", desc)
		} else {
			for k := 0; k < 3; k++ {
				mut := append([]byte{}, b...)
				other := make([]byte, 32)
				r.Read(other)
				if k == 0 { // digest of the parameter *value* only (a plausible wrong choice)
					x := sha256.Sum256(b[lay.ParamsNode.ValOff:lay.ParamsNode.End])
					other = x[:]
				}
				copy(mut[lay.DigestComp.ValOff:lay.DigestComp.End], other)
				// both reader implementations: contiguous, and segmented at PRNG offsets
				for _, seg := range []bool{false, true} {
					var derr error
					var rd enc.ParseReader = enc.NewBufferReader(append([]byte{}, mut...))
					if seg {
						cuts := []int{1 + r.Intn(len(mut)-1), 1 + r.Intn(len(mut)-1), lay.ParamsNode.ValOff, lay.ParamsNode.Off}
						sort.Ints(cuts)
						rd = enc.NewWireReader(pkt.Segment(mut, cuts))
					}
					pi := h.Guard(func() { _, _, derr = pkt.DecodeSig("interest", rd) })
					if pi != nil {
						c.Violation("C12:panic:digest:"+pi.Frame+":"+pi.Class, id, "decoder panicked: "+pi.Value, desc)
					} else if derr == nil {
						rk := "contiguous"
						if seg {
							rk = "segmented"
						}
						c.Violation("C12:wrong-digest-accepted:"+rk, id, "Interest whose parameters digest was replaced still decodes ("+rk+" reader)", desc)
					}
					c.Count("digest_replacements", 1)
				}
			}
		}
	}
	c.Sample(map[string]any{"case": cs.Describe(), "bit_flips": flips})
}

func init() {
	h.Register(&h.Prop{
		ID:    "C12",
		Level: "exploration",
		Rule: "packets from the C03 generator restricted to signed packets and Interests with parameters; per packet: (A) signer input == parser's signed portion == spec-defined signed portion located by the independent walker, matching validator accepts and harness crypto verifies; " +
			"(B) every single-bit flip (all positions for small packets, a uniform sample otherwise) inside signed portion / signature value / parameters must be rejected by decode or validator; (C) wrong digests rejected; " +
			"distinct = (kind, signer, parameters present, length decile)",
		Assumptions: []string{"an Interest name with more than one ParametersSha256Digest component is outside the NDN packet format (exactly one is allowed); for such names - a follow-up built on an earlier parameterized Interest's name - the last one is taken as this Interest's digest and the earlier ones as ordinary signed components, which is the encoder's convention", "signed portion per NDN packet spec v0.3 computed by internal/tlvwalk", "Go crypto library used by the harness for the independent verification"},
		Batches:     func(t bool) int { return 16 },
		ChildTimeoutS: func(t bool) int {
			if t {
				return 3000
			}
			return 500
		},
		Run:         c12Run,
		MinDistinct: 20,
		Floors:      map[string]int64{"bit_flips": 1000, "agreement_checked": 10},
	})
}
