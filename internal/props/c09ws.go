package props

import (
	"fmt"
	"net"
	"net/http"
	"net/url"
	"time"

	"github.com/gorilla/websocket"
	defn "github.com/named-data/ndnd/fw/defn"
	"github.com/named-data/ndnd/fw/face"

	"verif/internal/h"
)

// ---- C09: scope classification of WebSocket faces. The connection is a real WebSocket connection
// (HTTP upgrade over a loopback TCP socket, gorilla client); only the peer address the accepted
// socket reports is substituted, so that peers on addresses this host cannot produce (another
// IPv4 host, global IPv6, IPv6 link-local with a zone) are covered.

type c09AddrConn struct {
	net.Conn
	ra net.Addr
}

func (a *c09AddrConn) RemoteAddr() net.Addr { return a.ra }

type c09AddrListener struct {
	net.Listener
	ra net.Addr
}

func (l *c09AddrListener) Accept() (net.Conn, error) {
	cn, err := l.Listener.Accept()
	if err != nil {
		return nil, err
	}
	return &c09AddrConn{cn, l.ra}, nil
}

func c09WebSocket(c *h.Ctx) {
	fwenvLoadDefault()
	cases := []struct {
		addr  net.Addr
		local bool
	}{
		{&net.TCPAddr{IP: net.ParseIP("127.0.0.1"), Port: 40001}, true},
		{&net.TCPAddr{IP: net.ParseIP("127.9.9.9"), Port: 40002}, true},
		{&net.TCPAddr{IP: net.ParseIP("::1"), Port: 40003}, true},
		{&net.TCPAddr{IP: net.ParseIP("192.0.2.55"), Port: 40004}, false},
		{&net.TCPAddr{IP: net.ParseIP("10.1.2.3"), Port: 40005}, false},
		{&net.TCPAddr{IP: net.ParseIP("2001:db8::9"), Port: 40006}, false},
		{&net.TCPAddr{IP: net.ParseIP("fe80::1234"), Port: 40007, Zone: "eth0"}, false},
		{&net.TCPAddr{IP: net.ParseIP("fe80::1"), Port: 40008, Zone: "2"}, false},
		{&net.TCPAddr{IP: net.ParseIP("fd00::5"), Port: 40009}, false},
	}
	for i, t := range cases {
		id := fmt.Sprintf("websocket%d", i)
		if !c.Case(id) {
			continue
		}
		c.Eval(1)
		base, err := net.Listen("tcp4", "127.0.0.1:0")
		if err != nil {
			c.Note("websocket", "cannot listen: "+err.Error())
			return
		}
		up := websocket.Upgrader{CheckOrigin: func(*http.Request) bool { return true }}
		got := make(chan *websocket.Conn, 1)
		srv := &http.Server{Handler: http.HandlerFunc(func(w http.ResponseWriter, r *http.Request) {
			cn, err := up.Upgrade(w, r, nil)
			if err != nil {
				got <- nil
				return
			}
			got <- cn
		})}
		go srv.Serve(&c09AddrListener{base, t.addr})
		cl, _, err := websocket.DefaultDialer.Dial("ws://"+base.Addr().String()+"/", nil)
		var sc *websocket.Conn
		if err == nil {
			select {
			case sc = <-got:
			case <-time.After(5 * time.Second):
			}
		}
		if sc == nil {
			c.Count("transports_not_constructible", 1)
			if cl != nil {
				cl.Close()
			}
			srv.Close()
			continue
		}
		var scope defn.Scope = defn.Unknown
		lu, _ := url.Parse("ws://" + base.Addr().String())
		pi := h.Guard(func() {
			tr := face.NewWebSocketTransport(defn.MakeWebSocketServerFaceURI(lu), sc)
			scope = tr.Scope()
		})
		cl.Close()
		sc.Close()
		srv.Close()
		if pi != nil {
			c.Violation("C09:panic:websocket-transport:"+pi.Frame+":"+pi.Class, id, "NewWebSocketTransport panicked: "+pi.Value, map[string]any{"peer": t.addr.String()})
			continue
		}
		c.Count("transports_classified", 1)
		c.Distinct(fmt.Sprintf("transport|websocket|peer-kind=%d|local=%v", i, t.local))
		want := defn.NonLocal
		if t.local {
			want = defn.Local
		}
		if scope != want {
			c.Violation(fmt.Sprintf("C09:transport-scope-wrong:websocket:peer-loopback=%v", t.local), id,
				fmt.Sprintf("a WebSocket face whose peer address is %s is classified as scope %d (local=1, non-local=0; the forwarder's /localhost checks test for non-local)", t.addr, scope), map[string]any{"peer": t.addr.String()})
		}
	}
}
