package props

import (
	"fmt"
	"math/rand"
	"net"
	"time"

	"github.com/named-data/ndnd/fw/defn"
	"github.com/named-data/ndnd/fw/dispatch"
	"github.com/named-data/ndnd/fw/face"
	enc "github.com/named-data/ndnd/std/encoding"
	spec "github.com/named-data/ndnd/std/ndn/spec_2022"

	"verif/internal/h"
	"verif/internal/tlvwalk"
)

// c10Shared: the forwarder hands ONE packet object to every face a packet goes out on (multicast,
// several pending downstreams). Face A is a real TCP face whose peer does not read, so its send queue
// backs up; face B is idle. A packet without a congestion mark is sent on A and then on B through the
// faces' own SendPacket queues: what B's peer reassembles must be that packet, with its PIT token and
// without a congestion mark it never had.
func c10Shared(c *h.Ctx, id string, r *rand.Rand) {
	c.Eval(1)
	ln, err := net.Listen("tcp4", "127.0.0.1:0")
	if err != nil {
		c.Inconclusive("cannot listen: " + err.Error())
		return
	}
	defer ln.Close()
	ach := make(chan net.Conn, 1)
	go func() {
		cn, _ := ln.Accept()
		ach <- cn
	}()
	peer, err := net.Dial("tcp4", ln.Addr().String())
	if err != nil {
		c.Inconclusive("cannot dial: " + err.Error())
		return
	}
	defer peer.Close() // the peer never reads
	srv := <-ach
	if srv == nil {
		c.Inconclusive("accept failed")
		return
	}
	tt, err := face.AcceptUnicastTCPTransport(srv, nil, face.PersistencyPersistent)
	if err != nil {
		c.Inconclusive("cannot build tcp transport: " + err.Error())
		return
	}
	opts := face.MakeNDNLPLinkServiceOptions()
	opts.IsFragmentationEnabled = false
	a := face.MakeNDNLPLinkService(tt, opts)
	a.Run(nil)
	defer tt.Close()
	btr := face.NewVerifTransportFD(int(c.Batch)*1000+650+r.Intn(40), defn.NonLocal, defn.PointToPoint, defn.MaxNDNPacketSize)
	b := face.MakeNDNLPLinkService(btr, face.MakeNDNLPLinkServiceOptions())
	b.Run(nil)
	defer btr.Close()
	mk := func(size int) *defn.Pkt {
		wire := c10Packet(r, size, false)
		l3, _, err := spec.ReadPacket(enc.NewBufferReader(append([]byte{}, wire...)))
		if err != nil {
			return nil
		}
		return &defn.Pkt{Raw: wire, L3: l3}
	}
	inFace := uint64(77)
	// back face A up: a few thousand large packets towards a peer that does not read
	for i := 0; i < 3000; i++ {
		if p := mk(8000); p != nil {
			a.SendPacket(dispatch.OutPkt{Pkt: p, PitToken: []byte{0, 0, 0, 0, 0, 1}, InFace: &inFace})
		}
	}
	btr.TakeFrames()
	n := 5 + r.Intn(10)
	var shared []*defn.Pkt
	for i := 0; i < n; i++ {
		var p *defn.Pkt
		for tries := 0; p == nil && tries < 20; tries++ {
			p = mk(200 + r.Intn(3000)) // some exact sizes cannot be built; take another one
		}
		if p == nil {
			c.Inconclusive("harness packet does not parse")
			return
		}
		shared = append(shared, p)
		tok := []byte{0, 0, 0, 0, 1, byte(i)}
		a.SendPacket(dispatch.OutPkt{Pkt: p, PitToken: tok, InFace: &inFace})
		b.SendPacket(dispatch.OutPkt{Pkt: p, PitToken: tok, InFace: &inFace})
	}
	var frames [][]byte
	for dl := time.Now().Add(8 * time.Second); time.Now().Before(dl) && len(frames) < n; time.Sleep(time.Millisecond) {
		frames = append(frames, btr.TakeFrames()...)
	}
	c.Count("packets_shared_between_a_backed_up_and_an_idle_face", int64(n))
	c.Distinct("shared-packet-object")
	if len(frames) != n {
		c.Violation("C10:shared-packet:idle-face-frames", id, fmt.Sprintf("%d packets were sent on an idle face (after being sent on a backed-up one); its transport was handed %d frames", n, len(frames)), nil)
		return
	}
	for i, fr := range frames {
		nodes, err := tlvwalk.Walk(fr, 0, len(fr), nil, false)
		if err != nil || len(nodes) != 1 || nodes[0].Type != 0x64 {
			c.Violation("C10:shared-packet:frame-malformed", id, fmt.Sprintf("frame %d on the idle face is not one LpPacket", i), map[string]any{"frame": h.Hex(fr[:min(len(fr), 80)])})
			return
		}
		kids, _ := tlvwalk.Walk(fr, nodes[0].ValOff, nodes[0].End, nil, false)
		for _, k := range kids {
			if k.Type == 0x0340 { // CongestionMark
				c.Violation("C10:shared-packet:congestion-mark-appears", id, fmt.Sprintf("packet %d was sent without a congestion mark on a backed-up face and then on an idle face; the idle face's frame carries CongestionMark %x", i, fr[k.ValOff:k.End]),
					map[string]any{"frame_header": h.Hex(fr[:min(len(fr), 60)]), "packets": n})
				return
			}
		}
		if shared[i].CongestionMark != nil {
			c.Violation("C10:shared-packet:congestion-mark-appears", id, fmt.Sprintf("sending packet %d changed the shared packet object: it now carries congestion mark %d", i, *shared[i].CongestionMark), nil)
			return
		}
	}
}
