package props

import (
	"fmt"
	"math/rand"
	"sort"
	"time"

	dvtable "github.com/named-data/ndnd/dv/table"
	enc "github.com/named-data/ndnd/std/encoding"
	ndn_sync "github.com/named-data/ndnd/std/sync"

	"verif/internal/h"
)

// ---- C19: routes installed by the routing daemon mirror its tables; prefix logs replicate

// c19Expected computes, from scratch from router nd's current tables, the routes it must hold registered.
func c19Expected(nd *dvNode) map[string]map[uint64]uint64 {
	out := map[string]map[uint64]uint64{}
	nd.r.VerifLocked(func() {
		nt := nd.r.VerifNeighbors()
		pfx := nd.r.VerifPfx()
		for _, e := range dvtable.VerifRibEntries(nd.r.VerifRib()) {
			if e.Name.Equal(nd.name) || e.Lowest1 >= 16 {
				continue
			}
			type fc struct {
				face, cost uint64
			}
			var fes []fc
			if ns := nt.Get(e.NextHop1); ns != nil && e.NextHop1 != nil {
				fes = append(fes, fc{dvtable.VerifFaceId(ns), e.Lowest1})
			}
			if e.Lowest2 < 16 && e.NextHop2 != nil {
				if ns := nt.Get(e.NextHop2); ns != nil {
					fes = append(fes, fc{dvtable.VerifFaceId(ns), e.Lowest2})
				}
			}
			names := []string{append(e.Name.Clone(), enc.NewStringComponent(enc.TypeKeywordNameComponent, "DV")).String()}
			for _, p := range pfx.GetRouter(e.Name).Prefixes {
				names = append(names, p.Name.String())
			}
			for _, n := range names {
				for _, x := range fes {
					if out[n] == nil {
						out[n] = map[uint64]uint64{}
					}
					if c0, ok := out[n][x.face]; !ok || x.cost < c0 {
						out[n][x.face] = x.cost
					}
				}
			}
		}
	})
	return out
}

func routesStr(m map[string]map[uint64]uint64) string {
	ks := make([]string, 0, len(m))
	for k := range m {
		ks = append(ks, k)
	}
	sort.Strings(ks)
	s := ""
	for _, k := range ks {
		if len(m[k]) > 0 {
			s += k + hopsStr(m[k]) + " "
		}
	}
	return s
}

func (s *dvSim) c19Check(c *h.Ctx, id, after string, det func() map[string]any) bool {
	for _, nd := range s.nodes {
		if !nd.alive {
			continue
		}
		want := c19Expected(nd)
		got := nd.routes
		c.Count("mirror_checks", 1)
		if routesStr(got) != routesStr(want) {
			cls := "differs"
			for n, fm := range got {
				for f := range fm {
					if _, ok := want[n][f]; !ok {
						cls = "stale-route"
					}
				}
			}
			if cls == "differs" {
				for n, fm := range want {
					for f := range fm {
						if _, ok := got[n][f]; !ok {
							cls = "missing-route"
						}
					}
				}
			}
			if cls == "differs" {
				cls = "wrong-cost"
			}
			d := det()
			d["router"] = nd.name.String()
			d["registered_in_forwarder"] = routesStr(got)
			d["prescribed_by_tables"] = routesStr(want)
			d["daemon_fib_view"] = fmt.Sprint(dvtable.VerifFibView(nd.r.VerifFib()))
			c.Violation("C19:routes-do-not-mirror-tables:"+cls, id, fmt.Sprintf("after %s the routes r%d holds registered in the forwarder differ from what its tables prescribe (%s)", after, nd.idx, cls), d)
			return false
		}
	}
	return true
}

// announce / withdraw at router i (as the readvertise handler does, under the router's mutex),
// then notify every other router through its real prefix-sync update handler.
func (s *dvSim) prefixOp(i int, name enc.Name, announce bool) bool {
	nd := s.nodes[i]
	op := "withdraw"
	if announce {
		op = "announce"
	}
	s.events = append(s.events, fmt.Sprintf("r%d %s %s", i, op, name))
	nd.r.VerifLocked(func() {
		if announce {
			nd.r.VerifPfx().Announce(name.Clone())
		} else {
			nd.r.VerifPfx().Withdraw(name.Clone())
		}
	})
	return s.notifyPrefixSync(i)
}

// notifyPrefixSync delivers router i's current prefix-log sequence number to all other alive routers.
func (s *dvSim) notifyPrefixSync(i int) bool {
	nd := s.nodes[i]
	var latest uint64
	nd.r.VerifLocked(func() { latest = nd.r.VerifPfx().GetRouter(nd.name).Latest })
	for _, o := range s.nodes {
		if o == nd || !o.alive {
			continue
		}
		o.r.VerifOnPfxSyncUpdate(ndn_sync.SvSyncUpdate{NodeId: nd.name.Clone(), High: latest, Low: latest})
	}
	if !s.quiesce() {
		return false
	}
	s.drain()
	return true
}

func c19Installer(c *h.Ctx, id string, r *rand.Rand) {
	c.Eval(1)
	n := 2 + r.Intn(4)
	s := newDvSim(c, n)
	if s.bad != "" {
		c.Inconclusive(s.bad)
		return
	}
	edges := randomConnected(r, n)
	for _, e := range edges {
		s.setLink(e[0], e[1], true)
	}
	det := func() map[string]any {
		ev := s.events
		if len(ev) > 150 {
			ev = ev[len(ev)-150:]
		}
		return map[string]any{"initial_graph": fmt.Sprintf("n=%d edges=%v", n, edges), "current_graph": s.graphDesc(), "events": ev}
	}
	prefixes := []string{"/app/a", "/app/b", "/app/a/x", "/other", "/"} // "/": a router announcing the default route
	if r.Intn(2) == 0 {
		// dense multi-homing: every router announces a random half of the prefixes, so that several
		// prefixes are reachable through different sets of exit routers
		for i := range s.nodes {
			for _, ps := range prefixes {
				if r.Intn(2) == 0 {
					pn, _ := enc.NameFromStr(ps)
					if pn == nil {
						pn = enc.Name{}
					}
					if !s.prefixOp(i, pn, true) {
						c.Inconclusive(s.bad)
						return
					}
				}
			}
		}
		for k := 0; k < 3; k++ {
			if !s.round(r, [2]int{-1, -1}) {
				c.Inconclusive(s.bad)
				return
			}
		}
		c.Distinct("installer|dense-multihoming")
		if !s.c19Check(c, id, "dense multi-homed announcements", det) {
			return
		}
	}
	nSteps := 12 + r.Intn(14)
	for step := 0; step < nSteps; step++ {
		what := ""
		switch k := r.Intn(11); {
		case k < 4:
			what = "exchange round"
			if !s.round(r, [2]int{-1, -1}) {
				c.Inconclusive(s.bad)
				return
			}
		case k < 7:
			i := r.Intn(n)
			if !s.nodes[i].alive {
				continue
			}
			pn, _ := enc.NameFromStr(prefixes[r.Intn(len(prefixes))])
			if pn == nil {
				pn = enc.Name{}
			}
			ann := r.Intn(3) != 0
			what = fmt.Sprintf("prefix op at r%d", i)
			if !s.prefixOp(i, pn, ann) {
				c.Inconclusive(s.bad)
				return
			}
			c.Distinct(fmt.Sprintf("installer|prefix-op|announce=%v", ann))
		case k < 8:
			var es [][2]int
			for e := range s.adj {
				es = append(es, e)
			}
			if len(es) == 0 {
				continue
			}
			sort.Slice(es, func(i, j int) bool { return es[i][0]*10+es[i][1] < es[j][0]*10+es[j][1] })
			e := es[r.Intn(len(es))]
			what = fmt.Sprintf("link %d-%d removed", e[0], e[1])
			s.setLink(e[0], e[1], false)
			if !s.expire(e[0], e[1]) || !s.expire(e[1], e[0]) {
				c.Inconclusive(s.bad)
				return
			}
			c.Distinct("installer|link-removed")
		case k < 9:
			a, b := r.Intn(n), r.Intn(n)
			if a == b {
				continue
			}
			what = fmt.Sprintf("link %d-%d added", a, b)
			s.setLink(a, b, true)
			c.Distinct("installer|link-added")
		case k < 10 && r.Intn(2) == 0:
			// a link is re-created on a new face while the neighbour's advertisement is unchanged:
			// the next sync Interest arrives on the new face
			var es [][2]int
			for e := range s.adj {
				es = append(es, e)
			}
			if len(es) == 0 {
				continue
			}
			sort.Slice(es, func(i, j int) bool { return es[i][0]*10+es[i][1] < es[j][0]*10+es[j][1] })
			e := es[r.Intn(len(es))]
			if r.Intn(2) == 0 {
				e = [2]int{e[1], e[0]}
			}
			what = fmt.Sprintf("face of r%d towards r%d re-created", e[0], e[1])
			s.newFace(e[0], e[1])
			if !s.exchange(e[0], e[1]) {
				c.Inconclusive(s.bad)
				return
			}
			c.Count("face_changes", 1)
			c.Distinct("installer|face-re-created")
		default:
			// single exchange (partial round)
			var es [][2]int
			for e := range s.adj {
				es = append(es, e)
			}
			if len(es) == 0 {
				continue
			}
			sort.Slice(es, func(i, j int) bool { return es[i][0]*10+es[i][1] < es[j][0]*10+es[j][1] })
			e := es[r.Intn(len(es))]
			what = "single exchange"
			if !s.exchange(e[0], e[1]) {
				c.Inconclusive(s.bad)
				return
			}
		}
		if !s.c19Check(c, id, what, det) {
			return
		}
	}
	c.Count("nfd_commands_replayed", int64(s.nCmds))
	c.Sample(map[string]any{"kind": "installer", "graph": fmt.Sprintf("n=%d edges=%v", n, edges), "events": len(s.events), "commands": s.nCmds})
}

// c19Replication: a publisher's operation log is followed by a peer that catches up at random positions.
func c19Replication(c *h.Ctx, id string, r *rand.Rand) {
	c.Eval(1)
	s := newDvSim(c, 2)
	if s.bad != "" {
		c.Inconclusive(s.bad)
		return
	}
	s.setLink(0, 1, true)
	for i := 0; i < 3; i++ {
		if !s.round(r, [2]int{-1, -1}) {
			c.Inconclusive(s.bad)
			return
		}
	}
	pub, peer := s.nodes[0], s.nodes[1]
	nOps := 1 + r.Intn(400)
	if r.Intn(3) != 0 {
		nOps = 250 + r.Intn(150)
	}
	// one case in four has a publisher with a large table (130-300 distinct prefixes, mostly
	// announcements): thresholds that depend on the table size only move then
	big := r.Intn(4) == 0
	names := make([]enc.Name, 12)
	if big {
		names = make([]enc.Name, 130+r.Intn(170))
		nOps = 300 + r.Intn(150)
		c.Count("replication_cases_with_a_large_table", 1)
	}
	for i := range names {
		names[i], _ = enc.NameFromStr(fmt.Sprintf("/p/%d", i))
		if i%4 == 3 {
			// nested announcements: /p/<i-1> and something below it are both announced (and may be
			// withdrawn independently)
			names[i], _ = enc.NameFromStr(fmt.Sprintf("/p/%d/sub%d", i-1, i))
		}
	}
	var gaps []int
	sinceSync := 0
	var maxKnown uint64 // highest sequence number of the publisher's log the peer has applied so far in this case
	pubOp := func() {
		nm := names[r.Intn(len(names))]
		ann := r.Intn(3) != 0
		pub.r.VerifLocked(func() {
			if ann {
				pub.r.VerifPfx().Announce(nm.Clone())
			} else {
				pub.r.VerifPfx().Withdraw(nm.Clone())
			}
		})
	}
	// spinning: the quiescence detector gave up because the routers never stop working. If that work is
	// a fetch loop - fetches keep being answered while the sequence number the peer has applied stays
	// put - it is reported as what it is instead of an inconclusive run.
	spinning := func(when string) bool {
		sample := func() (int, uint64, uint64) {
			var known, latest uint64
			peer.r.VerifLocked(func() {
				pr := peer.r.VerifPfx().GetRouter(pub.name)
				known, latest = pr.Known, pr.Latest
			})
			s.mu.Lock()
			defer s.mu.Unlock()
			return s.nPfxDelivered, known, latest
		}
		d0, k0, _ := sample()
		for i := 0; i < 40; i++ {
			time.Sleep(50 * time.Millisecond)
			d1, k1, l1 := sample()
			if k1 != k0 {
				d0, k0 = d1, k1
				continue
			}
			if d1-d0 >= 30 && k1 < l1 {
				c.Violation("C19:replication-fetches-without-progress", id, fmt.Sprintf("%s: the routers never come to rest: %d more prefix-table fetches of the peer were answered while it kept the publisher's log applied up to sequence %d of %d", when, d1-d0, k1, l1),
					map[string]any{"ops_since_last_sync": sinceSync, "sync_gaps": gaps, "publisher_table_size": len(names), "events_tail": s.events[max(0, len(s.events)-30):]})
				return true
			}
		}
		return false
	}
	check := func(when string) bool {
		heard := false
		if (sinceSync > 100 && r.Intn(2) == 0) || (sinceSync >= 1 && sinceSync <= 100 && r.Intn(4) == 0) {
			heard = true
			// slow snapshot: the reply to the peer's snapshot fetch is produced now but arrives only
			// after the publisher has logged more operations and the peer has heard about them
			s.holdPrefixReplies(true)
			if !s.notifyPrefixSync(0) {
				if !spinning(when) {
					c.Inconclusive(s.bad)
				}
				return false
			}
			time.Sleep(2 * time.Millisecond)
			s.quiesce()
			for m := 1 + r.Intn(4); m > 0; m-- {
				pubOp()
			}
			if !s.notifyPrefixSync(0) {
				if !spinning(when) {
					c.Inconclusive(s.bad)
				}
				return false
			}
			s.holdPrefixReplies(false)
			n, ok := s.releasePrefixReplies()
			if !ok {
				if !spinning(when) {
					c.Inconclusive(s.bad)
				}
				return false
			}
			if n > 0 {
				c.Count("stale_snapshots_delivered", int64(n))
				c.Distinct("replication|stale-snapshot")
			}
			when += " (a fetch reply delayed past later operations the peer heard about meanwhile)"
			c.Count("updates_heard_during_a_pending_fetch", 1)
		}
		// one catch-up in five loses its first fetch (timeout): the router's own retry must recover
		lostBefore := s.nLostPfx
		if !heard && r.Intn(5) == 0 {
			s.mu.Lock()
			s.losePfx = 1
			s.mu.Unlock()
		}
		// peer catches up. When it has already heard of the latest sequence number while its fetch
		// was pending, nothing tells it again (the sync layer reports a sequence number once)
		if !heard && !s.notifyPrefixSync(0) {
			if !spinning(when) {
				c.Inconclusive(s.bad)
			}
			return false
		}
		// wait until the peer's known sequence reaches the latest (the fetch loop is the router's own)
		deadline := time.Now().Add(20 * time.Second)
		progressAt := -1
		for {
			var known, latest uint64
			peer.r.VerifLocked(func() {
				pr := peer.r.VerifPfx().GetRouter(pub.name)
				known, latest = pr.Known, pr.Latest
			})
			if known < maxKnown {
				// monotonicity: what the peer has applied of the publisher's log never shrinks
				c.Violation("C19:replica-sequence-went-backwards", id, fmt.Sprintf("%s: the peer had applied the publisher's log up to sequence %d and is now back at %d (latest %d)", when, maxKnown, known, latest),
					map[string]any{"ops_since_last_sync": sinceSync, "sync_gaps": gaps, "publisher_table_size": len(names), "events_tail": s.events[max(0, len(s.events)-30):]})
				return false
			}
			if known > maxKnown || progressAt < 0 {
				s.mu.Lock()
				progressAt = s.nPfxDelivered
				s.mu.Unlock()
			}
			maxKnown = known
			if known >= latest {
				break
			}
			// every answered fetch carries the next log entry or a snapshot beyond what the peer has:
			// thirty answered fetches in a row that leave the applied sequence number where it was are
			// a fetch loop that makes no progress (not a slow one)
			s.mu.Lock()
			answered := s.nPfxDelivered - progressAt
			s.mu.Unlock()
			if answered >= 30 {
				c.Violation("C19:replication-fetches-without-progress", id, fmt.Sprintf("%s: the peer's last %d prefix-table fetches were all answered, yet it still has the publisher's log applied only up to sequence %d of %d", when, answered, known, latest),
					map[string]any{"ops_since_last_sync": sinceSync, "sync_gaps": gaps, "publisher_table_size": len(names), "events_tail": s.events[max(0, len(s.events)-30):]})
				return false
			}
			if time.Now().After(deadline) {
				if s.nLostPfx > lostBefore {
					// the only disturbance was one lost fetch, whose retry delay is 100 ms
					c.Violation("C19:replication-stalls-after-lost-fetch", id, fmt.Sprintf("%s: one prefix-table fetch was lost (timeout); 20 s later the peer still knows sequence %d of %d and fetches nothing", when, known, latest),
						map[string]any{"known": known, "latest": latest, "events_tail": s.events[max(0, len(s.events)-30):]})
					return false
				}
				c.Inconclusive("peer did not catch up within 20 s")
				return false
			}
			time.Sleep(time.Millisecond)
			s.quiesce()
		}
		var want, got []string
		pub.r.VerifLocked(func() {
			for _, p := range pub.r.VerifPfx().GetRouter(pub.name).Prefixes {
				want = append(want, p.Name.String())
			}
		})
		peer.r.VerifLocked(func() {
			for _, p := range peer.r.VerifPfx().GetRouter(pub.name).Prefixes {
				got = append(got, p.Name.String())
			}
		})
		sort.Strings(want)
		sort.Strings(got)
		c.Count("replication_checks", 1)
		if s.nLostPfx > lostBefore {
			c.Count("catch_ups_after_a_lost_fetch", 1)
		}
		s.mu.Lock()
		s.losePfx = 0
		s.mu.Unlock()
		if fmt.Sprint(want) != fmt.Sprint(got) {
			gapCls := "sequential"
			if sinceSync > 100 {
				gapCls = "snapshot"
			}
			c.Violation("C19:prefix-log-replica-differs:"+gapCls, id, fmt.Sprintf("%s: the peer reconstructed %v for the publisher, its announced set is %v", when, got, want),
				map[string]any{"ops_since_last_sync": sinceSync, "sync_gaps": gaps, "events_tail": s.events[max(0, len(s.events)-40):]})
			return false
		}
		// the routes the peer has installed must follow the reconstructed set (also when the
		// catch-up came as a snapshot that only withdrew prefixes)
		s.quiesce()
		s.drain()
		if !s.c19Check(c, id, when+" (replication)", func() map[string]any {
			return map[string]any{"ops_since_last_sync": sinceSync, "sync_gaps": gaps, "events_tail": s.events[max(0, len(s.events)-40):]}
		}) {
			return false
		}
		gapCls := "le100"
		if sinceSync > 100 {
			gapCls = "gt100"
		} else if sinceSync == 100 || sinceSync == 99 {
			gapCls = "boundary"
		}
		c.Distinct("replication|gap=" + gapCls)
		gaps = append(gaps, sinceSync)
		sinceSync = 0
		return true
	}
	// netWithdraw: more than a hundred log entries whose net effect is the withdrawal of prefixes the
	// peer already knows (one withdrawal, then announce/withdraw pairs of another name): the peer
	// catches up through a snapshot that adds nothing
	netWithdraw := func() {
		var have []enc.Name
		pub.r.VerifLocked(func() {
			for _, p := range pub.r.VerifPfx().GetRouter(pub.name).Prefixes {
				have = append(have, p.Name.Clone())
			}
		})
		if len(have) == 0 {
			return
		}
		sort.Slice(have, func(i, j int) bool { return have[i].String() < have[j].String() })
		victim := have[r.Intn(len(have))]
		scratch, _ := enc.NameFromStr("/p/scratch")
		pub.r.VerifLocked(func() {
			pub.r.VerifPfx().Withdraw(victim.Clone())
			for i := 0; i < 55+r.Intn(10); i++ {
				pub.r.VerifPfx().Announce(scratch.Clone())
				pub.r.VerifPfx().Withdraw(scratch.Clone())
			}
		})
		sinceSync += 111
		s.events = append(s.events, fmt.Sprintf("pub withdraws %s then churns /p/scratch (net effect: one withdrawal, > 100 log entries)", victim))
		c.Count("net_withdrawal_snapshots", 1)
	}
	nextSync := []int{1, 3, 99, 100, 101, 150, 7}[r.Intn(7)]
	for k := 0; k < nOps; k++ {
		if sinceSync == 0 && k > 0 && r.Intn(3) == 0 {
			netWithdraw()
			if !check(fmt.Sprintf("after %d operations and a net-withdrawal burst", k)) {
				return
			}
		}
		nm := names[r.Intn(len(names))]
		ann := r.Intn(3) != 0
		if big {
			ann = r.Intn(10) != 0
		}
		var before, after uint64
		pub.r.VerifLocked(func() {
			before = pub.r.VerifPfx().GetRouter(pub.name).Latest
			if ann {
				pub.r.VerifPfx().Announce(nm.Clone())
			} else {
				pub.r.VerifPfx().Withdraw(nm.Clone())
			}
			after = pub.r.VerifPfx().GetRouter(pub.name).Latest
		})
		if after != before {
			sinceSync++
			s.events = append(s.events, fmt.Sprintf("pub op %v %s seq=%d", ann, nm, after))
		}
		if sinceSync >= nextSync {
			if !check(fmt.Sprintf("after %d operations", k+1)) {
				return
			}
			nextSync = []int{1, 2, 5, 99, 100, 101, 102, 130, 130}[r.Intn(9)]
		}
	}
	if !check("at the end of the log") {
		return
	}
	c.Count("log_operations", int64(nOps))
	c.Sample(map[string]any{"kind": "replication", "operations": nOps, "sync_gaps": gaps})
}

func c19Run(c *h.Ctx) {
	for k := 0; k < c.Pick(25, 300); k++ {
		id := fmt.Sprintf("inst%d", k)
		if c.Case(id) {
			c19Installer(c, id, c.Rng(id))
		}
	}
	for k := 0; k < c.Pick(3, 30); k++ {
		id := fmt.Sprintf("nfdc%d", k)
		if c.Case(id) {
			c19Nfdc(c, id, c.Rng(id))
		}
	}
	if c.Batch == 3 || (c.Thorough() && c.Batch%4 == 3) {
		if id := "nfdcburst"; c.Case(id) {
			c19NfdcBurst(c, id, c.Rng(id))
		}
	}
	for k := 0; k < c.Pick(8, 100); k++ {
		id := fmt.Sprintf("repl%d", k)
		if c.Case(id) {
			c19Replication(c, id, c.Rng(id))
		}
	}
}

func init() {
	h.Register(&h.Prop{
		ID: "C19", Level: "exploration",
		Rule: "(a) on the C18 harness (2-4 routers, random connected graph): exchange rounds, single exchanges, prefix announcements/withdrawals (multi-homed prefixes included) propagated through the real prefix-sync update handler and the owner's real publication store, link removals (neighbour expiry) and additions; after every event the daemon's own follow-up goroutines are awaited, its management command queue is drained and the rib register/unregister stream is replayed into a route table, " +
			"which must equal a from-scratch computation from the router's current RIB x prefix table x neighbour faces (best and finite second-best next hop faces, minimum cost per face, <router>/32=DV and every announced prefix); (b) a publisher performs 1-400 announce/withdraw operations while a peer catches up after gaps of 1,2,5,99,100,101,130,150 operations (gap > 100 forces the snapshot path) using the router's own fetch loop; after each catch-up the peer's prefix set for the publisher must equal the publisher's announced set; " +
			"(c) the real nfdc command thread against an engine that transiently refuses PRNG-chosen invocations: the accepted invocations, in order, must leave the routes the issued register/unregister stream prescribes; one burst of 4300-4800 commands (more than the queue holds) must reach the forwarder completely; distinct = event classes and sync-gap classes",
		Assumptions: []string{"prefix-table Interests are relayed by the harness only while the owner is reachable; lost Interests are simply not answered", "neighbour infrastructure routes (/localhop, sync prefixes) are filtered by name and not part of the mirror comparison", "hooks: dv/dv, dv/table, dv/nfdc verif_hooks.go"},
		Batches:     func(t bool) int { return 16 },
		ChildTimeoutS: func(t bool) int {
			if t {
				return 3400
			}
			return 900
		},
		Run:         c19Run,
		MinDistinct: 6,
		Floors:      map[string]int64{"mirror_checks": 1000, "replication_checks": 30},
	})
}
