package props

import (
	"bytes"
	"fmt"
	"math/rand"
	"net"
	"time"

	"github.com/named-data/ndnd/fw/defn"
	"github.com/named-data/ndnd/fw/dispatch"
	"github.com/named-data/ndnd/fw/face"
	fwfw "github.com/named-data/ndnd/fw/fw"
	enc "github.com/named-data/ndnd/std/encoding"
	spec "github.com/named-data/ndnd/std/ndn/spec_2022"

	"verif/internal/fwenv"
	"verif/internal/h"
)

// c10Listener: the frames of a packet reach the forwarder through its real UDP listener, from a peer
// it has not heard of before - so the first frame is read by the listener's accept loop, the rest by
// the new face's own receive loop. Frame sizes go up to the MTU of 8800 (one big frame, or a first
// fragment far beyond 1500 bytes). The new face must hand up exactly the packet that was sent.
func c10Listener(c *h.Ctx, id string, r *rand.Rand) {
	rts := fwenv.InstallRecThreads(2)
	fwfw.Threads = make([]*fwfw.Thread, 2)
	probe, err := net.ListenPacket("udp4", "127.0.0.1:0")
	if err != nil {
		c.Inconclusive("cannot find a free UDP port: " + err.Error())
		return
	}
	port := probe.LocalAddr().(*net.UDPAddr).Port
	probe.Close()
	ln, err := face.MakeUDPListener(defn.MakeUDPFaceURI(4, "127.0.0.1", uint16(port)))
	if err != nil {
		c.Inconclusive("cannot make the UDP listener: " + err.Error())
		return
	}
	go ln.Run()
	defer func() {
		done := make(chan struct{})
		go func() { ln.Close(); close(done) }()
		select {
		case <-done:
		case <-time.After(5 * time.Second):
		}
	}()
	time.Sleep(30 * time.Millisecond)
	for k := 0; k < 8; k++ {
		cid := fmt.Sprintf("%s/peer%d", id, k)
		c.Eval(1)
		mtu := []int{8800, 8800, 4000, 1500, 3000}[r.Intn(5)]
		size := []int{200, 1400, 1501, 1600, 3990, 4100, 7000, 8600}[r.Intn(8)]
		wire := c10Packet(r, size, r.Intn(3) == 0)
		// a twin sender link service tells which frames a peer with that MTU emits
		stx := face.NewVerifTransport(defn.NonLocal, defn.PointToPoint, mtu)
		o := face.MakeNDNLPLinkServiceOptions()
		o.IsFragmentationEnabled = true
		sender := face.MakeNDNLPLinkService(stx, o)
		l3, _, perr := spec.ReadPacket(enc.NewBufferReader(append([]byte{}, wire...)))
		if perr != nil {
			c.Inconclusive("cannot parse the harness's own packet: " + perr.Error())
			return
		}
		inFace := uint64(77)
		pkt := &defn.Pkt{Raw: append([]byte{}, wire...), L3: l3, IncomingFaceID: &inFace}
		if pi := h.Guard(func() { face.VerifSend(sender, dispatch.OutPkt{Pkt: pkt, InFace: &inFace}) }); pi != nil {
			c.Violation("C10:panic:send:"+pi.Frame+":"+pi.Class, cid, "sendPacket panicked: "+pi.Value, nil)
			return
		}
		frames := stx.TakeFrames()
		if len(frames) == 0 {
			continue
		}
		peer, err := net.DialUDP("udp4", &net.UDPAddr{IP: net.ParseIP("127.0.0.1")}, &net.UDPAddr{IP: net.ParseIP("127.0.0.1"), Port: port})
		if err != nil {
			c.Inconclusive("cannot open the peer's socket: " + err.Error())
			return
		}
		for _, t := range rts {
			t.Take()
		}
		maxFrame := 0
		for i, fr := range frames {
			maxFrame = max(maxFrame, len(fr))
			peer.Write(fr)
			if i == 0 {
				time.Sleep(20 * time.Millisecond) // the new face must exist before the remaining frames arrive
			}
		}
		var got []*defn.Pkt
		for dl := time.Now().Add(6 * time.Second); time.Now().Before(dl) && len(got) == 0; time.Sleep(time.Millisecond) {
			got = append(got, fwenv.TakeAll(rts)...)
		}
		time.Sleep(5 * time.Millisecond)
		got = append(got, fwenv.TakeAll(rts)...)
		peer.Close()
		c.Count("udp_listener_new_peers", 1)
		c.Distinct(fmt.Sprintf("udp-listener|frames=%d|first-frame>1500=%v", min(len(frames), 4), len(frames[0]) > 1500))
		det := map[string]any{"packet_bytes": len(wire), "peer_mtu": mtu, "frames": len(frames), "first_frame_bytes": len(frames[0]), "largest_frame_bytes": maxFrame, "delivered": len(got)}
		if len(got) != 1 || !bytes.Equal(got[0].Raw, wire) {
			c.Violation(fmt.Sprintf("C10:udp-listener:packet-not-delivered-once:first-frame>1500=%v", len(frames[0]) > 1500), cid,
				fmt.Sprintf("a new UDP peer sent a %d-byte packet as %d frame(s) (first frame %d bytes) to the forwarder's UDP listener; the new face handed up %d packets", len(wire), len(frames), len(frames[0]), len(got)), det)
			return
		}
	}
}
