package props

import (
	"fmt"
	"math/rand"
	"sort"
	"strings"

	"github.com/named-data/ndnd/fw/table"
	enc "github.com/named-data/ndnd/std/encoding"

	"verif/internal/gen"
	"verif/internal/h"
)

// ---- C06: the FIB always equals the flattening of the currently registered routes
// ---- (the same histories feed the RIB part of C08's structural monitor)

type refRoute struct {
	face, origin, cost, flags uint64
}

type refRib struct {
	names  map[string]enc.Name
	routes map[string][]*refRoute // prefix key -> routes (unique per face+origin)
}

func newRefRib() *refRib {
	return &refRib{names: map[string]enc.Name{}, routes: map[string][]*refRoute{}}
}

func (r *refRib) add(n enc.Name, rt refRoute) {
	k := nkey(n)
	r.names[k] = n.Clone()
	for _, e := range r.routes[k] {
		if e.face == rt.face && e.origin == rt.origin {
			e.cost, e.flags = rt.cost, rt.flags
			return
		}
	}
	c := rt
	r.routes[k] = append(r.routes[k], &c)
}

func (r *refRib) remove(n enc.Name, face, origin uint64) {
	k := nkey(n)
	rs := r.routes[k]
	for i, e := range rs {
		if e.face == face && e.origin == origin {
			r.routes[k] = append(rs[:i:i], rs[i+1:]...)
			break
		}
	}
	if len(r.routes[k]) == 0 {
		delete(r.routes, k)
		delete(r.names, k)
	}
}

func (r *refRib) cleanFace(face uint64) {
	for k, rs := range r.routes {
		var keep []*refRoute
		for _, e := range rs {
			if e.face != face {
				keep = append(keep, e)
			}
		}
		if len(keep) == 0 {
			delete(r.routes, k)
			delete(r.names, k)
		} else {
			r.routes[k] = keep
		}
	}
}

func hasCapture(rs []*refRoute) bool {
	for _, e := range rs {
		if e.flags&2 != 0 {
			return true
		}
	}
	return false
}

// flatten computes, from scratch, the FIB the statement prescribes.
func (r *refRib) flatten() map[string]map[uint64]uint64 {
	out := map[string]map[uint64]uint64{}
	for k, rs := range r.routes {
		n := r.names[k]
		contrib := append([]*refRoute{}, rs...)
		if !hasCapture(rs) {
			for l := len(n) - 1; l >= 0; l-- {
				anc := r.routes[nkey(n[:l])]
				if len(anc) == 0 {
					continue
				}
				for _, e := range anc {
					if e.flags&1 != 0 {
						contrib = append(contrib, e)
					}
				}
				if hasCapture(anc) {
					break
				}
			}
		}
		m := map[uint64]uint64{}
		for _, e := range contrib {
			if c, ok := m[e.face]; !ok || e.cost < c {
				m[e.face] = e.cost
			}
		}
		out[k] = m
	}
	return out
}

type ribOp struct {
	Op     string
	Name   string
	Face   uint64
	Origin uint64
	Cost   uint64
	Flags  uint64
}

func ribShape(ref *refRib, n enc.Name, op string) string {
	gapOnPath, capAnc, capSelf, multiOrigin, hasDesc := false, false, hasCapture(ref.routes[nkey(n)]), false, false
	for l := len(n) - 1; l >= 1; l-- {
		if len(ref.routes[nkey(n[:l])]) == 0 {
			gapOnPath = true
		} else if hasCapture(ref.routes[nkey(n[:l])]) {
			capAnc = true
		}
	}
	seen := map[uint64]int{}
	for _, e := range ref.routes[nkey(n)] {
		seen[e.face]++
		if seen[e.face] > 1 {
			multiOrigin = true
		}
	}
	for k := range ref.routes {
		if m := ref.names[k]; len(m) > len(n) && n.IsPrefix(m) {
			hasDesc = true
		}
	}
	return fmt.Sprintf("%s|gap=%v|capAnc=%v|capSelf=%v|multiOrigin=%v|desc=%v", op, gapOnPath, capAnc, capSelf, multiOrigin, hasDesc)
}

func runRibHistory(c *h.Ctx, id string, seed int64, algo string, prop string) {
	c.Eval(1)
	r := rand.New(rand.NewSource(seed))
	m := 1 + r.Intn(6)
	fibs := makeFibs(m) // leaves the hash table as the global table
	var fib *fibImpl
	if algo == "nametree" {
		fib = fibs[0]
	} else {
		fib = fibs[1]
	}
	table.FibStrategyTable = fib.t
	table.VerifResetRib()
	ref := newRefRib()
	u := gen.NewUniverse(5, false)
	probes := u.All(4)
	nOps := 15 + r.Intn(30)
	var hist []ribOp
	fail := func(key, what string, extra map[string]any) {
		d := map[string]any{"fib": algo, "m": m, "history": hist}
		for k, v := range extra {
			d[k] = v
		}
		c.Violation(key, id, what, d)
	}
	origins := []uint64{0, 65, 128, 255}
	costs := []uint64{0, 1, 5, 10}
	// one history in six starts with a crowd: 17-40 different faces register a prefix and a longer one
	// below it (child-inherit on), so one flattened next-hop set holds more faces than any small
	// fixed-size structure expects
	if r.Intn(6) == 0 {
		parent := u.PickDepth(r, 1+r.Intn(2))
		child := u.Extend(r, parent, 2)
		nCrowd := 17 + r.Intn(24)
		for f := 0; f < nCrowd; f++ {
			name := parent
			if f%3 == 2 {
				name = child
			}
			op := ribOp{Op: "register", Name: name.String(), Face: uint64(100 + f), Origin: 0, Cost: costs[r.Intn(len(costs))], Flags: 1}
			hist = append(hist, op)
			if pi := h.Guard(func() {
				table.Rib.AddEncRoute(name.Clone(), &table.Route{FaceID: op.Face, Origin: 0, Cost: op.Cost, Flags: op.Flags})
			}); pi != nil {
				fail("C06:panic:register:"+pi.Frame+":"+pi.Class, "RIB operation panicked: "+pi.Value, nil)
				return
			}
			ref.add(name, refRoute{op.Face, 0, op.Cost, op.Flags})
		}
		c.Count("histories_with_a_crowd_of_faces", 1)
		c.Distinct("crowd-of-faces")
		if prop == "C06" {
			c06Check(c, fib, ref, probes, u, r, fail)
		} else {
			c08RibStruct(c, fib, ref, m, fail)
		}
	}
	for step := 0; step < nOps; step++ {
		name := u.Pick(r)
		if len(ref.routes) > 0 && r.Intn(2) == 0 {
			name = ref.names[sortedKeys(ref.routes)[r.Intn(len(ref.routes))]].Clone()
			switch r.Intn(4) {
			case 0:
				name = u.Extend(r, name, 2)
			case 1:
				if len(name) > 0 {
					name = name[:r.Intn(len(name)+1)]
				}
			}
		}
		face := uint64(1 + r.Intn(5))
		origin := origins[r.Intn(len(origins))]
		op := ribOp{Name: name.String(), Face: face, Origin: origin}
		var pi *h.PanicInfo
		switch k := r.Intn(10); {
		case k < 6:
			op.Op, op.Cost, op.Flags = "register", costs[r.Intn(len(costs))], uint64(r.Intn(4))
			if r.Intn(10) == 0 {
				op.Flags |= 4 << uint(r.Intn(3)) // a flag bit the forwarder does not define (management passes Flags through): child-inherit and capture keep their meaning
			}
			shape := ribShape(ref, name, op.Op)
			hist = append(hist, op)
			pi = h.Guard(func() {
				table.Rib.AddEncRoute(name.Clone(), &table.Route{FaceID: face, Origin: origin, Cost: op.Cost, Flags: op.Flags})
			})
			ref.add(name, refRoute{face, origin, op.Cost, op.Flags})
			c.Distinct(shape)
		case k < 9:
			op.Op = "unregister"
			// prefer an existing route
			if rs := ref.routes[nkey(name)]; len(rs) > 0 && r.Intn(4) != 0 {
				e := rs[r.Intn(len(rs))]
				face, origin = e.face, e.origin
				op.Face, op.Origin = face, origin
			}
			shape := ribShape(ref, name, op.Op)
			hist = append(hist, op)
			pi = h.Guard(func() { table.Rib.RemoveRouteEnc(name.Clone(), face, origin) })
			ref.remove(name, face, origin)
			c.Distinct(shape)
		default:
			op.Op, op.Name = "face-cleanup", ""
			hist = append(hist, op)
			pi = h.Guard(func() { table.Rib.CleanUpFace(face) })
			ref.cleanFace(face)
			c.Distinct("face-cleanup")
		}
		if pi != nil {
			fail("C06:panic:"+op.Op+":"+pi.Frame+":"+pi.Class, "RIB operation panicked: "+pi.Value, nil)
			return
		}
		if prop == "C06" {
			c06Check(c, fib, ref, probes, u, r, fail)
		} else {
			c08RibStruct(c, fib, ref, m, fail)
		}
		if c.NViolations() > 30 {
			return
		}
	}
	if prop == "C08" {
		for _, k := range sortedKeys(ref.routes) {
			n := ref.names[k]
			for _, e := range append([]*refRoute{}, ref.routes[k]...) {
				table.Rib.RemoveRouteEnc(n.Clone(), e.face, e.origin)
				hist = append(hist, ribOp{Op: "teardown", Name: n.String(), Face: e.face, Origin: e.origin})
			}
		}
		ref = newRefRib()
		c08RibStruct(c, fib, ref, m, fail)
		c.Count("rib_teardowns", 1)
	}
	c.Sample(map[string]any{"fib": algo, "m": m, "ops": len(hist), "first_ops": hist[:min(5, len(hist))]})
}

func c06Check(c *h.Ctx, fib *fibImpl, ref *refRib, probes []enc.Name, u *gen.Universe, r *rand.Rand, fail func(key, what string, extra map[string]any)) {
	want := ref.flatten()
	lpm := func(n enc.Name) map[uint64]uint64 {
		for l := len(n); l >= 0; l-- {
			if m, ok := want[nkey(n[:l])]; ok && len(m) > 0 {
				return m
			}
		}
		return nil
	}
	names := append([]enc.Name{}, probes...)
	for _, k := range sortedKeys(ref.routes) {
		names = append(names, ref.names[k], u.Extend(r, ref.names[k], 2))
	}
	for _, n := range names {
		got, dup := copyHops(fib.t.FindNextHopsEnc(n.Clone()))
		c.Count("lookups", 1)
		w := lpm(n)
		if dup || !sameHops(got, w) {
			cls := "other"
			switch {
			case len(got) > len(w):
				cls = "extra-nexthop"
			case len(got) < len(w):
				cls = "missing-nexthop"
			default:
				cls = "wrong-cost-or-face"
			}
			fail("C06:lookup-differs:"+cls, fmt.Sprintf("FindNextHops(%s) = %s, flattening of the registered routes gives %s", n, hopsStr(got), hopsStr(w)),
				map[string]any{"lookup": n.String(), "got": hopsStr(got), "want": hopsStr(w)})
			return
		}
	}
	gotFib := map[string]string{}
	for _, e := range fib.t.GetAllFIBEntries() {
		hm, _ := copyHops(e.GetNextHops())
		gotFib[nkey(e.Name())] = hopsStr(hm)
	}
	wantFib := map[string]string{}
	for k, m := range want {
		if len(m) > 0 {
			wantFib[k] = hopsStr(m)
		}
	}
	if !sameStrMap(gotFib, wantFib) {
		cls := "differs"
		if _, ok := gotFib["/"]; ok {
			if _, ok2 := wantFib["/"]; !ok2 {
				cls = "root-entry-not-registered"
			}
		}
		if cls == "differs" {
			for k := range gotFib {
				if _, ok := wantFib[k]; !ok {
					cls = "entry-without-routes"
				}
			}
		}
		fail("C06:fib-listing:"+cls, "GetAllFIBEntries differs from the flattening of the registered routes", map[string]any{"got": gotFib, "want": wantFib})
		return
	}
	// RIB listing = route multiset
	gotRib := map[string]string{}
	for _, e := range table.Rib.GetAllEntries() {
		var rs []string
		for _, rt := range e.GetRoutes() {
			rs = append(rs, fmt.Sprintf("(%d,%d,%d,%d)", rt.FaceID, rt.Origin, rt.Cost, rt.Flags))
		}
		sort.Strings(rs)
		gotRib[nkey(e.Name)] = strings.Join(rs, "")
	}
	wantRib := map[string]string{}
	for k, rts := range ref.routes {
		var rs []string
		for _, rt := range rts {
			rs = append(rs, fmt.Sprintf("(%d,%d,%d,%d)", rt.face, rt.origin, rt.cost, rt.flags))
		}
		sort.Strings(rs)
		wantRib[k] = strings.Join(rs, "")
	}
	if !sameStrMap(gotRib, wantRib) {
		fail("C06:rib-listing-differs", "Rib.GetAllEntries differs from the registered route multiset", map[string]any{"got": gotRib, "want": wantRib})
	}
}

func c08RibStruct(c *h.Ctx, fib *fibImpl, ref *refRib, m int, fail func(key, what string, extra map[string]any)) {
	info := table.VerifRibStats()
	c.Count("rib_struct_checks", 1)
	need := map[string]bool{}
	nRoutes := 0
	for k, rs := range ref.routes {
		nRoutes += len(rs)
		n := ref.names[k]
		for l := 1; l <= len(n); l++ {
			need[nkey(n[:l])] = true
		}
	}
	if info.DeadNodes > 0 || info.Nodes != len(need) {
		fail("C08:rib-dead-nodes", fmt.Sprintf("RIB tree holds %d nodes (%d on no path to an entry with routes); live entries require %d", info.Nodes, info.DeadNodes, len(need)),
			map[string]any{"nodes": info.Nodes, "dead": info.DeadNodes, "required": len(need)})
	}
	if info.Routes != nRoutes {
		fail("C08:rib-route-count", fmt.Sprintf("RIB holds %d routes, %d are registered", info.Routes, nRoutes), nil)
	}
	// the FIB behind the RIB must hold exactly the flattened entries (+ the root strategy entry)
	fr := newRefFib()
	for k, hm := range ref.flatten() {
		if len(hm) > 0 {
			e := fr.get(ref.names[k], true)
			e.hops = hm
		}
	}
	c08FibStruct(c, []*fibImpl{fib}, fr, m, func(key, what string, extra map[string]any) {
		fail(key+":via-rib", what+" (FIB driven through the RIB)", extra)
	})
}

func c06Run(c *h.Ctx) {
	n := c.Pick(240, 2000)
	for k := 0; k < n; k++ {
		for _, algo := range []string{"nametree", "hashtable"} {
			id := fmt.Sprintf("h%d-%s", k, algo)
			if !c.Case(id) {
				continue
			}
			// the same op sequence runs against both implementations
			seed := c.Rng(fmt.Sprintf("h%d", k)).Int63()
			runRibHistory(c, id, seed, algo, "C06")
		}
	}
	if c.Batch < 4 {
		c06Lifecycle(c) // last: leaves a running daemon behind in this child process
	}
}

func init() {
	h.Register(&h.Prop{
		ID:    "C06",
		Level: "exploration",
		Rule: "histories of 15-45 register / re-register (changed cost, flags) / unregister / face-cleanup operations over nested prefixes with gaps (depth 0..5 over {a,b}), 5 faces, origins {0,65,128,255}, costs {0,1,5,10}, all four child-inherit/capture combinations, each run against the name-tree and the hash-table FIB; " +
			"after every op a from-scratch flattening of the harness's own route multiset is compared with FindNextHops for every probe name (all names of depth <=4, every registered prefix and extensions), with GetAllFIBEntries (exact map) and with Rib.GetAllEntries; face life cycle (4 batches, running mini daemon): a local face registers a prefix for itself before and/or after faces/destroy removed it from the face table, then its transport closes - afterwards no RIB route and no FIB next hop may refer to it; distinct = (op, gap on path, capture on ancestor, capture on self, several origins for one face, has descendants)",
		Assumptions: []string{"flattening rule re-implemented from the statement: own routes + child-inherit routes of shorter prefixes, walking up, stopping after the first prefix holding a capture route; nothing when the prefix itself holds a capture route; minimum cost per face"},
		Batches:     func(t bool) int { return 16 },
		ChildTimeoutS: func(t bool) int {
			if t {
				return 2400
			}
			return 400
		},
		Run:         c06Run,
		MinDistinct: 40,
		Floors:      map[string]int64{"lookups": 10000},
	})
}
