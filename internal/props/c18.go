package props

import (
	"fmt"
	"math/rand"
	"sort"
	"time"

	"verif/internal/h"
)

// ---- C18: distance-vector routing converges to shortest paths on every topology/schedule

// connectedGraphs enumerates the connected graphs on n labelled vertices up to isomorphism
// (edge lists over vertices 0..n-1), canonical representative = smallest adjacency mask.
func connectedGraphs(n int) [][][2]int {
	var pairs [][2]int
	for i := 0; i < n; i++ {
		for j := i + 1; j < n; j++ {
			pairs = append(pairs, [2]int{i, j})
		}
	}
	perms := permutations(n)
	seen := map[uint32]bool{}
	var out [][][2]int
	for mask := uint32(0); mask < 1<<uint(len(pairs)); mask++ {
		// canonical form
		canon := mask
		for _, p := range perms {
			var m2 uint32
			for k, e := range pairs {
				if mask&(1<<uint(k)) == 0 {
					continue
				}
				a, b := p[e[0]], p[e[1]]
				if a > b {
					a, b = b, a
				}
				for k2, e2 := range pairs {
					if e2[0] == a && e2[1] == b {
						m2 |= 1 << uint(k2)
					}
				}
			}
			if m2 < canon {
				canon = m2
			}
		}
		if canon != mask || seen[mask] {
			continue
		}
		seen[mask] = true
		var es [][2]int
		for k, e := range pairs {
			if mask&(1<<uint(k)) != 0 {
				es = append(es, e)
			}
		}
		if isConnected(n, es) {
			out = append(out, es)
		}
	}
	return out
}

func permutations(n int) [][]int {
	var out [][]int
	var rec func(cur []int, used []bool)
	rec = func(cur []int, used []bool) {
		if len(cur) == n {
			out = append(out, append([]int{}, cur...))
			return
		}
		for i := 0; i < n; i++ {
			if !used[i] {
				used[i] = true
				rec(append(cur, i), used)
				used[i] = false
			}
		}
	}
	rec(nil, make([]bool, n))
	return out
}

func isConnected(n int, es [][2]int) bool {
	seen := map[int]bool{0: true}
	q := []int{0}
	for len(q) > 0 {
		u := q[0]
		q = q[1:]
		for _, e := range es {
			for _, p := range [][2]int{{e[0], e[1]}, {e[1], e[0]}} {
				if p[0] == u && !seen[p[1]] {
					seen[p[1]] = true
					q = append(q, p[1])
				}
			}
		}
	}
	return len(seen) == n
}

func randomConnected(r *rand.Rand, n int) [][2]int {
	for {
		var es [][2]int
		for i := 0; i < n; i++ {
			for j := i + 1; j < n; j++ {
				if r.Intn(3) == 0 {
					es = append(es, [2]int{i, j})
				}
			}
		}
		if isConnected(n, es) {
			return es
		}
	}
}

type c18Fault struct {
	Kind string // remove-link, remove-router, add-link, isolate-router, restart-router
	A, B int
	// Merge: the next fault happens before any advertisement is exchanged (two topology changes
	// land between two fetches, so one advertisement both adds and withdraws destinations)
	Merge bool `json:",omitempty"`
}

type c18Case struct {
	n      int
	edges  [][2]int
	faults []c18Fault
}

// c18FinalGraph applies a fault sequence that consists of link removals and additions only; ok is
// false for sequences with router faults or when the result is not connected.
func c18FinalGraph(cs c18Case) ([][2]int, bool) {
	cur := map[[2]int]bool{}
	key := func(a, b int) [2]int {
		if a > b {
			a, b = b, a
		}
		return [2]int{a, b}
	}
	for _, e := range cs.edges {
		cur[key(e[0], e[1])] = true
	}
	for _, f := range cs.faults {
		switch f.Kind {
		case "remove-link":
			delete(cur, key(f.A, f.B))
		case "add-link":
			cur[key(f.A, f.B)] = true
		default:
			return nil, false
		}
	}
	var out [][2]int
	for e := range cur {
		out = append(out, e)
	}
	sort.Slice(out, func(i, j int) bool { return out[i][0] < out[j][0] || (out[i][0] == out[j][0] && out[i][1] < out[j][1]) })
	seen := map[int]bool{0: true}
	for grew := true; grew; {
		grew = false
		for _, e := range out {
			if seen[e[0]] != seen[e[1]] {
				seen[e[0]], seen[e[1]] = true, true
				grew = true
			}
		}
	}
	return out, len(seen) == cs.n
}

// c18Execute runs one (graph, faults) case under a schedule seed; returns the next-hop maps at
// every fixed point (for the tie-break comparison) or nil when a violation / failure stopped it.
func c18Execute(c *h.Ctx, id string, cs c18Case, schedSeed int64, profile string) []string {
	c.Eval(1)
	s := newDvSim(c, cs.n)
	r := rand.New(rand.NewSource(schedSeed))
	det := func(extra map[string]any) map[string]any {
		d := map[string]any{"graph": fmt.Sprintf("n=%d edges=%v", cs.n, cs.edges), "faults": cs.faults, "schedule_seed": schedSeed, "profile": profile, "current_graph": s.graphDesc()}
		ev := s.events
		if len(ev) > 120 {
			ev = ev[len(ev)-120:]
		}
		d["last_events"] = ev
		for k, v := range extra {
			d[k] = v
		}
		return d
	}
	if s.bad != "" {
		c.Inconclusive(s.bad)
		return nil
	}
	if profile == "lossy" {
		// some advertisement fetches fail first (NACK: no route at the forwarder yet; timeout: lost);
		// the exchanges stay fair because the routers retry by themselves
		s.lossRng = rand.New(rand.NewSource(schedSeed ^ 0x5eed))
		defer func() {
			c.Count("advertisement_fetches_nacked", int64(s.nNackAdv))
			c.Count("advertisement_fetches_timed_out", int64(s.nLostAdv))
		}()
	}
	for _, e := range cs.edges {
		s.setLink(e[0], e[1], true)
	}
	var fixed []string
	phases := append([]c18Fault{{Kind: "start"}}, cs.faults...)
	for pi, f := range phases {
		switch f.Kind {
		case "remove-link":
			if !s.link(f.A, f.B) {
				continue
			}
			s.setLink(f.A, f.B, false)
			if !s.expire(f.A, f.B) || !s.expire(f.B, f.A) {
				c.Inconclusive(s.bad)
				return nil
			}
		case "remove-router":
			if !s.nodes[f.A].alive {
				continue
			}
			s.nodes[f.A].alive = false
			for v := range s.nodes {
				if s.link(f.A, v) {
					s.setLink(f.A, v, false)
					if s.nodes[v].alive && !s.expire(v, f.A) {
						c.Inconclusive(s.bad)
						return nil
					}
				}
			}
		case "restart-router":
			if !s.nodes[f.A].alive {
				continue
			}
			time.Sleep(3 * time.Millisecond) // boot-time based sequence numbers are taken from the wall clock
			if !s.restart(f.A) {
				c.Inconclusive(s.bad)
				return nil
			}
			c.Count("router_restarts", 1)
		case "isolate-router":
			if !s.nodes[f.A].alive {
				continue
			}
			var nbrs []int
			for v := range s.nodes {
				if s.link(f.A, v) {
					nbrs = append(nbrs, v)
					s.setLink(f.A, v, false)
				}
			}
			if len(nbrs) == 0 {
				continue
			}
			if !s.expireMany(f.A, nbrs) {
				c.Inconclusive(s.bad)
				return nil
			}
			for _, v := range nbrs {
				if s.nodes[v].alive && !s.expire(v, f.A) {
					c.Inconclusive(s.bad)
					return nil
				}
			}
			c.Count("sweeps_removing_several_neighbours", int64(len(nbrs)/2))
		case "add-link":
			if !s.nodes[f.A].alive || !s.nodes[f.B].alive || s.link(f.A, f.B) {
				continue
			}
			s.setLink(f.A, f.B, true)
		}
		if f.Merge && pi+1 < len(phases) {
			c.Count("merged_faults", 1)
			continue
		}
		// ---- run rounds to the fixed point (bounded progress)
		bound := 2 * (cs.n + 16)
		prev := advSig(s.adverts())
		starve := [2]int{-1, -1}
		converged := false
		rounds := 0
		for rounds = 1; rounds <= bound; rounds++ {
			if profile == "starve" && rounds <= 3 && len(s.adj) > 1 {
				// one edge gets no exchange for the first rounds (still fair: it resumes)
				es := make([][2]int, 0, len(s.adj))
				for e := range s.adj {
					es = append(es, e)
				}
				sort.Slice(es, func(i, j int) bool { return es[i][0]*10+es[i][1] < es[j][0]*10+es[j][1] })
				starve = es[int(schedSeed)%len(es)]
			} else {
				starve = [2]int{-1, -1}
			}
			if s.lossRng != nil {
				if rounds == 1 {
					s.nackAdv, s.loseAdv = 1, 3
				}
				s.lossArmed = rounds >= 2
			}
			if !s.round(r, starve) {
				c.Inconclusive(s.bad)
				return nil
			}
			ads := s.adverts()
			for i, m := range ads {
				for dest, a := range m {
					if a.cost >= 16 {
						c.Violation("C18:advertised-infinite-cost", id, fmt.Sprintf("router r%d advertises destination %s with cost %d (>= infinity 16)", i, dest, a.cost), det(nil))
						return nil
					}
				}
			}
			sig := advSig(ads)
			if sig == prev && starve[0] < 0 {
				converged = true
				break
			}
			prev = sig
		}
		phase := fmt.Sprintf("phase %d (%s)", pi, f.Kind)
		if !converged {
			c.Violation("C18:no-fixed-point:"+f.Kind, id, fmt.Sprintf("%s: advertisements still change after %d rounds of fair exchanges", phase, bound), det(map[string]any{"adverts": prev}))
			return nil
		}
		c.Count("fixed_points", 1)
		c.Count("rounds_to_fixed_point", int64(rounds))
		// ---- shortest paths at the fixed point
		ads := s.adverts()
		var nh []string
		for u, nd := range s.nodes {
			if !nd.alive {
				continue
			}
			dist := s.bfs(u)
			for v, nv := range s.nodes {
				a, has := ads[u][nv.name.String()]
				switch {
				case dist[v] < 0 || !nv.alive:
					if has {
						c.Violation("C18:unreachable-not-withdrawn:"+f.Kind, id, fmt.Sprintf("%s: r%d still lists unreachable destination r%d (cost %d via %s)", phase, u, v, a.cost, a.next), det(map[string]any{"adverts": advSig(ads)}))
						return nil
					}
				case !has:
					c.Violation("C18:reachable-missing:"+f.Kind, id, fmt.Sprintf("%s: r%d has no route to reachable r%d (hop distance %d)", phase, u, v, dist[v]), det(map[string]any{"adverts": advSig(ads)}))
					return nil
				default:
					if int(a.cost) != dist[v] {
						c.Violation("C18:cost-not-hop-distance:"+f.Kind, id, fmt.Sprintf("%s: r%d reaches r%d at cost %d, hop distance is %d", phase, u, v, a.cost, dist[v]), det(map[string]any{"adverts": advSig(ads)}))
						return nil
					}
					if u != v {
						// next hop must be a neighbour one hop closer
						ok := false
						for w, nw := range s.nodes {
							if nw.alive && s.link(u, w) && nw.name.String() == a.next && s.bfs(w)[v] == dist[v]-1 {
								ok = true
							}
						}
						if !ok {
							c.Violation("C18:next-hop-not-on-shortest-path:"+f.Kind, id, fmt.Sprintf("%s: r%d reaches r%d via %s, which is not a neighbour on a shortest path", phase, u, v, a.next), det(map[string]any{"adverts": advSig(ads)}))
							return nil
						}
					}
					nh = append(nh, fmt.Sprintf("r%d->r%d via %s", u, v, a.next))
				}
			}
			// Rib.Entries() lists exactly the reachable destinations
			n := 0
			nd.r.VerifLocked(func() { n = len(nd.r.VerifRib().Entries()) })
			reach := 0
			for v := range s.nodes {
				if dist[v] >= 0 {
					reach++
				}
			}
			if n != reach {
				c.Violation("C18:rib-entries-count", id, fmt.Sprintf("%s: r%d lists %d reachable destinations, %d routers are reachable", phase, u, n, reach), det(nil))
				return nil
			}
		}
		// ---- late copies of advertisements already applied must not move the fixed point: at the
		// fixed point sequence numbers no longer change, so no later fetch would repair a roll-back
		before := advSig(s.adverts())
		nLate, ok := s.replayLate(r)
		if !ok {
			c.Inconclusive(s.bad)
			return nil
		}
		c.Count("late_advertisements_replayed", int64(nLate))
		if after := advSig(s.adverts()); after != before {
			c.Violation("C18:late-advertisement-moves-fixed-point:"+f.Kind, id, fmt.Sprintf("%s: delivering late copies of advertisement Data that had already been delivered (superseded or current sequence numbers) changed the routers' tables at the fixed point", phase),
				det(map[string]any{"adverts_before": before, "adverts_after": after}))
			return nil
		}
		sort.Strings(nh)
		fixed = append(fixed, fmt.Sprint(nh))
		c.Distinct(fmt.Sprintf("n=%d|edges=%d|phase=%s|components=%d|profile=%s", cs.n, len(s.adj), f.Kind, s.components(), profile))
	}
	c.Count("exchanges", int64(len(s.events)))
	c.Count("advertisement_fetches_by_routers", int64(s.nFetch))
	c.Count("sync_interests_without_fetch", int64(s.nNoFetch))
	c.Count("late_rib_updates_on_removed_neighbours", int64(s.nLateRib))
	c.Sample(map[string]any{"graph": fmt.Sprintf("n=%d edges=%v", cs.n, cs.edges), "faults": cs.faults, "schedule_seed": schedSeed, "exchanges": len(s.events)})
	return fixed
}

func (s *dvSim) components() int {
	seen := map[int]bool{}
	n := 0
	for u, nd := range s.nodes {
		if !nd.alive || seen[u] {
			continue
		}
		n++
		for v, d := range s.bfs(u) {
			if d >= 0 {
				seen[v] = true
			}
		}
	}
	return n
}

func c18Faults(r *rand.Rand, n int, edges [][2]int, k int) []c18Fault {
	var fs []c18Fault
	cur := append([][2]int{}, edges...)
	for i := 0; i < k; i++ {
		switch r.Intn(6) {
		case 5: // a router crashes and comes back before its neighbours notice
			fs = append(fs, c18Fault{Kind: "restart-router", A: r.Intn(n)})
		case 4: // a live router loses all its links at once: one dead-neighbour sweep removes several neighbours
			a := r.Intn(n)
			fs = append(fs, c18Fault{Kind: "isolate-router", A: a})
			var keep [][2]int
			for _, e := range cur {
				if e[0] != a && e[1] != a {
					keep = append(keep, e)
				}
			}
			cur = keep
		case 0, 1:
			if len(cur) > 0 {
				j := r.Intn(len(cur))
				fs = append(fs, c18Fault{Kind: "remove-link", A: cur[j][0], B: cur[j][1]})
				cur = append(cur[:j:j], cur[j+1:]...)
			}
		case 2:
			if n > 2 {
				fs = append(fs, c18Fault{Kind: "remove-router", A: r.Intn(n)})
			}
		default:
			a, b := r.Intn(n), r.Intn(n)
			if a != b {
				if a > b {
					a, b = b, a
				}
				fs = append(fs, c18Fault{Kind: "add-link", A: a, B: b})
				cur = append(cur, [2]int{a, b})
			}
		}
	}
	for i := range fs {
		if i+1 < len(fs) && r.Intn(3) == 0 {
			fs[i].Merge = true
		}
	}
	return fs
}

func c18Run(c *h.Ctx) {
	var cases []c18Case
	maxExh := c.Pick(4, 5)
	for n := 2; n <= maxExh; n++ {
		for _, g := range connectedGraphs(n) {
			cases = append(cases, c18Case{n: n, edges: g})
		}
	}
	gr := rand.New(rand.NewSource(c.Seed*31 + 7))
	if !c.Thorough() {
		g5 := connectedGraphs(5)
		for i := 0; i < 6; i++ {
			cases = append(cases, c18Case{n: 5, edges: g5[gr.Intn(len(g5))]})
		}
	} else {
		for i := 0; i < 40; i++ {
			cases = append(cases, c18Case{n: 6, edges: randomConnected(gr, 6)})
		}
	}
	// coalesced changes: a router loses one neighbour and gains another before anybody fetches its
	// advertisement again, so one advertisement both withdraws and introduces destinations
	nCoal := c.Pick(48, 160)
	firstCoal := len(cases)
	for i := 0; i < nCoal; i++ {
		n := 4 + gr.Intn(2)
		es := randomConnected(gr, n)
		adj := func(x, y int) bool {
			for _, e := range es {
				if (e[0] == x && e[1] == y) || (e[0] == y && e[1] == x) {
					return true
				}
			}
			return false
		}
		var fs []c18Fault
		b := gr.Intn(n)
		var nb, non []int
		for v := 0; v < n; v++ {
			if v == b {
				continue
			}
			if adj(b, v) {
				nb = append(nb, v)
			} else {
				non = append(non, v)
			}
		}
		if len(nb) < 2 {
			continue
		}
		cdrop := nb[gr.Intn(len(nb))]
		var d int
		if len(non) > 0 && gr.Intn(2) == 0 {
			d = non[gr.Intn(len(non))]
		} else { // detach one of b's other neighbours first, then re-attach it together with the loss
			d = cdrop
			for d == cdrop {
				d = nb[gr.Intn(len(nb))]
			}
			fs = append(fs, c18Fault{Kind: "isolate-router", A: d})
		}
		x, y := b, cdrop
		if x > y {
			x, y = y, x
		}
		fs = append(fs, c18Fault{Kind: "remove-link", A: x, B: y, Merge: true})
		x, y = b, d
		if x > y {
			x, y = y, x
		}
		fs = append(fs, c18Fault{Kind: "add-link", A: x, B: y})
		cases = append(cases, c18Case{n: n, edges: es, faults: fs})
	}
	// chains of five with the middle router losing one neighbour and gaining the next one in the same
	// update: its neighbour towards the far end sees two cost changes that compensate each other (one
	// destination a hop further, one a hop nearer) in a single fetch, and the router behind it depends on
	// hearing about that
	for _, perm := range [][5]int{{0, 1, 2, 3, 4}, {4, 3, 2, 1, 0}, {2, 0, 4, 1, 3}, {1, 4, 0, 3, 2}} {
		f, a, b, d, e := perm[0], perm[1], perm[2], perm[3], perm[4]
		k := func(x, y int) [2]int {
			if x > y {
				x, y = y, x
			}
			return [2]int{x, y}
		}
		cases = append(cases, c18Case{n: 5, edges: [][2]int{k(f, a), k(a, b), k(b, d), k(d, e)},
			faults: []c18Fault{{Kind: "remove-link", A: k(b, d)[0], B: k(b, d)[1], Merge: true}, {Kind: "add-link", A: k(b, e)[0], B: k(b, e)[1]}}})
	}
	nSched := c.Pick(3, 6)
	for ci, base := range cases {
		if ci%c.NBatch != c.Batch {
			continue
		}
		for variant := 0; variant < c.Pick(4, 6); variant++ {
			cs := base
			fr := rand.New(rand.NewSource(c.Seed*1000003 + int64(ci)*101 + int64(variant)))
			if ci >= firstCoal {
				if variant > 0 {
					break // the fault sequence is part of the case
				}
			} else if variant > 0 {
				cs.faults = c18Faults(fr, cs.n, cs.edges, 1+fr.Intn(4))
			}
			var ref []string
			// every fourth case runs with one router named under another router's name
			dvNestedNames = ci%4 == 1 && cs.n >= 2
			if dvNestedNames {
				c.Count("cases_with_nested_router_names", 1)
			}
			for sd := 0; sd < nSched; sd++ {
				id := fmt.Sprintf("g%d/v%d/s%d", ci, variant, sd)
				if !c.Case(id) {
					continue
				}
				profile := "fair"
				if sd%3 == 2 {
					profile = "starve"
				}
				fixed := c18Execute(c, id, cs, c.Seed*7919+int64(ci)*131+int64(sd)*17+int64(variant), profile)
				if fixed == nil {
					continue
				}
				if ref == nil {
					ref = fixed
				} else if fmt.Sprint(ref) != fmt.Sprint(fixed) {
					c.Violation("C18:tie-break-depends-on-schedule", id, "two delivery orders of the same topology and fault sequence end with different next hops",
						map[string]any{"graph": fmt.Sprintf("n=%d edges=%v", cs.n, cs.edges), "faults": cs.faults, "first": ref, "this": fixed})
				}
			}
			// the same final topology reached without any history: routers started on the graph that is
			// left after the link faults must choose the same next hops ("ties broken the same way every
			// time" - not only for every delivery order, also whatever was there before)
			if final, ok := c18FinalGraph(cs); ok && ref != nil && len(cs.faults) > 0 {
				id := fmt.Sprintf("g%d/v%d/fresh", ci, variant)
				if c.Case(id) {
					fx := c18Execute(c, id, c18Case{n: cs.n, edges: final}, c.Seed*104729+int64(ci)*37+int64(variant), "fair")
					if fx != nil {
						c.Count("fresh_convergence_comparisons", 1)
						if fx[len(fx)-1] != ref[len(ref)-1] {
							c.Violation("C18:tie-break-depends-on-history", id, "routers that went through link faults end with other next hops than routers started on the resulting topology",
								map[string]any{"graph": fmt.Sprintf("n=%d edges=%v", cs.n, cs.edges), "faults": cs.faults, "final_edges": final, "after_faults": ref[len(ref)-1], "fresh": fx[len(fx)-1]})
						}
					}
				}
			}
		}
	}
	dvNestedNames = false
	// ---- lossy fetches: a few cases per batch (every NACK costs the router's own 2 s back-off)
	nLossy := 0
	for ci, base := range cases {
		if ci%c.NBatch != c.Batch || base.n < 3 || nLossy >= c.Pick(2, 10) {
			continue
		}
		if (ci/c.NBatch+int(c.Seed))%3 != 0 {
			continue
		}
		nLossy++
		id := fmt.Sprintf("g%d/lossy", ci)
		if !c.Case(id) {
			continue
		}
		cs := base
		if ci < firstCoal {
			fr := rand.New(rand.NewSource(c.Seed*1000003 + int64(ci)*101 + 977))
			cs.faults = c18Faults(fr, cs.n, cs.edges, 1+fr.Intn(2))
		}
		c18Execute(c, id, cs, c.Seed*7919+int64(ci)*131+5, "lossy")
	}
}

func init() {
	h.Register(&h.Prop{
		ID: "C18", Level: "exploration",
		Rule: "N real dv.Router objects (N=2..5 every connected graph up to isomorphism: 1+2+6+21; plus random connected graphs on 6 in thorough) with no loops started; the harness delivers 'a hears b's sync Interest and fetches b's current advertisement' events (b's real Interest handler encodes, a's real Data handler decodes and updates) in PRNG-fair rounds (every directed neighbour pair once per round, one profile starving an edge for 3 rounds), " +
			"waits for the routers' own follow-up goroutines, and injects 0-3 link removals / router removals / link additions (neighbour expiry through the real dead-neighbour check); oracle: a full round without any advertisement change is reached within 2(N+16) rounds after each fault; there every cost equals the BFS hop distance (<16), every next hop is a neighbour on a shortest path, unreachable destinations are absent, Rib.Entries() counts the reachable routers, " +
			"no advertisement ever lists cost >= 16, and different schedule seeds end with identical next hops; a lossy profile answers some advertisement fetches (from the second round of a phase on) with a NACK or a timeout first and relies on the routers' own retries; " +
			"no advertisement ever lists cost >= 16, and different schedule seeds end with identical next hops; distinct = (N, #edges, phase kind, #components, schedule profile)",
		Assumptions: []string{"every fair delivery order is sampled (2-6 schedule seeds per case), not enumerated", "neighbour expiry is triggered by overriding lastSeen through a hook and calling the real checkDeadNeighbors", "hooks: dv/dv, dv/table, dv/nfdc verif_hooks.go"},
		Batches:     func(t bool) int { return 16 },
		ChildTimeoutS: func(t bool) int {
			if t {
				return 3400
			}
			return 900
		},
		Run:         c18Run,
		MinDistinct: 15,
		Floors:      map[string]int64{"fixed_points": 50, "exchanges": 2000, "advertisement_fetches_nacked": 3},
	})
}
