package props

import (
	"fmt"
	"math/rand"
	"sort"
	"sync"
	"sync/atomic"
	"time"

	"github.com/named-data/ndnd/fw/table"
	enc "github.com/named-data/ndnd/std/encoding"

	"verif/internal/h"
)

// c16Big: one route update that touches many FIB entries. A prefix with 550-700 more specific
// registered prefixes below it holds a child-inherit route that a writer removes and adds again; every
// such command recomputes the whole subtree. Readers look the children up all the time: each child has
// exactly two legal next-hop sets - with and without the inherited face - and a lookup that overlaps
// the update must return one of them (never an empty set, never only the inherited face: those belong
// to no state of the tables).
func c16Big(c *h.Ctx, id string, r *rand.Rand) {
	c.Eval(1)
	algo := []string{"nametree", "hashtable"}[r.Intn(2)]
	c16Setup(algo, 1+r.Intn(4))
	fib := table.FibStrategyTable
	parent, _ := enc.NameFromStr("/big")
	nKids := 550 + r.Intn(150)
	kids := make([]enc.Name, nKids)
	for i := range kids {
		kids[i], _ = enc.NameFromStr(fmt.Sprintf("/big/k%d", i))
		table.Rib.AddEncRoute(kids[i].Clone(), &table.Route{FaceID: 2, Origin: 0, Cost: 3, Flags: 1})
	}
	table.Rib.AddEncRoute(parent.Clone(), &table.Route{FaceID: 1, Origin: 0, Cost: 7, Flags: 1})
	var stop atomic.Bool
	var bad atomic.Value
	var lookups, overlapping atomic.Int64
	var writing atomic.Bool
	var wg sync.WaitGroup
	for g := 0; g < 3; g++ {
		wg.Add(1)
		rr := rand.New(rand.NewSource(r.Int63()))
		go func() {
			defer wg.Done()
			for !stop.Load() {
				k := kids[rr.Intn(len(kids))]
				during := writing.Load()
				hops := fib.FindNextHopsEnc(k)
				var fs []string
				for _, hp := range hops {
					fs = append(fs, fmt.Sprintf("%d/%d", hp.Nexthop, hp.Cost))
				}
				sort.Strings(fs)
				got := fmt.Sprint(fs)
				lookups.Add(1)
				if during && writing.Load() {
					overlapping.Add(1)
				}
				if got != "[2/3]" && got != "[1/7 2/3]" {
					bad.CompareAndSwap(nil, fmt.Sprintf("lookup of %s returned next hops %s while /big's child-inherit route was being removed / added; the only states of the tables give [2/3] or [1/7 2/3]", k, got))
					return
				}
			}
		}()
	}
	wd := make(chan struct{})
	go func() {
		defer close(wd)
		for i := 0; i < 8 && bad.Load() == nil; i++ {
			writing.Store(true)
			if i%2 == 0 {
				table.Rib.RemoveRouteEnc(parent.Clone(), 1, 0)
			} else {
				table.Rib.AddEncRoute(parent.Clone(), &table.Route{FaceID: 1, Origin: 0, Cost: 7, Flags: 1})
			}
			writing.Store(false)
			time.Sleep(time.Millisecond)
		}
	}()
	select {
	case <-wd:
	case <-time.After(120 * time.Second):
		stop.Store(true)
		c.Inconclusive("big-batch writer did not finish within 120 s")
		return
	}
	stop.Store(true)
	wg.Wait()
	c.Count("big_batch_lookups", lookups.Load())
	c.Count("big_batch_lookups_overlapping_an_update", overlapping.Load())
	c.Distinct("big-batch|" + algo)
	if v := bad.Load(); v != nil {
		c.Violation("C16:lookup-sees-no-state:big-batch", id, v.(string), map[string]any{"fib": algo, "children": nKids})
	}
}
