package props

import (
	"bytes"
	"fmt"
	"io"
	"math/rand"
	"reflect"
	"runtime"
	"sort"
	"strings"
	"time"

	"github.com/named-data/ndnd/fw/defn"
	"github.com/named-data/ndnd/fw/face"
	fwfw "github.com/named-data/ndnd/fw/fw"
	enc "github.com/named-data/ndnd/std/encoding"
	"github.com/named-data/ndnd/std/ndn"
	spec "github.com/named-data/ndnd/std/ndn/spec_2022"
	sec "github.com/named-data/ndnd/std/security"

	"verif/internal/fwenv"
	"verif/internal/gen"
	"verif/internal/h"
	"verif/internal/pkt"
	"verif/internal/reg"
	"verif/internal/tlvwalk"
)

// ---- C04: no byte sequence can crash or exhaust a decoder or the receive path

type c04Target struct {
	name  string
	call  func(r enc.ParseReader)
	seeds [][]byte
}

type c04State struct {
	c     *h.Ctx
	watch *h.CallWatch
}

// guarded runs one call under panic guard, allocation meter and watchdog.
func (s *c04State) guarded(id, target, reader, mclass string, inLen int, input func() string, fn func()) {
	c := s.c
	before := h.AllocBytes()
	s.watch.Begin(id)
	t0 := time.Now()
	cpu0 := h.ThreadCPU()
	pi := h.Guard(fn)
	cpu := h.ThreadCPU() - cpu0
	el := time.Since(t0)
	s.watch.End()
	alloc := h.AllocBytes() - before
	c.Eval(1)
	if pi != nil {
		c.Violation("C04:panic:"+pi.Frame+":"+pi.Class, id, fmt.Sprintf("%s (%s reader, %s mutation) panicked: %s", target, reader, mclass, pi.Value),
			map[string]any{"target": target, "reader": reader, "mutation": mclass, "input_hex": input(), "stack": trimStack(pi.Stack)})
		return
	}
	limit := uint64(1<<20 + 256*inLen)
	if alloc > limit && pi == nil {
		// the allocation counter is process-wide: confirm on a quiet repetition before deciding
		for rep := 0; rep < 2 && alloc > limit; rep++ {
			runtime.GC()
			b0 := h.AllocBytes()
			s.watch.Begin(id)
			_ = h.Guard(fn)
			s.watch.End()
			if a := h.AllocBytes() - b0; a < alloc {
				alloc = a
			}
		}
	}
	if alloc > limit {
		c.Violation("C04:alloc:"+target, id, fmt.Sprintf("%s (%s reader) allocated %d bytes for a %d-byte input (limit %d)", target, reader, alloc, inLen, limit),
			map[string]any{"target": target, "reader": reader, "mutation": mclass, "input_hex": input(), "allocated": alloc})
	}
	// "slow" is decided on the CPU time of this thread, never on wall time: on a busy machine a
	// microsecond call can be descheduled for seconds (that only counts as an observation)
	if cpu > time.Second {
		c.Violation("C04:slow:"+target, id, fmt.Sprintf("%s (%s reader) burnt %v of CPU (wall %v) for a %d-byte input", target, reader, cpu, el, inLen),
			map[string]any{"target": target, "reader": reader, "mutation": mclass, "input_hex": input()})
	} else if el > 2*time.Second {
		c.Count("calls_slow_in_wall_time_only", 1)
	}
}

func trimStack(s string) string {
	if len(s) > 2500 {
		return s[:2500]
	}
	return s
}

func c04Segment(r *rand.Rand, b []byte) enc.Wire {
	if len(b) < 2 {
		return enc.Wire{append([]byte{}, b...)}
	}
	k := 1 + r.Intn(3)
	cuts := make([]int, k)
	for i := range cuts {
		cuts[i] = 1 + r.Intn(len(b)-1)
	}
	if r.Intn(3) == 0 { // empty buffers: in the middle (a repeated cut, also twice in a row), in front, at the end
		for n := 1 + r.Intn(2); n > 0; n-- {
			switch r.Intn(4) {
			case 0:
				cuts = append(cuts, 0)
			case 1:
				cuts = append(cuts, len(b))
			default:
				cuts = append(cuts, cuts[r.Intn(len(cuts))])
			}
		}
	}
	sort.Ints(cuts)
	if r.Intn(8) == 0 { // 1-byte segments
		cuts = cuts[:0]
		for i := 1; i < len(b) && i < 400; i++ {
			cuts = append(cuts, i)
		}
	}
	return pkt.Segment(b, cuts)
}

func c04Targets(c *h.Ctx, r *rand.Rand) []*c04Target {
	c13Index()
	var ts []*c04Target
	nSeeds := c.Pick(3, 8)
	for _, m := range reg.Models {
		m := m
		t := &c04Target{name: "Parse:" + m.ID()}
		t.call = func(rd enc.ParseReader) {
			v, err := m.Parse(rd, false)
			_ = err
			// a value that was accepted must be re-encodable without crashing
			if v != nil && err == nil && !reflect.ValueOf(v).IsNil() {
				_, _ = m.Encode(v)
			}
		}
		for k := 0; k < nSeeds; k++ {
			g := &vgen{r: r, kinds: map[string]bool{}}
			val := m.New()
			g.fillStruct(reflect.ValueOf(val).Elem(), 0)
			var w enc.Wire
			if pi := h.Guard(func() { w, _ = m.Encode(val) }); pi == nil && w != nil {
				if b := w.Join(); len(b) > 0 && len(b) < 3000 {
					t.seeds = append(t.seeds, append([]byte{}, b...))
				}
			}
		}
		if len(t.seeds) == 0 {
			t.seeds = [][]byte{{}}
		}
		ts = append(ts, t)
	}
	// packet-level entry points, seeded with packets built by the API
	var pseeds [][]byte
	nFull := 0 // Data packets that carry every optional MetaInfo field (FinalBlockId holds a nested component)
	for tries := 0; len(pseeds) < c.Pick(12, 40); tries++ {
		cs := pkt.Gen(r)
		if len(cs.PayloadBytes()) > 600 || cs.Name.EncodingLength() > 600 {
			continue
		}
		if nFull < 3 && tries < 2000 {
			if cs.Kind != "data" || cs.DCfg.FinalBlockID == nil || cs.DCfg.Freshness == nil {
				continue
			}
			nFull++
		}
		var bl *pkt.Built
		var err error
		if pi := h.Guard(func() { bl, err = cs.Build() }); pi == nil && err == nil {
			pseeds = append(pseeds, bl.Bytes)
		}
	}
	// LpPacket seeds wrapping some of the packets
	for i := 0; i < c.Pick(6, 16); i++ {
		inner := pseeds[r.Intn(len(pseeds))]
		var f []byte
		if r.Intn(2) == 0 {
			f = append(f, tlvwalk.TLV(0x51, []byte{0, 0, 0, 0, 0, 0, 0, byte(r.Intn(4))})...)
			f = append(f, tlvwalk.TLV(0x52, []byte{byte(r.Intn(3))})...)
			f = append(f, tlvwalk.TLV(0x53, []byte{byte(1 + r.Intn(3))})...)
		}
		if r.Intn(2) == 0 {
			f = append(f, tlvwalk.TLV(0x62, []byte{0, byte(r.Intn(3)), 0, 0, 0, 1})...)
		}
		f = append(f, tlvwalk.TLV(0x50, inner)...)
		pseeds = append(pseeds, tlvwalk.TLV(0x64, f))
	}
	sp := spec.Spec{}
	// canary: "a frame that fails to decode changes no state" - after every eighth call of a packet
	// decoder (whatever that call was given and however it ended) a fixed, valid, signed Data packet is
	// decoded through the same entry point and must come out exactly as it always does: same name, same
	// content, same signed portion (computed independently from the bytes)
	cnm, _ := enc.NameFromStr("/c04/canary/data")
	cdata, cerr := sp.MakeData(cnm, &ndn.DataConfig{}, enc.Wire{[]byte("canary content")}, sec.NewSha256Signer())
	var canary, canarySigned []byte
	if cerr == nil {
		canary = cdata.Wire.Join()
		if lay, e := pkt.Analyse(canary); e == nil {
			canarySigned = lay.Signed
		}
	}
	calls := 0
	checkCanary := func(how string) {
		calls++
		if calls%8 != 0 || canarySigned == nil {
			return
		}
		var name enc.Name
		var cov, content []byte
		var err error
		switch how {
		case "ReadPacket":
			var p *spec.Packet
			var ctx *spec.PacketParsingContext
			p, ctx, err = spec.ReadPacket(enc.NewBufferReader(append([]byte{}, canary...)))
			if err == nil && p.Data != nil {
				name, cov, content = p.Data.Name(), ctx.Data_context.SigCovered().Join(), p.Data.Content().Join()
			}
		default:
			var d ndn.Data
			var w enc.Wire
			d, w, err = sp.ReadData(enc.NewBufferReader(append([]byte{}, canary...)))
			if err == nil {
				name, cov, content = d.Name(), w.Join(), d.Content().Join()
			}
		}
		c.Count("canary_decodes", 1)
		if err != nil || !name.Equal(cnm) || !bytes.Equal(cov, canarySigned) || string(content) != "canary content" {
			panic(fmt.Sprintf("state leaked between decodes: after an earlier %s call the fixed valid Data packet decodes differently (err=%v, name=%s, signed portion %d bytes, expected %d)", how, err, name, len(cov), len(canarySigned)))
		}
	}
	ts = append(ts,
		&c04Target{name: "ReadPacket", seeds: pseeds, call: func(rd enc.ParseReader) {
			defer checkCanary("ReadPacket")
			p, ctx, err := spec.ReadPacket(rd)
			if err == nil && p != nil {
				if p.Data != nil {
					_ = p.Data.Name().String()
					_ = ctx.Data_context.SigCovered().Join()
					_ = p.Data.FinalBlockID()
				}
				if p.Interest != nil {
					_ = p.Interest.Name().String()
					_ = ctx.Interest_context.SigCovered().Join()
				}
			}
		}},
		&c04Target{name: "ReadData", seeds: pseeds, call: func(rd enc.ParseReader) {
			defer checkCanary("ReadData")
			d, cov, err := sp.ReadData(rd)
			if err == nil {
				_ = d.Name().String()
				_ = cov.Join()
				_ = d.Content().Join()
				_ = d.Signature().SigValue()
				_, _ = d.Signature().Validity()
				// what a consumer reads from a decoded Data (the segment fetcher reads the final block id)
				_ = d.FinalBlockID()
				_ = d.ContentType()
				_ = d.Freshness()
				_ = d.Signature().KeyName()
				_ = d.Signature().SigTime()
			}
		}},
		&c04Target{name: "ReadInterest", seeds: pseeds, call: func(rd enc.ParseReader) {
			i, cov, err := sp.ReadInterest(rd)
			if err == nil {
				_ = i.Name().String()
				_ = cov.Join()
				_ = i.AppParam().Join()
				_ = i.Signature().SigValue()
				_ = i.Signature().SigTime()
				_ = i.Signature().KeyName()
				_ = i.ForwardingHint()
				_ = i.Lifetime()
				_ = i.HopLimit()
				_ = i.Nonce()
			}
		}},
	)
	// name-level entry points
	var nseeds [][]byte
	for i := 0; i < c.Pick(10, 30); i++ {
		nseeds = append(nseeds, gen.Name(r, 6, 20).Bytes())
	}
	ts = append(ts,
		&c04Target{name: "NameFromBytes", seeds: nseeds, call: func(rd enc.ParseReader) {
			// NameFromBytes takes a plain buffer: drain the reader
			b, _ := io.ReadAll(rd)
			n, err := enc.NameFromBytes(b)
			if err == nil {
				_ = n.String()
				_ = n.Bytes()
			}
		}},
		&c04Target{name: "ReadName", seeds: nseeds, call: func(rd enc.ParseReader) {
			n, err := enc.ReadName(rd)
			if err == nil {
				_ = n.Hash()
			}
		}},
		&c04Target{name: "ComponentFromBytes", seeds: nseeds, call: func(rd enc.ParseReader) {
			b, _ := io.ReadAll(rd)
			cmp, err := enc.ComponentFromBytes(b)
			if err == nil {
				_ = cmp.String()
			}
		}},
		&c04Target{name: "ReadComponent", seeds: nseeds, call: func(rd enc.ParseReader) {
			_, _ = enc.ReadComponent(rd)
		}},
	)
	return ts
}

func c04Run(c *h.Ctx) {
	runtime.LockOSThread() // per-call CPU time is read from this thread
	st := &c04State{c: c, watch: h.NewCallWatch(20 * time.Second)}
	// seeds are a function of the seed only (not of the batch) so that case ids are stable
	seedRng := rand.New(rand.NewSource(c.Seed*7919 + 17))
	targets := c04Targets(c, seedRng)
	nMut := c.Pick(700, 15000)
	// ---- Part A: decoders
	for ti, t := range targets {
		for si, seed := range t.seeds {
			if (ti*31+si)%c.NBatch != c.Batch {
				continue
			}
			nodes := gen.Nodes(seed)
			if strings.HasPrefix(t.name, "Read") && len(seed) > 0 && len(seed) < 1500 {
				// enumerated, not sampled: every element once with a damaged nested element inside a
				// consistent outer encoding (what an accessor decodes later, e.g. FinalBlockId)
				for vi, in := range gen.InnerDamage(seed, nodes) {
					id := fmt.Sprintf("A/%s/%d/inner%d", t.name, si, vi)
					if !c.Case(id) {
						continue
					}
					in := in
					hexIn := func() string { return h.HexFull(in) }
					cp := append([]byte{}, in...)
					st.guarded(id, t.name, "buffer", "c-inner-damaged", len(in), hexIn, func() { t.call(enc.NewBufferReader(cp)) })
					w := c04Segment(c.Rng(id), in)
					st.guarded(id, t.name, "wire", "c-inner-damaged", len(in), hexIn, func() { t.call(enc.NewWireReader(w)) })
					c.Count("inner_damage_inputs", 1)
				}
				c.Distinct("A|" + t.name + "|c-inner-damaged-enumerated")
			}
			for k := 0; k < nMut; k++ {
				id := fmt.Sprintf("A/%s/%d/%d", t.name, si, k)
				if !c.Case(id) {
					continue
				}
				r := c.Rng(id)
				var in []byte
				var mclass string
				switch {
				case k == 0:
					in, mclass = append([]byte{}, seed...), "valid"
				case k%10 == 9:
					in = make([]byte, r.Intn(64))
					r.Read(in)
					mclass = "random"
				case k%10 == 8 && len(seed) > 0: // double mutation
					m1, _ := gen.Mutate(r, seed, nodes)
					in, _ = gen.Mutate(r, m1, gen.Nodes(m1))
					mclass = "double"
				default:
					in, mclass = gen.Mutate(r, seed, nodes)
				}
				hexIn := func() string { return h.HexFull(in) }
				if c.OnlyCase != "" {
					c.Journal("INPUT %s %s", id, hexIn())
				}
				cp := append([]byte{}, in...)
				st.guarded(id, t.name, "buffer", mclass, len(in), hexIn, func() { t.call(enc.NewBufferReader(cp)) })
				w := c04Segment(r, in)
				st.guarded(id, t.name, "wire", mclass, len(in), hexIn, func() { t.call(enc.NewWireReader(w)) })
				c.Distinct("A|" + t.name + "|" + mclass)
			}
		}
	}
	c.Count("decoder_targets", int64(len(targets)))
	// ---- Part B: forwarder receive path
	c04Stream(st)
	c04Link(st)
	c.Sample(map[string]any{"targets": len(targets), "mutations_per_seed": nMut})
}

// scripted reader: returns the stream in chunks of scripted sizes
type chunkReader struct {
	data   []byte
	off    int
	chunks []int
	i      int
}

func (cr *chunkReader) Read(p []byte) (int, error) {
	if cr.off >= len(cr.data) {
		return 0, io.EOF
	}
	n := 1
	if len(cr.chunks) > 0 {
		n = cr.chunks[cr.i%len(cr.chunks)]
		cr.i++
	}
	if n > len(p) {
		n = len(p)
	}
	if n > len(cr.data)-cr.off {
		n = len(cr.data) - cr.off
	}
	copy(p, cr.data[cr.off:cr.off+n])
	cr.off += n
	return n, nil
}

func c04Stream(st *c04State) {
	c := st.c
	n := c.Pick(120, 2400)
	for k := 0; k < n; k++ {
		id := fmt.Sprintf("B1/%d/%d", c.Batch, k)
		if !c.Case(id) {
			continue
		}
		r := c.Rng(id)
		var stream []byte
		class := ""
		switch k % 6 {
		case 0:
			class = "random"
			stream = make([]byte, r.Intn(30000))
			r.Read(stream)
		case 1:
			class = "huge-length"
			hl := gen.HugeLens[r.Intn(len(gen.HugeLens))]
			f, _ := gen.VarForm(hl, 9)
			if r.Intn(2) == 0 {
				if f2, ok := gen.VarForm(hl, []int{1, 3, 5}[r.Intn(3)]); ok {
					f = f2
				}
			}
			stream = append([]byte{byte(5 + r.Intn(2))}, f...)
			tail := make([]byte, r.Intn(20000))
			r.Read(tail)
			stream = append(stream, tail...)
		case 2:
			class = "non-shortest"
			for len(stream) < 20000 {
				v := make([]byte, r.Intn(300))
				t := []byte{byte(5 + r.Intn(2))}
				l, _ := gen.VarForm(uint64(len(v)), []int{3, 5, 9}[r.Intn(3)])
				stream = append(stream, t...)
				stream = append(stream, l...)
				stream = append(stream, v...)
			}
		case 3:
			class = "oversize-blocks"
			for i := 0; i < 4; i++ {
				stream = append(stream, tlvwalk.TLV(6, make([]byte, 8790+r.Intn(3000)))...)
			}
		case 4:
			class = "valid-then-garbage"
			for i := 0; i < 20; i++ {
				stream = append(stream, tlvwalk.TLV(uint64(5+r.Intn(2)), make([]byte, r.Intn(2000)))...)
			}
			g := make([]byte, 50)
			r.Read(g)
			stream = append(stream, g...)
			stream = append(stream, tlvwalk.TLV(6, make([]byte, 100))...)
		default:
			class = "truncated-header"
			stream = append(tlvwalk.TLV(6, make([]byte, 300)), 0xfd, 0x01)
		}
		chunks := [][]int{{1}, {1, 2, 3}, {7, 8800, 13}, {100000}, {4096}, {8800}, {8801, 1}}[r.Intn(7)]
		if k%12 == 11 {
			// the whole 32-packet receive buffer is filled by one read: 31 blocks of exactly
			// 8800 bytes, then the first 8800 bytes of a block announcing slightly more
			class = "buffer-end-exact"
			stream = stream[:0]
			for i := 0; i < 31; i++ {
				stream = append(stream, tlvwalk.TLV(6, make([]byte, 8800-4))...)
			}
			over := tlvwalk.TLV(6, make([]byte, 8800-4+1+r.Intn(4)))
			stream = append(stream, over...)
			chunks = []int{32 * 8800, 1}
		}
		if c.OnlyCase != "" {
			c.Journal("INPUT %s class=%s len=%d", id, class, len(stream))
		}
		cr := &chunkReader{data: stream, chunks: chunks}
		frames, bytesOut := 0, 0
		st.guarded(id, "readTlvStream", "stream", class, len(stream)+8800*32, func() string { return h.Hex(stream) }, func() {
			_ = face.VerifReadTlvStream(cr, func(f []byte) {
				frames++
				bytesOut += len(f)
			})
		})
		if bytesOut > len(stream) {
			c.Violation("C04:stream-frames-exceed-input", id, fmt.Sprintf("stream framing delivered %d bytes from a %d-byte stream", bytesOut, len(stream)), map[string]any{"class": class})
		}
		c.Distinct("B1|" + class + "|" + fmt.Sprint(chunks))
		c.Count("stream_cases", 1)
	}
}

func u64be(v uint64) []byte {
	return []byte{byte(v >> 56), byte(v >> 48), byte(v >> 40), byte(v >> 32), byte(v >> 24), byte(v >> 16), byte(v >> 8), byte(v)}
}

func natBytes(v uint64) []byte {
	switch {
	case v <= 0xff:
		return []byte{byte(v)}
	case v <= 0xffff:
		return []byte{byte(v >> 8), byte(v)}
	case v <= 0xffffffff:
		return []byte{byte(v >> 24), byte(v >> 16), byte(v >> 8), byte(v)}
	}
	return u64be(v)
}

func c04Link(st *c04State) {
	c := st.c
	fwenv.Load(fwenv.Config())
	n := c.Pick(300, 8000)
	// valid inner packets
	var inners [][]byte
	sr := rand.New(rand.NewSource(c.Seed + 99))
	for len(inners) < 8 {
		cs := pkt.Gen(sr)
		if len(cs.PayloadBytes()) > 300 || cs.Name.EncodingLength() > 200 {
			continue
		}
		if bl, err := cs.Build(); err == nil {
			inners = append(inners, bl.Bytes)
		}
	}
	for k := 0; k < n; k++ {
		id := fmt.Sprintf("B2/%d/%d", c.Batch, k)
		if !c.Case(id) {
			continue
		}
		r := c.Rng(id)
		nThreads := []int{1, 2, 8}[r.Intn(3)]
		rts := fwenv.InstallRecThreads(nThreads)
		fwfw.Threads = make([]*fwfw.Thread, nThreads)
		scope := []defn.Scope{defn.Local, defn.NonLocal}[r.Intn(2)]
		tr := face.NewVerifTransport(scope, defn.PointToPoint, 8800)
		opts := face.MakeNDNLPLinkServiceOptions()
		opts.IsReassemblyEnabled = r.Intn(4) != 0
		opts.IsConsumerControlledForwardingEnabled = r.Intn(2) == 0
		ls := face.MakeNDNLPLinkService(tr, opts)
		ls.SetFaceID(uint64(300 + r.Intn(5)))
		vals := []uint64{0, 1, 2, 3, uint64(nThreads - 1), uint64(nThreads), uint64(nThreads + 1), 1 << 16, 1 << 32, 1 << 63, 1<<64 - 1}
		nFrames := 1 + r.Intn(12)
		for fi := 0; fi < nFrames; fi++ {
			inner := inners[r.Intn(len(inners))]
			var frame []byte
			class := ""
			switch r.Intn(8) {
			case 7:
				// what the fragment carries is itself a link-protocol packet (nested once or twice),
				// whole or as the two halves of a fragmented message
				class = "nested-lp"
				nested := tlvwalk.TLV(0x64, tlvwalk.TLV(0x50, inner))
				if r.Intn(3) == 0 {
					nested = tlvwalk.TLV(0x64, tlvwalk.TLV(0x50, nested))
				}
				if r.Intn(3) == 0 {
					nested = tlvwalk.TLV(0x64, tlvwalk.TLV(0x50, nil)) // an LpPacket with an empty fragment inside
				}
				frame = tlvwalk.TLV(0x64, tlvwalk.TLV(0x50, nested))
				if r.Intn(3) == 0 && len(nested) > 2 {
					// send it as fragment 0 of 2 now; the other half follows as the next frame of this face
					seqBase := uint64(7000 + 10*fi)
					half := len(nested) / 2
					f0 := append(append(tlvwalk.TLV(0x51, u64be(seqBase)), tlvwalk.TLV(0x52, []byte{0})...), tlvwalk.TLV(0x53, []byte{2})...)
					f0 = append(f0, tlvwalk.TLV(0x50, nested[:half])...)
					f1 := append(append(tlvwalk.TLV(0x51, u64be(seqBase+1)), tlvwalk.TLV(0x52, []byte{1})...), tlvwalk.TLV(0x53, []byte{2})...)
					f1 = append(f1, tlvwalk.TLV(0x50, nested[half:])...)
					first := tlvwalk.TLV(0x64, f0)
					ff := first
					st.guarded(id, "handleIncomingFrame", "frame", class, len(ff), func() string { return h.HexFull(ff) }, func() { face.VerifRecv(ls, ff) })
					frame = tlvwalk.TLV(0x64, f1)
				}
			case 0:
				class = "bare"
				frame = append([]byte{}, inner...)
			case 1, 2:
				class = "frag-fields"
				var f []byte
				pick := func() uint64 { return vals[r.Intn(len(vals))] }
				if r.Intn(5) != 0 {
					f = append(f, tlvwalk.TLV(0x51, u64be(pick()))...)
				}
				if r.Intn(4) != 0 {
					f = append(f, tlvwalk.TLV(0x52, natBytes(pick()))...)
				}
				if r.Intn(4) != 0 {
					f = append(f, tlvwalk.TLV(0x53, natBytes(pick()))...)
				}
				part := inner
				if r.Intn(2) == 0 && len(inner) > 4 {
					part = inner[:1+r.Intn(len(inner)-1)]
				}
				f = append(f, tlvwalk.TLV(0x50, part)...)
				frame = tlvwalk.TLV(0x64, f)
			case 3:
				class = "pit-token"
				tok := make([]byte, []int{0, 1, 4, 6, 6, 6, 8, 32}[r.Intn(8)])
				r.Read(tok)
				if len(tok) == 6 {
					tid := []int{0, nThreads - 1, nThreads, nThreads + 1, 65535}[r.Intn(5)]
					tok[0], tok[1] = byte(tid>>8), byte(tid)
				}
				f := tlvwalk.TLV(0x62, tok)
				f = append(f, tlvwalk.TLV(0x50, inner)...)
				frame = tlvwalk.TLV(0x64, f)
			case 4:
				class = "mutated-lp"
				f := tlvwalk.TLV(0x51, u64be(uint64(r.Intn(3))))
				f = append(f, tlvwalk.TLV(0x52, []byte{byte(r.Intn(2))})...)
				f = append(f, tlvwalk.TLV(0x53, []byte{2})...)
				f = append(f, tlvwalk.TLV(0x50, inner)...)
				seed := tlvwalk.TLV(0x64, f)
				frame, _ = gen.Mutate(r, seed, gen.Nodes(seed))
			case 5:
				class = "mutated-inner"
				mi, _ := gen.Mutate(r, inner, gen.Nodes(inner))
				frame = tlvwalk.TLV(0x64, tlvwalk.TLV(0x50, mi))
			default:
				class = "random"
				frame = make([]byte, r.Intn(100))
				r.Read(frame)
			}
			// does the frame decode at the link layer? (independent call on a copy)
			decodes := false
			_ = h.Guard(func() {
				_, _, err := spec.ReadPacket(enc.NewBufferReader(append([]byte{}, frame...)))
				decodes = err == nil
			})
			qBefore := 0
			for _, t := range rts {
				qBefore += t.Len()
			}
			pm0, ps0 := face.VerifPartialStore(ls)
			fid := fmt.Sprintf("%s#%d", id, fi)
			if c.OnlyCase != "" {
				c.Journal("INPUT %s class=%s frame=%s", fid, class, h.HexFull(frame))
			}
			fr := frame
			st.guarded(id, "handleIncomingFrame", "frame", class, len(frame), func() string { return h.HexFull(fr) }, func() { face.VerifRecv(ls, fr) })
			qAfter := 0
			for _, t := range rts {
				qAfter += t.Len()
			}
			pm1, ps1 := face.VerifPartialStore(ls)
			if !decodes && (qAfter != qBefore || pm1 != pm0 || ps1 != ps0) {
				c.Violation("C04:undecodable-frame-changed-state", id, "a frame that fails to decode changed forwarder state (queues or reassembly store)",
					map[string]any{"frame": h.HexFull(frame), "queued_before": qBefore, "queued_after": qAfter, "partial_before": []int{pm0, ps0}, "partial_after": []int{pm1, ps1}})
			}
			if qAfter-qBefore > nThreads {
				c.Violation("C04:frame-queued-too-often", id, "one frame was queued more often than there are threads", map[string]any{"frame": h.HexFull(frame)})
			}
			c.Distinct(fmt.Sprintf("B2|%s|decodes=%v|queued=%v", class, decodes, qAfter > qBefore))
			c.Count("link_frames", 1)
		}
		if !bytes.Equal([]byte{}, []byte{}) {
			_ = strings.ToLower
		}
	}
}

func init() {
	h.Register(&h.Prop{
		ID:    "C04",
		Level: "exploration",
		Rule: "targets are discovered, not listed: every generated model's parser (registry scan) plus ReadPacket/ReadData/ReadInterest/NameFromBytes/ReadName/ComponentFromBytes/ReadComponent, each through the contiguous and the segmented reader; inputs = valid encodings, structure-aware mutations " +
			"(every length replaced by boundary/huge values in all 1/3/5/9-byte forms, truncation, type confusion, nested-length disagreement, duplication, reordering, bit flips, double mutations) and random bytes; plus the forwarder receive path: stream framing over hostile streams/chunkings and NDNLP frames with " +
			"hostile Sequence/FragIndex/FragCount/PIT-token combinations into a link service with 1/2/8 recording threads; sanitizers: recover(), heap allocation delta per call (limit 1 MiB + 256 x input), 20 s per-call watchdog, RLIMIT_AS, process death attributed through a journal; distinct = (target, mutation class) / (stream class, chunking) / (frame class, decodes, queued)",
		Assumptions: []string{"allocation is measured with runtime/metrics /gc/heap/allocs:bytes (exact for large objects)", "targets reachable only through sockets (UDP/TCP/WebSocket listeners) are exercised through the functions they call (readTlvStream, handleIncomingFrame)"},
		Batches:     func(t bool) int { return 16 },
		ChildTimeoutS: func(t bool) int {
			if t {
				return 3000
			}
			return 500
		},
		Run:         c04Run,
		MinDistinct: 200,
		MemLimitMB:  8192,
		Env:         []string{"GOMAXPROCS=2"},
		Floors:      map[string]int64{"stream_cases": 10, "link_frames": 100, "decoder_targets": 80},
	})
}
