package props

import (
	"fmt"
	"time"

	"github.com/named-data/ndnd/fw/table"
	enc "github.com/named-data/ndnd/std/encoding"
	mgmt "github.com/named-data/ndnd/std/ndn/mgmt_2022"

	"verif/internal/h"
)

// ---- C06, a face that is removed in two steps: faces/destroy takes the face out of the face
// table but its link service keeps running until the transport closes, and an application on it
// can still register a prefix for itself (no FaceId: the requesting face). Once the transport has
// closed as well, no route and no next hop of that face may remain. Runs on the mini daemon C17
// uses; must be the last thing in its child process.
func c06Lifecycle(c *h.Ctx) {
	if !c.Case("lifecycle") {
		return
	}
	algo := []string{"nametree", "hashtable"}[c.Batch%2]
	d := c17Start(c, false, algo)
	r := c.Rng("lifecycle")
	refs := func(id uint64) (routes, hops []string) {
		for _, e := range table.Rib.GetAllEntries() {
			for _, rt := range e.GetRoutes() {
				if rt.FaceID == id {
					routes = append(routes, e.Name.String())
				}
			}
		}
		for _, e := range table.FibStrategyTable.GetAllFIBEntries() {
			for _, nh := range e.GetNextHops() {
				if nh.Nexthop == id {
					hops = append(hops, e.Name().String())
				}
			}
		}
		return
	}
	// ---- inheritance through management: a route registered with Flags given explicitly as 0 is not
	// child-inherit; a longer prefix with a route of its own must not inherit its face
	for k := 0; k < c.Pick(3, 20); k++ {
		id := fmt.Sprintf("lifecycle/flags%d", k)
		c.Eval(1)
		short, _ := enc.NameFromStr(fmt.Sprintf("/r/fl%d", k))
		long, _ := enc.NameFromStr(fmt.Sprintf("/r/fl%d/x", k))
		flags := uint64(r.Intn(4))
		withFlags := r.Intn(4) != 0
		a1 := &mgmt.ControlArgs{Name: short, FaceId: u64p(d.app.id), Cost: u64p(3)}
		if withFlags {
			a1.Flags = u64p(flags)
		} else {
			flags = 1 // the documented default: child-inherit
		}
		a2 := &mgmt.ControlArgs{Name: long, FaceId: u64p(d.app2.id), Cost: u64p(4), Flags: u64p(0)}
		cp1, cp2 := c17Params(a1), c17Params(a2)
		d.log = append(d.log, fmt.Sprintf("%s: rib/register %s face=%d flags=%s; rib/register %s face=%d flags=0", id, short, d.app.id, fmtU(a1.Flags), long, d.app2.id))
		r1 := d.command(d.app, "/localhost/nfd", "rib", "register", &cp1, 15*time.Second)
		r2 := d.command(d.app, "/localhost/nfd", "rib", "register", &cp2, 15*time.Second)
		if r1 == nil || r2 == nil || r1.StatusCode != 200 || r2.StatusCode != 200 {
			c.Inconclusive("lifecycle: rib/register got no 200")
			return
		}
		var hops []uint64
		for _, nh := range table.FibStrategyTable.FindNextHopsEnc(long) {
			hops = append(hops, nh.Nexthop)
		}
		inherits := false
		for _, h := range hops {
			if h == d.app.id {
				inherits = true
			}
		}
		wantInherit := flags&1 != 0
		c.Distinct(fmt.Sprintf("lifecycle|flags=%d|given=%v", flags, withFlags))
		if inherits != wantInherit {
			d.fail("C06:inheritance-through-management-wrong:"+algo, id, fmt.Sprintf("%s was registered on face %d with Flags %s (child-inherit %v); the longer prefix %s, which has a route of its own, forwards to faces %v", short, d.app.id, fmtU(a1.Flags), wantInherit, long, hops), nil)
			return
		}
	}
	fd := 60
	for k := 0; k < c.Pick(10, 80); k++ {
		id := fmt.Sprintf("lifecycle/r%d", k)
		c.Eval(1)
		fd++
		f := d.newFace(true, fd)
		d.log = append(d.log, fmt.Sprintf("%s: local face %d created", id, f.id))
		pfx, _ := enc.NameFromStr(fmt.Sprintf("/r/life%d", k))
		flags := uint64(r.Intn(4))
		early := r.Intn(2) == 0
		reg := func() {
			cp := c17Params(&mgmt.ControlArgs{Name: pfx, Flags: u64p(flags), Cost: u64p(uint64(r.Intn(9)))})
			d.log = append(d.log, fmt.Sprintf("%s: face %d registers %s for itself (flags %d)", id, f.id, pfx, flags))
			d.command(f, "/localhost/nfd", "rib", "register", &cp, 40*time.Millisecond)
		}
		if early {
			reg() // registered while the face is still in the table
			if r.Intn(3) == 0 {
				// ... and withdrawn again by the face itself, naming itself as "face 0" or not at all
				a := &mgmt.ControlArgs{Name: pfx}
				if r.Intn(2) == 0 {
					a.FaceId = u64p(0)
				}
				cp := c17Params(a)
				d.log = append(d.log, fmt.Sprintf("%s: face %d unregisters %s for itself (FaceId %s)", id, f.id, pfx, fmtU(a.FaceId)))
				resp := d.command(f, "/localhost/nfd", "rib", "unregister", &cp, 15*time.Second)
				if resp == nil {
					c.Inconclusive("lifecycle: rib/unregister unanswered")
					return
				}
				if rs, hs := refs(f.id); resp.StatusCode == 200 && (len(rs) > 0 || len(hs) > 0) {
					d.fail("C06:nexthop-of-unregistered-route-remains:"+algo, id, fmt.Sprintf("rib/unregister of %s by face %d for itself was answered 200, but RIB routes %v and FIB next hops %v still refer to the face", pfx, f.id, rs, hs), nil)
					return
				}
				c.Count("self_unregistrations", 1)
				reg()
			}
		}
		cp := c17Params(&mgmt.ControlArgs{FaceId: u64p(f.id)})
		if !early || r.Intn(2) == 0 {
			// the two commands cross: the face's own registration is already past the forwarding
			// thread's incoming-face lookup when management executes the destroy command, and reaches
			// management after it (a registration for the requesting face is not checked against the
			// face table)
			dn, _ := enc.NameFromStr("/localhost/nfd/faces/destroy")
			dn = append(dn, cp)
			d.log = append(d.log, fmt.Sprintf("%s: faces/destroy %d, crossing with:", id, f.id))
			d.send(d.app, dn, false)
			for i := r.Intn(4); i > 0; i-- {
				time.Sleep(20 * time.Microsecond)
			}
			reg()
			if data, _ := d.await(d.app, dn, 15*time.Second); data == nil {
				c.Inconclusive("lifecycle: faces/destroy unanswered")
				return
			}
		} else {
			if resp := d.command(d.app, "/localhost/nfd", "faces", "destroy", &cp, 15*time.Second); resp == nil || resp.StatusCode != 200 {
				c.Inconclusive("lifecycle: faces/destroy got no 200")
				return
			}
			d.log = append(d.log, fmt.Sprintf("%s: faces/destroy %d", id, f.id))
		}
		// give the registration time to be applied (it may legitimately be refused)
		registered := false
		for dl := time.Now().Add(300 * time.Millisecond); time.Now().Before(dl); time.Sleep(time.Millisecond) {
			if rs, _ := refs(f.id); len(rs) > 0 {
				registered = true
				break
			}
		}
		if registered {
			c.Count("routes_registered_by_destroyed_face", 1)
		}
		// the application disconnects: the transport closes, the link service unregisters the face
		f.tr.Close()
		d.log = append(d.log, fmt.Sprintf("%s: transport of face %d closed", id, f.id))
		var routes, hops []string
		for dl := time.Now().Add(10 * time.Second); ; time.Sleep(time.Millisecond) {
			routes, hops = refs(f.id)
			if len(routes) == 0 && len(hops) == 0 {
				break
			}
			if time.Now().After(dl) {
				d.fail("C06:nexthop-of-removed-face-remains:"+algo, id, fmt.Sprintf("10 s after face %d was destroyed and its transport closed, RIB routes %v and FIB next hops %v still refer to it", f.id, routes, hops), nil)
				return
			}
		}
		if !d.alive(id) {
			return
		}
		c.Count("lifecycle_rounds", 1)
		c.Distinct(fmt.Sprintf("lifecycle|registered-after-destroy=%v|early=%v", registered, early))
	}
}
