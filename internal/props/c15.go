package props

import (
	"bytes"
	"fmt"
	"math/rand"
	"os"
	"path/filepath"
	"runtime"
	"strings"
	"sync"
	"time"

	enc "github.com/named-data/ndnd/std/encoding"
	"github.com/named-data/ndnd/std/engine/basic"
	"github.com/named-data/ndnd/std/log"
	"github.com/named-data/ndnd/std/ndn"
	"github.com/named-data/ndnd/std/object"
	sec "github.com/named-data/ndnd/std/security"

	"verif/internal/h"
	"verif/internal/simeng"
	"verif/internal/tlvwalk"
)

// ---- C15: a published object is retrieved byte-for-byte, newest version, completing once

type c15Pkt struct {
	toProducer bool
	b          []byte
	name       string
	delay      int
}

type c15Net struct {
	mu       sync.Mutex
	q        []*c15Pkt
	drops    map[string]int
	dropAll  map[string]bool // beyond-budget profile: every attempt of these Interests is lost
	r        *rand.Rand
	lossy    bool
	nDropped int
	nRelayed int
	reorder  bool
}

func pktName(b []byte) string {
	v, err := viewPacket(b)
	if err != nil {
		// LpPacket or other: unwrap is not needed here (clients send bare packets)
		return "?"
	}
	return v.kind[:1] + ":" + v.name.String()
}

func (n *c15Net) enqueue(toProducer bool, b []byte) {
	n.mu.Lock()
	defer n.mu.Unlock()
	n.q = append(n.q, &c15Pkt{toProducer: toProducer, b: b, name: pktName(b)})
}

func (n *c15Net) size() int {
	n.mu.Lock()
	defer n.mu.Unlock()
	return len(n.q)
}

// blockedInSelect counts goroutines parked in the select of the named function.
func blockedInSelect(fn string) int {
	buf := make([]byte, 1<<20)
	nb := runtime.Stack(buf, true)
	cnt := 0
	for _, g := range strings.Split(string(buf[:nb]), "\n\n") {
		lines := strings.SplitN(g, "\n", 3)
		if len(lines) < 2 {
			continue
		}
		if strings.Contains(lines[0], "[select") && strings.HasPrefix(lines[1], fn) {
			cnt++
		}
	}
	return cnt
}

type c15Setup struct {
	store     ndn.Store
	storeKind string
	closeFn   func()
}

func c15Store(c *h.Ctx, kind, tag string) (*c15Setup, error) {
	if kind == "memory" {
		return &c15Setup{store: object.NewMemoryStore(), storeKind: kind, closeFn: func() {}}, nil
	}
	dir := filepath.Join(c.WorkDir, fmt.Sprintf("bolt-%d", c.Batch))
	h.MustMkdir(dir)
	path := filepath.Join(dir, tag+".db")
	os.Remove(path)
	bs, err := object.NewBoltStore(path)
	if err != nil {
		return nil, err
	}
	return &c15Setup{store: bs, storeKind: kind, closeFn: func() { bs.Close(); os.Remove(path) }}, nil
}

func c15Content(r *rand.Rand, size int) ([]byte, enc.Wire) {
	b := make([]byte, size)
	r.Read(b)
	k := 1 + r.Intn(7)
	w := enc.Wire{}
	rest := append([]byte{}, b...)
	for i := 0; i < k-1 && len(rest) > 0; i++ {
		cut := r.Intn(len(rest) + 1)
		if cut > 0 {
			w = append(w, rest[:cut:cut])
		}
		rest = rest[cut:]
	}
	if len(rest) > 0 {
		w = append(w, rest)
	}
	return b, w
}

var c15Sizes = []int{1, 2, 7999, 8000, 8001, 15999, 16000, 16001, 23999, 24001, 40000, 79999, 80001}

func c15Transfer(c *h.Ctx, id string, r *rand.Rand) {
	c.Eval(1)
	log.SetLevel(log.FatalLevel)
	storeKind := []string{"memory", "bolt"}[r.Intn(2)]
	st, err := c15Store(c, storeKind, strings.ReplaceAll(id, "/", "_"))
	if err != nil {
		c.Inconclusive("cannot open store: " + err.Error())
		return
	}
	defer st.closeFn()
	tm := simeng.NewTimer()
	net := &c15Net{drops: map[string]int{}, dropAll: map[string]bool{}, r: r}
	pf, cf := simeng.NewFace(true), simeng.NewFace(true)
	pf.OnSend = func(b []byte) { net.enqueue(false, b) }
	cf.OnSend = func(b []byte) { net.enqueue(true, b) }
	okSig := func(enc.Name, enc.Wire, ndn.Signature) bool { return true }
	pe := basic.NewEngine(pf, tm, sec.NewSha256IntSigner(tm), okSig)
	ce := basic.NewEngine(cf, tm, sec.NewSha256IntSigner(tm), okSig)
	if pe.Start() != nil || ce.Start() != nil {
		c.Inconclusive("engine start failed")
		return
	}
	prod := object.NewClient(pe, st.store)
	cons := object.NewClient(ce, object.NewMemoryStore())
	if prod.Start() != nil || cons.Start() != nil {
		c.Inconclusive("client start failed")
		return
	}
	defer prod.Stop()
	defer cons.Stop()

	// ---- produce 1..4 versions in random order
	size := c15Sizes[r.Intn(len(c15Sizes))]
	if r.Intn(6) == 0 {
		size = 1 + r.Intn(60000)
	}
	if r.Intn(8) == 0 { // objects much longer than the fetch window (12..45 segments)
		size = 8000*(12+r.Intn(34)) + []int{-1, 0, 1, 4000}[r.Intn(4)]
	}
	nVer := 1 + r.Intn(4)
	versions := r.Perm(nVer)
	objName, _ := enc.NameFromStr(fmt.Sprintf("/obj/%d", r.Intn(3)))
	if r.Intn(3) == 0 {
		// deep object names (1..22 components): slice capacities differ with the depth
		for d := r.Intn(21); d > 0; d-- {
			objName = append(objName, enc.NewStringComponent(8, fmt.Sprintf("d%d", d)))
		}
	}
	if r.Intn(5) == 0 {
		// object names that contain number-convention components themselves (a dataset version, a
		// timestamp, a sequence number) before the part the application chose last
		mid := []enc.Component{enc.NewVersionComponent(uint64(1 + r.Intn(9))), enc.NewTimestampComponent(uint64(1 + r.Intn(999))), enc.NewSequenceNumComponent(uint64(r.Intn(9))), enc.NewSegmentComponent(uint64(r.Intn(3)))}[r.Intn(4)]
		objName = append(objName, mid, enc.NewStringComponent(8, "file"))
		c.Count("object_names_with_an_inner_number_component", 1)
	}
	spare := r.Intn(2) == 0
	contents := map[uint64][]byte{}
	var newest uint64
	var vOrder []uint64
	for _, vi := range versions {
		v := uint64(1 + vi*3)
		if r.Intn(4) == 0 {
			v = uint64(1+vi) * 1000003
		} else if r.Intn(6) == 0 {
			v = []uint64{253, 254, 255, 256}[vi%4] + uint64(vi/4)*65536
		}
		raw, wire := c15Content(r, max(1, size+[]int{0, 0, -1, 1, 8000}[r.Intn(5)]))
		nm := objName.Clone()
		if spare {
			tmp := make(enc.Name, len(nm), len(nm)+4)
			copy(tmp, nm)
			nm = tmp
		}
		vv := v
		if _, err := prod.Produce(object.ProduceArgs{Name: nm, Content: wire, Version: &vv}); err != nil {
			c.Violation("C15:produce-error", id, "Produce failed: "+err.Error(), map[string]any{"size": len(raw), "version": v})
			return
		}
		contents[v] = raw
		vOrder = append(vOrder, v)
		if v > newest {
			newest = v
		}
	}
	// optionally remove the newest version from the store: the consumer must then get the next one
	removed := false
	if nVer > 1 && r.Intn(4) == 0 {
		base := append(objName.Clone(), enc.NewVersionComponent(newest))
		meta := append(objName.Clone(), enc.NewStringComponent(enc.TypeKeywordNameComponent, "metadata"), enc.NewVersionComponent(newest))
		_ = st.store.Remove(base, true)
		_ = st.store.Remove(meta, true)
		delete(contents, newest)
		removed = true
		newest = 0
		for v := range contents {
			if v > newest {
				newest = v
			}
		}
	}
	want := contents[newest]

	// ---- loss profile
	profile := []string{"clean", "reorder", "lossy-within-budget", "lossy-within-budget", "beyond-budget"}[r.Intn(5)]
	net.lossy = strings.HasPrefix(profile, "lossy")
	net.reorder = profile != "clean"
	beyond := profile == "beyond-budget"

	det := func() map[string]any {
		return map[string]any{"store": storeKind, "size": len(want), "versions_published_in_order": vOrder, "newest_removed": removed, "expected_version": newest, "profile": profile,
			"name_has_spare_capacity": spare, "relayed": net.nRelayed, "dropped": net.nDropped}
	}

	// ---- consume
	var mu sync.Mutex
	var got []byte
	completions := 0
	var cerr error
	calls := 0
	cons.Consume(objName.Clone(), func(s *object.ConsumeState) bool {
		mu.Lock()
		defer mu.Unlock()
		calls++
		if s.IsComplete() {
			completions++
			cerr = s.Error()
		}
		if s.Error() == nil {
			got = append(got, s.Content()...)
			// "any subsequent calls to Content() will return data after the previous call": an
			// application that reads again in the same callback (tools/catchunks does on every
			// 1000th segment) must get nothing twice
			got = append(got, s.Content()...)
		}
		return true
	})

	// ---- relay loop: deliver on this goroutine; advance the virtual clock only at exact quiescence
	deadline := time.Now().Add(60 * time.Second)
	idle := 0
	beyondPicked := false
	for {
		if time.Now().After(deadline) {
			c.Inconclusive("transfer did not finish within 60 s of wall clock")
			return
		}
		mu.Lock()
		done := completions > 0
		mu.Unlock()
		net.mu.Lock()
		var p *c15Pkt
		if len(net.q) > 0 {
			i := 0
			if net.reorder && len(net.q) > 1 && r.Intn(3) == 0 {
				i = r.Intn(len(net.q))
			}
			p = net.q[i]
			net.q = append(net.q[:i:i], net.q[i+1:]...)
		}
		net.mu.Unlock()
		if p != nil {
			idle = 0
			drop := false
			// attempts are counted per Interest: a Data packet counts for the Interest it answers
			// (the metadata Interest is a prefix of its Data's name)
			key := strings.TrimPrefix(strings.TrimPrefix(p.name, "i:"), "d:")
			if i := strings.Index(key, "/32=metadata"); i >= 0 {
				key = key[:i+len("/32=metadata")]
			}
			if beyond && !beyondPicked && strings.Contains(key, "seg=") && r.Intn(3) == 0 {
				net.dropAll[key] = true
				beyondPicked = true
			}
			switch {
			case net.dropAll[key]:
				drop = true
			case net.lossy && net.drops[key] < 3 && r.Intn(5) == 0:
				net.drops[key]++
				drop = true
			}
			if drop {
				net.nDropped++
				continue
			}
			net.nRelayed++
			if p.toProducer {
				_ = pf.Feed(p.b)
			} else {
				_ = cf.Feed(p.b)
			}
			continue
		}
		// queue empty: are both clients parked?
		if blockedInSelect("github.com/named-data/ndnd/std/object.(*Client).run") < 2 || net.size() > 0 {
			runtime.Gosched()
			time.Sleep(50 * time.Microsecond)
			continue
		}
		idle++
		if idle < 3 {
			runtime.Gosched()
			continue
		}
		if done {
			break
		}
		// exact quiescence and not finished: only a timer can make progress
		nEv, first := tm.Pending()
		if nEv == 0 {
			c.Violation("C15:silent", id, "the consumer neither completed nor has any timer pending: the callback will never report completion", det())
			return
		}
		tm.Advance(first)
		idle = 0
	}
	// let late events (duplicate completions) show up: run the remaining timers
	for k := 0; k < 20; k++ {
		nEv, first := tm.Pending()
		if nEv == 0 {
			break
		}
		tm.Advance(first)
		for net.size() > 0 {
			net.mu.Lock()
			p := net.q[0]
			net.q = net.q[1:]
			net.mu.Unlock()
			if p.toProducer {
				_ = pf.Feed(p.b)
			} else {
				_ = cf.Feed(p.b)
			}
		}
		time.Sleep(200 * time.Microsecond)
	}
	mu.Lock()
	defer mu.Unlock()
	c.Count("transfers", 1)
	c.Count("packets_relayed", int64(net.nRelayed))
	c.Count("packets_dropped", int64(net.nDropped))
	segs := (len(want) + 7999) / 8000
	c.Distinct(fmt.Sprintf("%s|%s|segs=%d|versions=%d|removed=%v|tail=%d", storeKind, profile, min(segs, 4), nVer, removed, len(want)%8000))
	if completions != 1 {
		c.Violation("C15:completion-count", id, fmt.Sprintf("the consumer callback reported completion %d times (exactly once expected)", completions), det())
		return
	}
	if beyond {
		// an error completion is accepted; a successful one must still be correct
		if cerr != nil {
			c.Count("error_completions", 1)
			return
		}
	} else if cerr != nil {
		c.Violation("C15:error-within-retry-budget:"+profile, id, "the consumer completed with an error although losses stayed within the retry budget: "+cerr.Error(), det())
		return
	}
	if !bytes.Equal(got, want) {
		cls := "corrupted"
		switch {
		case len(got) < len(want):
			cls = "truncated"
		case len(got) > len(want):
			cls = "duplicated-or-extra"
		}
		for v, b := range contents {
			if v != newest && bytes.Equal(got, b) {
				cls = "older-version"
			}
		}
		d := det()
		d["got_bytes"] = len(got)
		c.Violation("C15:content-differs:"+cls, id, fmt.Sprintf("retrieved %d bytes differ from the %d bytes published as the newest version (%s)", len(got), len(want), cls), d)
		return
	}
	c.Sample(det())

	// ---- removal after the packets have been served: "packets removed from a store are no longer
	// served" also holds for packets this producer has just handed out. Control first: an exact-name
	// Interest for segment 0 of the version just fetched is answered; then the application removes
	// that version from its store and the same Interest (new nonce) must get no Data.
	if r.Intn(2) == 0 {
		base := append(objName.Clone(), enc.NewVersionComponent(newest))
		seg0 := append(base.Clone(), enc.NewSegmentComponent(0))
		ask := func(nonce byte, wait time.Duration) (bool, time.Duration) {
			net.mu.Lock()
			net.q = nil
			net.mu.Unlock()
			body := append(seg0.Bytes(), tlvwalk.TLV(0x0a, []byte{0xc1, 0x5a, 0, nonce})...)
			_ = pf.Feed(tlvwalk.TLV(5, body))
			t0 := time.Now()
			for time.Since(t0) < wait {
				net.mu.Lock()
				for _, p := range net.q {
					if !p.toProducer && p.name == "d:"+seg0.String() {
						net.mu.Unlock()
						return true, time.Since(t0)
					}
				}
				net.mu.Unlock()
				time.Sleep(100 * time.Microsecond)
			}
			return false, wait
		}
		answered, took := ask(1, 5*time.Second)
		if !answered {
			c.Count("served_again_control_unanswered", 1) // not this family's verdict
			return
		}
		_ = st.store.Remove(base.Clone(), true)
		if again, _ := ask(2, 20*time.Millisecond+5*took); again {
			d := det()
			d["segment"] = seg0.String()
			c.Violation("C15:removed-packet-still-served:producer:"+storeKind, id, fmt.Sprintf("%s was removed from the producer's store (Remove returned) after it had been served; an exact-name Interest for it still got the Data", seg0), d)
			return
		}
		c.Count("removed_after_serving_checks", 1)
	}
}

// c15Stores: MemoryStore and BoltStore give the same answers after the same Produce/Remove history.
func c15Stores(c *h.Ctx, id string, r *rand.Rand) {
	c.Eval(1)
	log.SetLevel(log.FatalLevel)
	ms, err1 := c15Store(c, "memory", "")
	bs, err2 := c15Store(c, "bolt", strings.ReplaceAll(id, "/", "_"))
	if err1 != nil || err2 != nil {
		c.Inconclusive("cannot open stores")
		return
	}
	defer bs.closeFn()
	tm := simeng.NewTimer()
	mk := func(st ndn.Store) *object.Client {
		f := simeng.NewFace(true)
		e := basic.NewEngine(f, tm, sec.NewSha256IntSigner(tm), func(enc.Name, enc.Wire, ndn.Signature) bool { return true })
		_ = e.Start()
		return object.NewClient(e, st)
	}
	cm, cb := mk(ms.store), mk(bs.store)
	var hist []string
	var names []enc.Name
	// packets a caller got from the on-disk store and still holds (queued in a face, being
	// sent) while later publications go on: the bytes it was given must not change under it
	type heldPkt struct {
		name      enc.Name
		got, copy []byte
		step      int
	}
	var held []heldPkt
	objs := []string{"/o/a", "/o/a/b", "/o/c", "/o/32=a", "/o/a/32=b"} // incl. siblings that differ only in the component type
	for step := 0; step < 6+r.Intn(8); step++ {
		on, _ := enc.NameFromStr(objs[r.Intn(len(objs))])
		if r.Intn(4) != 0 {
			v := uint64(1 + r.Intn(5))
			if r.Intn(4) == 0 { // versions whose encoding ends in 0xff / crosses a byte-length boundary
				v = []uint64{254, 255, 256, 65535, 65536, 0x12345ff, 0xffffffff}[r.Intn(7)]
			}
			raw, _ := c15Content(r, []int{1, 8000, 8001, 17000}[r.Intn(4)])
			hist = append(hist, fmt.Sprintf("produce %s v=%d size=%d", on, v, len(raw)))
			for _, cl := range []*object.Client{cm, cb} {
				vv := v
				if _, err := cl.Produce(object.ProduceArgs{Name: on.Clone(), Content: enc.Wire{append([]byte{}, raw...)}, Version: &vv}); err != nil {
					c.Violation("C15:produce-error", id, "Produce failed: "+err.Error(), map[string]any{"history": hist})
					return
				}
			}
			base := append(on.Clone(), enc.NewVersionComponent(v))
			for sg := 0; sg <= (len(raw)-1)/8000; sg++ {
				names = append(names, append(base.Clone(), enc.NewSegmentComponent(uint64(sg))))
			}
			names = append(names, append(on.Clone(), enc.NewStringComponent(enc.TypeKeywordNameComponent, "metadata"), enc.NewVersionComponent(v), enc.NewSegmentComponent(0)))
		} else if len(names) > 0 {
			n := names[r.Intn(len(names))].Clone()
			pfx := r.Intn(2) == 0
			if pfx && len(n) > 2 {
				n = n[:len(n)-1-r.Intn(2)]
			}
			if r.Intn(3) == 0 {
				// the removal arrives while another publisher's put-transaction is open on the
				// in-memory store (transactions are for puts only: a removal acts on the committed
				// packets). The on-disk store gets the same two operations one after the other.
				filler := append(enc.Name{enc.NewStringComponent(8, "o"), enc.NewStringComponent(8, "t")}, enc.NewSequenceNumComponent(uint64(step)))
				hist = append(hist, fmt.Sprintf("remove %s prefix=%v while a put-transaction is open on the memory store", n, pfx))
				_ = ms.store.Begin()
				_ = ms.store.Put(filler.Clone(), 1, []byte("filler"))
				_ = ms.store.Remove(n.Clone(), pfx)
				_ = ms.store.Commit()
				// (same net effect, serialised: the removal sees the committed packets only, the
				// put becomes visible at commit)
				_ = bs.store.Remove(n.Clone(), pfx)
				_ = bs.store.Begin()
				_ = bs.store.Put(filler.Clone(), 1, []byte("filler"))
				_ = bs.store.Commit()
				names = append(names, filler)
				c.Count("removals_during_open_transaction", 1)
				if !pfx {
					if a, _ := ms.store.Get(n.Clone(), false); a != nil {
						c.Violation("C15:removed-packet-still-served:memory-store", id, fmt.Sprintf("Get(%s) still returns %d bytes after Remove returned (the removal was issued while a put-transaction was open)", n, len(a)), map[string]any{"history": hist})
						return
					}
				}
			} else {
				hist = append(hist, fmt.Sprintf("remove %s prefix=%v", n, pfx))
				_ = ms.store.Remove(n.Clone(), pfx)
				_ = bs.store.Remove(n.Clone(), pfx)
			}
		}
		// queries with a unique answer: every exact name ever stored, and the newest metadata per object
		for _, n := range names {
			a, _ := ms.store.Get(n.Clone(), false)
			b, _ := bs.store.Get(n.Clone(), false)
			c.Count("store_queries", 1)
			if b != nil && len(held) < 40 && r.Intn(3) == 0 {
				held = append(held, heldPkt{n.Clone(), b, append([]byte{}, b...), len(hist)})
			}
			if !bytes.Equal(a, b) {
				c.Violation("C15:stores-disagree:exact", id, fmt.Sprintf("Get(%s, exact) differs: memory store %d bytes, bolt store %d bytes", n, len(a), len(b)), map[string]any{"history": hist})
				return
			}
		}
		for _, hp := range held {
			c.Count("held_packets_rechecked", 1)
			if hp.step < len(hist) && !bytes.Equal(hp.got, hp.copy) {
				c.Violation("C15:store-returned-bytes-change-after-later-writes", id, fmt.Sprintf("the %d bytes the on-disk store returned for %s changed while the caller still held them, after later publications/removals", len(hp.copy), hp.name), map[string]any{"history": hist, "returned_after_history_entries": hp.step})
				return
			}
		}
		for _, o := range objs {
			on, _ := enc.NameFromStr(o)
			mn := append(on, enc.NewStringComponent(enc.TypeKeywordNameComponent, "metadata"))
			a, _ := ms.store.Get(mn.Clone(), true)
			b, _ := bs.store.Get(mn.Clone(), true)
			c.Count("store_queries", 1)
			if !bytes.Equal(a, b) {
				c.Violation("C15:stores-disagree:newest-metadata", id, fmt.Sprintf("Get(%s, prefix) differs between the stores (%d vs %d bytes)", mn, len(a), len(b)), map[string]any{"history": hist})
				return
			}
		}
	}
	c.Distinct(fmt.Sprintf("stores|ops=%d", min(len(hist)/3, 4)))
}

func c15Run(c *h.Ctx) {
	for k := 0; k < c.Pick(2, 12); k++ {
		id := fmt.Sprintf("servepub%d", k)
		if c.Case(id) {
			c15ServeWhilePublishing(c, id, c.Rng(id))
		}
	}
	for k := 0; k < c.Pick(4, 40); k++ {
		id := fmt.Sprintf("several%d", k)
		if c.Case(id) {
			c15Several(c, id, c.Rng(id))
		}
	}
	for k := 0; k < c.Pick(40, 600); k++ {
		id := fmt.Sprintf("t%d", k)
		if c.Case(id) {
			c15Transfer(c, id, c.Rng(id))
		}
	}
	for k := 0; k < c.Pick(10, 150); k++ {
		id := fmt.Sprintf("s%d", k)
		if c.Case(id) {
			c15Stores(c, id, c.Rng(id))
		}
	}
}

func init() {
	h.Register(&h.Prop{
		ID: "C15", Level: "exploration",
		Rule: "producer and consumer object.Client, each on a real basic.Engine over a harness face and a shared virtual clock; the harness relays every packet on its own goroutine choosing per packet deliver / reorder / drop from the PRNG (<=3 drops per Interest name, or every attempt of one segment Interest in the beyond-budget profile) and advances the clock only at exact quiescence " +
			"(relay queue empty, both Client.run goroutines parked in select); contents of 1..200000 bytes around multiples of 8000 split into 1-7 input buffers, object names with and without spare slice capacity, 1-4 versions published in random order, newest version optionally removed, memory and bolt stores; oracle: completion reported exactly once; within the retry budget without error and with the concatenation of Content() chunks equal to the newest version's bytes; " +
			"beyond it an error completion is accepted; plus 2-4 objects of very different lengths fetched at the same time through one consumer client (each must complete once with its own bytes); plus the on-disk store read from two goroutines while further objects are published (every read returns the stored packet, every published segment is retrievable afterwards); plus a MemoryStore/BoltStore differential over Produce/Remove histories (exact names and newest metadata); distinct = (store, profile, #segments, #versions, removal, tail length)",
		Assumptions: []string{"version 0 (immutable) is not used: neither store returns it from a prefix query", "prefix queries whose answer is not unique (several packets of the same version) are not compared between the stores"},
		Batches:     func(t bool) int { return 16 },
		ChildTimeoutS: func(t bool) int {
			if t {
				return 3400
			}
			return 900
		},
		Run:         c15Run,
		MinDistinct: 20,
		Floors:      map[string]int64{"transfers": 60, "store_queries": 500},
	})
}
