package props

import (
	"fmt"
	"math/rand"
	"sort"
	"strings"

	"github.com/named-data/ndnd/fw/table"
	enc "github.com/named-data/ndnd/std/encoding"

	"verif/internal/fwenv"
	"verif/internal/gen"
	"verif/internal/h"
)

// ---- C05: FIB lookup is longest-prefix match under every history, both FIBs
// ---- (the same histories feed the FIB part of C08's structural monitor)

type refFibEntry struct {
	name  enc.Name
	hops  map[uint64]uint64
	strat enc.Name
}

type refFib struct {
	m map[string]*refFibEntry
}

func nkey(n enc.Name) string {
	var sb strings.Builder
	for _, c := range n {
		fmt.Fprintf(&sb, "/%d=%x", uint64(c.Typ), c.Val)
	}
	if len(n) == 0 {
		return "/"
	}
	return sb.String()
}

func newRefFib() *refFib {
	r := &refFib{m: map[string]*refFibEntry{}}
	def, _ := enc.NameFromStr("/localhost/nfd/strategy/best-route/v=1")
	r.m["/"] = &refFibEntry{name: enc.Name{}, hops: map[uint64]uint64{}, strat: def}
	return r
}

func (r *refFib) get(n enc.Name, create bool) *refFibEntry {
	k := nkey(n)
	e := r.m[k]
	if e == nil && create {
		e = &refFibEntry{name: n.Clone(), hops: map[uint64]uint64{}}
		r.m[k] = e
	}
	return e
}

func (r *refFib) gc(n enc.Name) {
	if e := r.m[nkey(n)]; e != nil && len(e.hops) == 0 && e.strat == nil {
		delete(r.m, nkey(n))
	}
}

// lpmHops returns the hops of the longest prefix of n that has next hops.
func (r *refFib) lpmHops(n enc.Name) map[uint64]uint64 {
	for l := len(n); l >= 0; l-- {
		if e := r.m[nkey(n[:l])]; e != nil && len(e.hops) > 0 {
			return e.hops
		}
	}
	return nil
}

func (r *refFib) lpmStrategy(n enc.Name) enc.Name {
	for l := len(n); l >= 0; l-- {
		if e := r.m[nkey(n[:l])]; e != nil && e.strat != nil {
			return e.strat
		}
	}
	return nil
}

func hopsStr(m map[uint64]uint64) string {
	var ks []int
	for k := range m {
		ks = append(ks, int(k))
	}
	sort.Ints(ks)
	var sb strings.Builder
	for _, k := range ks {
		fmt.Fprintf(&sb, "(%d,%d)", k, m[uint64(k)])
	}
	return sb.String()
}

// copyHops deep-copies a lookup result at once; dup reports a duplicated face.
func copyHops(nh []*table.FibNextHopEntry) (m map[uint64]uint64, dup bool) {
	m = map[uint64]uint64{}
	for _, x := range nh {
		if x == nil {
			dup = true
			continue
		}
		if _, ok := m[x.Nexthop]; ok {
			dup = true
		}
		m[x.Nexthop] = x.Cost
	}
	return
}

func sameHops(a, b map[uint64]uint64) bool {
	if len(a) != len(b) {
		return false
	}
	for k, v := range a {
		if w, ok := b[k]; !ok || w != v {
			return false
		}
	}
	return true
}

type fibImpl struct {
	kind string
	m    int
	t    table.FibStrategy
}

func makeFibs(m int) []*fibImpl {
	cfg := fwenv.Config()
	cfg.Tables.Fib.Hashtable.M = uint16(m)
	fwenv.Load(cfg)
	table.Configure()
	table.CreateFIBTable("nametree")
	tree := table.FibStrategyTable
	table.CreateFIBTable("hashtable")
	ht := table.FibStrategyTable
	return []*fibImpl{{"nametree", 0, tree}, {"hashtable", m, ht}}
}

var c05Strategies = []string{"/localhost/nfd/strategy/best-route/v=1", "/localhost/nfd/strategy/multicast/v=1", "/localhost/nfd/strategy/other/v=7"}

type fibOp struct {
	Op    string
	Name  string
	Face  uint64
	Cost  uint64
	Strat string
}

func c05Relation(ref *refFib, n enc.Name, m int) string {
	hasDesc, hasAnc, exists := false, false, ref.m[nkey(n)] != nil
	for _, e := range ref.m {
		if len(e.name) > len(n) && n.IsPrefix(e.name) {
			hasDesc = true
		}
		if len(e.name) < len(n) && len(e.name) > 0 && e.name.IsPrefix(n) {
			hasAnc = true
		}
	}
	rel := "len<m"
	if len(n) == m {
		rel = "len=m"
	} else if len(n) > m {
		rel = "len>m"
	}
	return fmt.Sprintf("exists=%v,desc=%v,anc=%v,%s", exists, hasDesc, hasAnc, rel)
}

// runFibHistory runs one operation history against both FIB implementations.
// prop selects which monitor decides: "C05" (lookups/listings) or "C08" (structure).
func runFibHistory(c *h.Ctx, id string, r *rand.Rand, prop string) {
	c.Eval(1)
	m := 1 + r.Intn(6)
	fibs := makeFibs(m)
	ref := newRefFib()
	u := gen.NewUniverse(6, true)
	probes := u.All(3)
	nOps := 25 + r.Intn(30)
	var hist []fibOp
	fail := func(key, what string, extra map[string]any) {
		d := map[string]any{"m": m, "history": hist}
		for k, v := range extra {
			d[k] = v
		}
		c.Violation(key, id, what, d)
	}
	wideFaces := r.Intn(5) == 0
	for step := 0; step < nOps; step++ {
		name := u.Pick(r)
		// prefer names related to existing entries
		if len(ref.m) > 1 && r.Intn(3) == 0 {
			name = ref.m[sortedKeys(ref.m)[r.Intn(len(ref.m))]].name.Clone()
			switch r.Intn(3) {
			case 0:
				name = u.Extend(r, name, 2)
			case 1:
				if len(name) > 0 {
					name = name[:r.Intn(len(name)+1)]
				}
			}
		}
		face := uint64(1 + r.Intn(4))
		if wideFaces {
			// face ids are 64-bit numbers handed out for the life of the process: ids far apart, equal
			// modulo 64 / 256 / 1024 / 2^32, must stay different faces
			face = []uint64{7, 71, 135, 263, 1031, 7 + 1<<32, 3, 3 + 1<<16}[r.Intn(8)]
		}
		cost := uint64([]int{0, 1, 5, 10, 10}[r.Intn(5)])
		op := fibOp{Name: name.String()}
		rel := c05Relation(ref, name, m)
		last := step >= nOps-1
		switch k := r.Intn(12); {
		case k < 5:
			op.Op, op.Face, op.Cost = "insert", face, cost
			for _, f := range fibs {
				f.t.InsertNextHopEnc(name.Clone(), face, cost)
			}
			ref.get(name, true).hops[face] = cost
		case k < 7:
			op.Op, op.Face = "remove", face
			for _, f := range fibs {
				f.t.RemoveNextHopEnc(name.Clone(), face)
			}
			if e := ref.get(name, false); e != nil {
				delete(e.hops, face)
				ref.gc(name)
			}
		case k < 8:
			op.Op = "clear"
			for _, f := range fibs {
				f.t.ClearNextHopsEnc(name.Clone())
			}
			if e := ref.get(name, false); e != nil {
				e.hops = map[uint64]uint64{}
				ref.gc(name)
			}
		case k < 10:
			s := c05Strategies[r.Intn(len(c05Strategies))]
			op.Op, op.Strat = "set-strategy", s
			sn, _ := enc.NameFromStr(s)
			for _, f := range fibs {
				f.t.SetStrategyEnc(name.Clone(), sn.Clone())
			}
			ref.get(name, true).strat = sn
		default:
			if len(name) == 0 {
				continue // the root strategy can be replaced but not unset (enforced by management, see C17)
			}
			op.Op = "unset-strategy"
			for _, f := range fibs {
				f.t.UnSetStrategyEnc(name.Clone())
			}
			if e := ref.get(name, false); e != nil {
				e.strat = nil
				ref.gc(name)
			}
		}
		hist = append(hist, op)
		c.Distinct(fmt.Sprintf("%s|%s|m=%d", op.Op, rel, m))
		if prop == "C05" {
			c05Check(c, fibs, ref, probes, u, r, name, fail)
		} else {
			c08FibStruct(c, fibs, ref, m, fail)
		}
		if c.NViolations() > 30 {
			return
		}
		_ = last
	}
	if prop == "C08" {
		// tear everything down: the tables must return to the empty baseline
		for _, k := range sortedKeys(ref.m) {
			e := ref.m[k]
			for _, f := range fibs {
				for face := range e.hops {
					f.t.RemoveNextHopEnc(e.name.Clone(), face)
				}
				if len(e.name) > 0 {
					f.t.UnSetStrategyEnc(e.name.Clone())
				}
			}
			hist = append(hist, fibOp{Op: "teardown", Name: e.name.String()})
		}
		ref = newRefFib()
		c08FibStruct(c, fibs, ref, m, fail)
		c.Count("fib_teardowns", 1)
	}
	c.Sample(map[string]any{"m": m, "ops": len(hist), "first_ops": hist[:min(6, len(hist))]})
}

func c05Check(c *h.Ctx, fibs []*fibImpl, ref *refFib, probes []enc.Name, u *gen.Universe, r *rand.Rand, touched enc.Name,
	fail func(key, what string, extra map[string]any)) {
	names := append([]enc.Name{}, probes...)
	names = append(names, touched, u.Extend(r, touched, 3))
	for i := 0; i < 6; i++ {
		names = append(names, u.Pick(r))
	}
	for _, k := range sortedKeys(ref.m) {
		e := ref.m[k]
		names = append(names, e.name, u.Extend(r, e.name, 2))
	}
	for _, f := range fibs {
		for _, n := range names {
			var got map[uint64]uint64
			var dup bool
			var strat enc.Name
			if pi := h.Guard(func() {
				got, dup = copyHops(f.t.FindNextHopsEnc(n.Clone()))
				strat = f.t.FindStrategyEnc(n.Clone()).Clone()
			}); pi != nil {
				fail("C05:panic:lookup:"+f.kind+":"+pi.Frame+":"+pi.Class, "lookup panicked: "+pi.Value, map[string]any{"lookup": n.String()})
				return
			}
			c.Count("lookups", 1)
			want := ref.lpmHops(n)
			if dup {
				fail("C05:duplicate-face:"+f.kind, "next-hop lookup returned a face twice", map[string]any{"lookup": n.String(), "impl": f.kind})
			}
			if !sameHops(got, want) {
				fail("C05:nexthops-not-lpm:"+f.kind, fmt.Sprintf("FindNextHops(%s) = %s, longest-prefix match of the reference is %s", n, hopsStr(got), hopsStr(want)),
					map[string]any{"lookup": n.String(), "impl": f.kind, "got": hopsStr(got), "want": hopsStr(want)})
			}
			ws := ref.lpmStrategy(n)
			if refNameCompare(strat, ws) != 0 || (strat == nil) != (ws == nil) {
				fail("C05:strategy-not-lpm:"+f.kind, fmt.Sprintf("FindStrategy(%s) = %v, reference says %v", n, strat, ws),
					map[string]any{"lookup": n.String(), "impl": f.kind})
			}
		}
		// listings
		gotFib := map[string]string{}
		var listDup bool
		if pi := h.Guard(func() {
			for _, e := range f.t.GetAllFIBEntries() {
				hm, d := copyHops(e.GetNextHops())
				k := nkey(e.Name())
				if _, ok := gotFib[k]; ok || d {
					listDup = true
				}
				gotFib[k] = hopsStr(hm)
			}
		}); pi != nil {
			fail("C05:panic:listing:"+f.kind+":"+pi.Frame+":"+pi.Class, "GetAllFIBEntries panicked: "+pi.Value, nil)
			return
		}
		wantFib := map[string]string{}
		for k, e := range ref.m {
			if len(e.hops) > 0 {
				wantFib[k] = hopsStr(e.hops)
			}
		}
		if listDup || !sameStrMap(gotFib, wantFib) {
			fail("C05:fib-listing-differs:"+f.kind, "GetAllFIBEntries does not list exactly the prefixes holding next hops", map[string]any{"impl": f.kind, "got": gotFib, "want": wantFib})
		}
		gotSt := map[string]string{}
		for _, e := range f.t.GetAllForwardingStrategies() {
			gotSt[nkey(e.Name())] = e.GetStrategy().String()
		}
		wantSt := map[string]string{}
		for k, e := range ref.m {
			if e.strat != nil {
				wantSt[k] = e.strat.String()
			}
		}
		if !sameStrMap(gotSt, wantSt) {
			fail("C05:strategy-listing-differs:"+f.kind, "GetAllForwardingStrategies does not list exactly the prefixes holding a strategy", map[string]any{"impl": f.kind, "got": gotSt, "want": wantSt})
		}
	}
}

func sortedKeys[V any](m map[string]V) []string {
	ks := make([]string, 0, len(m))
	for k := range m {
		ks = append(ks, k)
	}
	sort.Strings(ks)
	return ks
}

func sameStrMap(a, b map[string]string) bool {
	if len(a) != len(b) {
		return false
	}
	for k, v := range a {
		if b[k] != v {
			return false
		}
	}
	return true
}

func c05Run(c *h.Ctx) {
	n := c.Pick(160, 2000)
	for k := 0; k < n; k++ {
		id := fmt.Sprintf("h%d", k)
		if !c.Case(id) {
			continue
		}
		runFibHistory(c, id, c.Rng(id), "C05")
	}
}

func init() {
	h.Register(&h.Prop{
		ID:    "C05",
		Level: "exploration",
		Rule: "operation histories (25-55 ops: insert/cost update, remove, clear, set-strategy, unset-strategy on non-root) over a prefix-closed universe (depth 0..6 over {a,b} plus multi-byte, typed and empty components) run against the name-tree FIB and the hash-table FIB (m in 1..6) side by side and against a reference map; " +
			"after every op every probe name (all names of depth <=3, the touched prefix, extensions of every entry, random others) is looked up on both implementations: next hops as a (face,cost) set and strategy must equal the reference longest-prefix match; the FIB and strategy listings must equal the reference entries exactly; distinct = (op, relation of the touched prefix to existing entries and to m, m)",
		Assumptions: []string{"lookup results are deep-copied by the harness before the next operation", "the root strategy is never unset at table level (the layer that forbids it is management: C17)"},
		Batches:     func(t bool) int { return 16 },
		ChildTimeoutS: func(t bool) int {
			if t {
				return 2400
			}
			return 400
		},
		Run:         c05Run,
		MinDistinct: 60,
		Floors:      map[string]int64{"lookups": 10000},
	})
}
