package props

import (
	"bytes"
	"fmt"
	"math/rand"
	"sort"
	"time"

	"github.com/named-data/ndnd/fw/table"
	enc "github.com/named-data/ndnd/std/encoding"
	"github.com/named-data/ndnd/std/ndn"
	spec "github.com/named-data/ndnd/std/ndn/spec_2022"

	"verif/internal/fwenv"
	"verif/internal/gen"
	"verif/internal/h"
)

// ---- C07: the Content Store answers only with matching, fresh-enough Data, within capacity, LRU

type csModelEntry struct {
	name   enc.Name
	wire   []byte
	t0, t1 time.Time // InsertData was called within [t0,t1]
	fresh  *time.Duration
	lo, hi int // logical time of the last LRU touch lies in [lo,hi]
}

const c07Guard = 15 * time.Millisecond

// freshness verdict: +1 surely fresh, -1 surely stale, 0 inside the guard band
func (e *csModelEntry) freshAt(u0, u1 time.Time) int {
	f := time.Duration(0)
	if e.fresh != nil {
		f = *e.fresh
	}
	if f == 0 {
		return -1 // FreshnessPeriod absent or 0: never fresh
	}
	if u1.Add(c07Guard).Before(e.t0.Add(f)) {
		return 1
	}
	if u0.After(e.t1.Add(f).Add(c07Guard)) {
		return -1
	}
	return 0
}

// makeData builds a Data packet and its decoded form through the repository API.
func makeData(name enc.Name, fresh *time.Duration, content []byte) (*spec.Data, []byte, error) {
	sp := spec.Spec{}
	ed, err := sp.MakeData(name.Clone(), &ndn.DataConfig{Freshness: fresh}, enc.Wire{content}, nil)
	if err != nil {
		return nil, nil, err
	}
	wire := append([]byte{}, ed.Wire.Join()...)
	p, _, err := spec.ReadPacket(enc.NewBufferReader(append([]byte{}, wire...)))
	if err != nil || p.Data == nil {
		return nil, nil, fmt.Errorf("built Data does not parse: %v", err)
	}
	return p.Data, wire, nil
}

type csOp struct {
	Op    string
	Name  string
	CBP   bool   `json:",omitempty"`
	MBF   bool   `json:",omitempty"`
	Fresh int64  `json:",omitempty"` // ms, -1 absent
	Cap   int    `json:",omitempty"`
	Hit   string `json:",omitempty"`
}

func drainPitTimer(t table.PitCsTable) {
	go func() { <-t.UpdateTimer() }()
}

func c07History(c *h.Ctx, id string, r *rand.Rand) {
	c.Eval(1)
	capacity := r.Intn(9)
	if r.Intn(4) == 0 {
		capacity = r.Intn(3)
	}
	cfg := fwenv.Config()
	cfg.Tables.ContentStore.Capacity = uint16(capacity)
	fwenv.Load(cfg)
	table.Configure()
	c07WantCap = capacity
	if got := table.CsCapacity(); got != capacity {
		c.Violation("C07:configured-capacity-not-in-effect", id, fmt.Sprintf("the forwarder was configured with content-store capacity %d, the capacity in effect after start-up is %d", capacity, got), map[string]any{"configured": capacity, "in_effect": got})
		return
	}
	cs := table.NewPitCS(func(table.PitEntry) {})
	drainPitTimer(cs)
	u := gen.NewUniverse(4, false)
	model := map[string]*csModelEntry{}
	clock := 0
	var hist []csOp
	fail := func(key, what string, extra map[string]any) {
		d := map[string]any{"initial_capacity": cfg.Tables.ContentStore.Capacity, "history": hist}
		for k, v := range extra {
			d[k] = v
		}
		c.Violation(key, id, what, d)
	}
	modelNames := func() []string {
		var ks []string
		for k := range model {
			ks = append(ks, k)
		}
		sort.Strings(ks)
		return ks
	}
	checkSet := func(after string) bool {
		info := table.VerifPitCsStats(cs)
		var got []string
		for _, n := range info.CachedNames {
			got = append(got, nkey(n))
		}
		sort.Strings(got)
		want := modelNames()
		if cs.CsSize() != len(got) || info.CsEntries != len(got) {
			fail("C07:cs-size-wrong", fmt.Sprintf("after %s: CsSize()=%d but %d packets are cached", after, cs.CsSize(), len(got)), nil)
			return false
		}
		if len(got) > capacityNow() && after == "insert-new" {
			fail("C07:over-capacity", fmt.Sprintf("after inserting a new name %d packets are cached, capacity is %d", len(got), capacityNow()), nil)
			return false
		}
		if fmt.Sprint(got) != fmt.Sprint(want) {
			fail("C07:cached-set-differs", fmt.Sprintf("after %s: cached names %v, model says %v", after, got, want), nil)
			return false
		}
		return true
	}
	nOps := 40 + r.Intn(40)
	version := 0
	// half of the histories share the name tree with pending Interests (the PIT lives in the same
	// tree): inserting and removing them must be invisible to the cache
	withPit := r.Intn(2) == 0
	var pend []table.PitEntry
	ticks := r.Intn(2) == 0
	type heldHit struct {
		name       string
		live, snap []byte
		step       int
	}
	var held []heldHit
	for step := 0; step < nOps; step++ {
		clock++
		for _, hh := range held {
			if !bytes.Equal(hh.live, hh.snap) {
				fail("C07:returned-bytes-change-later", fmt.Sprintf("the bytes a lookup returned for %s at operation %d have changed by operation %d (an answer waiting in a face queue would go out corrupted)", hh.name, hh.step, len(hist)), nil)
				return
			}
		}
		if ticks && !withPit && r.Intn(5) == 0 {
			// the table's periodic maintenance call (the forwarding thread makes it every 100 ms or so);
			// it must not change what the cache holds or answers
			hist = append(hist, csOp{Op: "maintenance-tick"})
			if pi := h.Guard(func() { cs.Update() }); pi != nil {
				fail("C07:panic:update:"+pi.Frame+":"+pi.Class, "Update panicked: "+pi.Value, nil)
				return
			}
			c.Count("maintenance_ticks", 1)
		}
		name := u.Pick(r)
		if len(name) == 0 {
			name = u.PickDepth(r, 1)
		}
		if withPit && r.Intn(5) == 0 {
			if len(pend) > 0 && r.Intn(2) == 0 {
				i := r.Intn(len(pend))
				hist = append(hist, csOp{Op: "pit-remove", Name: pend[i].EncName().String()})
				e := pend[i]
				pend = append(pend[:i], pend[i+1:]...)
				if pi := h.Guard(func() { cs.RemoveInterest(e) }); pi != nil {
					fail("C07:panic:pit-remove:"+pi.Frame+":"+pi.Class, "RemoveInterest panicked: "+pi.Value, nil)
					return
				}
			} else {
				if ks := modelNames(); len(ks) > 0 && r.Intn(2) == 0 {
					name = model[ks[r.Intn(len(ks))]].name.Clone() // an Interest for a cached name (e.g. MustBeFresh on stale Data)
				}
				in := &spec.Interest{NameV: name.Clone(), CanBePrefixV: r.Intn(3) == 0, MustBeFreshV: r.Intn(3) == 0}
				hist = append(hist, csOp{Op: "pit-insert", Name: name.String(), CBP: in.CanBePrefixV, MBF: in.MustBeFreshV})
				var e table.PitEntry
				if pi := h.Guard(func() { e, _ = cs.InsertInterest(in, nil, uint64(1+r.Intn(3))) }); pi != nil {
					fail("C07:panic:pit-insert:"+pi.Frame+":"+pi.Class, "InsertInterest panicked: "+pi.Value, nil)
					return
				}
				dup := false
				for _, o := range pend {
					if o == e {
						dup = true
					}
				}
				if e != nil && !dup {
					pend = append(pend, e)
				}
			}
			c.Count("pit_operations", 1)
			if !checkSet("a PIT operation") {
				return
			}
			continue
		}
		switch k := r.Intn(20); {
		case k < 9: // insert / refresh
			var fresh *time.Duration
			fms := int64(-1)
			switch r.Intn(5) {
			case 0:
			case 1:
				d := time.Duration(0)
				fresh, fms = &d, 0
			case 2:
				d := 60 * time.Millisecond
				fresh, fms = &d, 60
			default:
				d := time.Hour
				fresh, fms = &d, 3600000
			}
			version++
			content := []byte(fmt.Sprintf("v%d-%s", version, name))
			data, wire, err := makeData(name, fresh, content)
			if err != nil {
				c.Inconclusive("cannot build Data: " + err.Error())
				return
			}
			key := nkey(name)
			_, existed := model[key]
			if existed && r.Intn(2) == 0 {
				// the very same packet arrives again (byte-identical): still a refresh
				old := model[key]
				if pk, _, perr := spec.ReadPacket(enc.NewBufferReader(append([]byte{}, old.wire...))); perr == nil && pk.Data != nil {
					data, wire, fresh = pk.Data, old.wire, old.fresh
					fms = -2
					c.Count("identical_reinserts", 1)
				}
			}
			hist = append(hist, csOp{Op: "insert", Name: name.String(), Fresh: fms})
			t0 := time.Now()
			wireArg := append([]byte{}, wire...)
			if pi := h.Guard(func() { cs.InsertData(data, wireArg) }); pi != nil {
				fail("C07:panic:insert:"+pi.Frame+":"+pi.Class, "InsertData panicked: "+pi.Value, nil)
				return
			}
			t1 := time.Now()
			// the caller may reuse its buffer afterwards
			for i := range wireArg {
				wireArg[i] = 0xEE
			}
			if existed {
				e := model[key]
				e.wire, e.t0, e.t1, e.fresh, e.lo, e.hi = wire, t0, t1, fresh, clock, clock
				c.Distinct("refresh")
				if !checkSet("refresh") {
					return
				}
				continue
			}
			model[key] = &csModelEntry{name: name.Clone(), wire: wire, t0: t0, t1: t1, fresh: fresh, lo: clock, hi: clock}
			// observed evictions
			info := table.VerifPitCsStats(cs)
			cached := map[string]bool{}
			for _, n := range info.CachedNames {
				cached[nkey(n)] = true
			}
			var evicted []string
			for k := range model {
				if !cached[k] {
					evicted = append(evicted, k)
				}
			}
			wantEvict := len(model) - capacityNow()
			if wantEvict < 0 {
				wantEvict = 0
			}
			if len(evicted) != wantEvict {
				fail("C07:eviction-count", fmt.Sprintf("inserting a new name with %d cached and capacity %d evicted %d packets (expected %d)", len(model)-1, capacityNow(), len(evicted), wantEvict),
					map[string]any{"evicted": evicted})
				return
			}
			// each victim must be a possible least-recently-used entry
			sort.Slice(evicted, func(i, j int) bool { return model[evicted[i]].lo < model[evicted[j]].lo })
			for _, v := range evicted {
				ve := model[v]
				for k2, o := range model {
					if k2 != v && o.hi < ve.lo {
						fail("C07:eviction-not-lru", fmt.Sprintf("evicted %s (last used at logical time >= %d) although %s was last used at <= %d", v, ve.lo, k2, o.hi),
							map[string]any{"victim": v, "older": k2})
						return
					}
				}
				delete(model, v)
			}
			c.Distinct(fmt.Sprintf("insert-new|evict=%d|cap=%d", min(len(evicted), 3), min(capacityNow(), 4)))
			c.Count("evictions", int64(len(evicted)))
			if !checkSet("insert-new") {
				return
			}
		case k < 17: // lookup
			cbp, mbf := r.Intn(3) == 0, r.Intn(3) == 0
			// bias towards cached names and their prefixes
			if ks := modelNames(); len(ks) > 0 && r.Intn(3) != 0 {
				name = model[ks[r.Intn(len(ks))]].name.Clone()
				if cbp && len(name) > 1 && r.Intn(2) == 0 {
					name = name[:1+r.Intn(len(name)-1)]
				}
			}
			op := csOp{Op: "lookup", Name: name.String(), CBP: cbp, MBF: mbf}
			in := &spec.Interest{NameV: name.Clone(), CanBePrefixV: cbp, MustBeFreshV: mbf}
			u0 := time.Now()
			var got table.CsEntry
			var gname enc.Name
			var gwire []byte
			if pi := h.Guard(func() {
				got = cs.FindMatchingDataFromCS(in)
				if got != nil {
					d, w, err := got.Copy()
					if err == nil && d != nil {
						gname, gwire = d.NameV.Clone(), append([]byte{}, w...)
						// the forwarder keeps the returned bytes (they become the outgoing packet, which
						// waits in a face queue): remember the slice itself next to a private copy
						held = append(held, heldHit{name: gname.String(), live: w, snap: gwire, step: len(hist)})
						if len(held) > 6 {
							held = held[1:]
						}
					}
				}
			}); pi != nil {
				hist = append(hist, op)
				fail("C07:panic:lookup:"+pi.Frame+":"+pi.Class, "FindMatchingDataFromCS panicked: "+pi.Value, nil)
				return
			}
			u1 := time.Now()
			c.Count("lookups", 1)
			if got != nil {
				op.Hit = gname.String()
			}
			hist = append(hist, op)
			exact := model[nkey(name)]
			if got != nil {
				if gname == nil {
					fail("C07:entry-does-not-decode", "returned CS entry cannot be copied/decoded", nil)
					return
				}
				okName := refNameCompare(gname, name) == 0 || (cbp && refIsPrefix(name, gname))
				if !okName {
					fail(fmt.Sprintf("C07:name-mismatch:cbp=%v", cbp), fmt.Sprintf("lookup %s (CanBePrefix=%v) returned Data %s", name, cbp, gname), nil)
					return
				}
				me := model[nkey(gname)]
				if me == nil {
					fail("C07:returned-evicted-or-unknown", fmt.Sprintf("lookup returned %s, which the model says is not cached", gname), nil)
					return
				}
				if !bytes.Equal(gwire, me.wire) {
					fail("C07:bytes-differ", fmt.Sprintf("bytes returned for %s differ from the most recently inserted packet", gname), nil)
					return
				}
				if mbf && me.freshAt(u0, u1) < 0 {
					fail("C07:stale-served", fmt.Sprintf("MustBeFresh lookup returned %s although its freshness period has elapsed", gname), nil)
					return
				}
				if !cbp {
					me.lo, me.hi = clock, clock // exact-name hit: LRU touch
				} else {
					me.hi = clock // a prefix lookup may or may not count as use
				}
				c.Distinct(fmt.Sprintf("hit|cbp=%v|mbf=%v|exact=%v", cbp, mbf, refNameCompare(gname, name) == 0))
			} else {
				if !cbp && exact != nil && (!mbf || exact.freshAt(u0, u1) > 0) {
					fail(fmt.Sprintf("C07:cached-not-found:mbf=%v", mbf), fmt.Sprintf("exact-name lookup %s (MustBeFresh=%v) found nothing although the packet is cached, unevicted and fresh", name, mbf), nil)
					return
				}
				c.Distinct(fmt.Sprintf("miss|cbp=%v|mbf=%v|cached=%v", cbp, mbf, exact != nil))
			}
		case k < 19: // capacity change (as management does)
			nc := r.Intn(8)
			hist = append(hist, csOp{Op: "set-capacity", Cap: nc})
			table.SetCsCapacity(nc)
			c07WantCap = nc
			if got := table.CsCapacity(); got != nc {
				fail("C07:configured-capacity-not-in-effect", fmt.Sprintf("SetCsCapacity(%d) left capacity %d in effect", nc, got), nil)
				return
			}
			c.Distinct("set-capacity")
		default:
			d := []time.Duration{5 * time.Millisecond, 100 * time.Millisecond}[r.Intn(2)]
			hist = append(hist, csOp{Op: "sleep", Cap: int(d / time.Millisecond)})
			time.Sleep(d)
		}
	}
	c.Sample(map[string]any{"capacity": capacity, "ops": len(hist), "first_ops": hist[:min(6, len(hist))]})
}

// c07WantCap is the capacity the history configured last (start-up configuration or SetCsCapacity):
// the model's own notion, not what the implementation reports.
var c07WantCap int

func capacityNow() int { return c07WantCap }

func c07Run(c *h.Ctx) {
	n := c.Pick(40, 1500)
	for k := 0; k < n; k++ {
		id := fmt.Sprintf("h%d", k)
		if !c.Case(id) {
			continue
		}
		c07History(c, id, c.Rng(id))
	}
	c07Mgmt(c) // last: it leaves a running daemon behind in this child process
}

func init() {
	h.Register(&h.Prop{
		ID:    "C07",
		Level: "exploration",
		Rule: "histories of 40-80 operations on a real PIT-CS table (insert / refresh with freshness absent/0/60 ms/1 h, exact and prefix lookups with both flags, capacity changes through SetCsCapacity, short sleeps) over names sharing prefixes (depth 1..4 over {a,b}), initial capacity 0..8; " +
			"a reference model (name -> last wire, insertion interval, freshness, LRU-touch interval) decides every lookup (name relation, bytes, freshness outside a 15 ms guard band, must-find for cached exact names) and every insertion (size <= capacity, CsSize == walked entries, eviction count, victim is a possible LRU victim, cached-name set equality via the structural hook); distinct = (op, flags, hit/miss kind, eviction count, capacity class); mgmt: per batch one running mini daemon (2 forwarding threads, management thread, Content Store on) where a local application lowers the capacity with cs/config commands (to 0, 1, 2, k-1, k/2), Data is cached through the real pipeline, and per forwarding thread both the cached-packet count and the number of names a second application gets without the upstream seeing an Interest must be <= the configured capacity",
		Assumptions: []string{"time-dependent expectations use the measured call interval and a 15 ms guard band; inside the band either outcome is accepted", "whether a CanBePrefix lookup counts as a use for LRU is left open (interval model)", "hooks: fw/table/verif_hooks.go (cached-name set)"},
		Batches:     func(t bool) int { return 16 },
		ChildTimeoutS: func(t bool) int {
			if t {
				return 3000
			}
			return 500
		},
		Run:         c07Run,
		MinDistinct: 25,
		Floors:      map[string]int64{"lookups": 2000, "evictions": 200},
	})
}
