package props

import (
	"bytes"
	"fmt"
	"math/rand"
	"time"

	"github.com/named-data/ndnd/fw/defn"
	"github.com/named-data/ndnd/fw/dispatch"
	"github.com/named-data/ndnd/fw/face"
	fwfw "github.com/named-data/ndnd/fw/fw"
	enc "github.com/named-data/ndnd/std/encoding"
	spec "github.com/named-data/ndnd/std/ndn/spec_2022"

	"verif/internal/fwenv"
	"verif/internal/h"
	"verif/internal/tlvwalk"
)

// ---- C10: link-layer fragmentation and reassembly reproduce every packet exactly

// c10Packet builds a valid Data (or Interest) packet of exactly total bytes.
func c10Packet(r *rand.Rand, total int, interest bool) []byte {
	// name: /f/<tag>
	tag := make([]byte, 2)
	r.Read(tag)
	name := tlvwalk.TLV(7, append(tlvwalk.TLV(8, []byte("f")), tlvwalk.TLV(8, tag)...))
	for pad := total; pad >= 0; pad-- {
		var body []byte
		if interest {
			// Interest: Name, Nonce, then an unrecognised non-critical element as padding
			body = append(append([]byte{}, name...), tlvwalk.TLV(0x0a, []byte{tag[0], tag[1], 1, 2})...)
			if pad > 0 {
				v := make([]byte, pad)
				r.Read(v)
				body = append(body, tlvwalk.TLV(0xF0, v)...)
			}
			body = tlvwalk.TLV(5, body)
		} else {
			v := make([]byte, pad)
			r.Read(v)
			body = tlvwalk.TLV(6, append(append([]byte{}, name...), tlvwalk.TLV(0x15, v)...))
		}
		if len(body) == total {
			return body
		}
		if len(body) < total && pad == total {
			return nil
		}
	}
	return nil
}

func c10MinSize() int { return len(c10Packet(rand.New(rand.NewSource(1)), 14, false)) }

type c10Msg struct {
	wire  []byte
	token []byte
	cmark *uint64
	kind  string
}

type c10Cfg struct {
	mtu       int
	frag      bool
	inFaceInd bool
}

// worst-case header bytes for the enabled options, from the NDNLPv2 field sizes
func c10W(cfg c10Cfg, m *c10Msg, fragLen int) int {
	w := 1 + 3 // LpPacket TL
	if cfg.frag {
		w += 1 + 1 + 8       // Sequence
		w += 2 * (1 + 1 + 2) // FragIndex, FragCount
	}
	if cfg.inFaceInd {
		w += 3 + 1 + 8
	}
	if len(m.token) > 0 {
		w += 1 + 1 + len(m.token)
	}
	if m.cmark != nil {
		w += 3 + 1 + 8
	}
	w += 1 + 3 // Fragment TL
	return w
}

// c10Internal: the internal transport (the face management listens on) queues the frames the link
// service emits until its reader takes them. Several packets sent back to back, read only
// afterwards, must come out as exactly those packets, in order, each with its own PIT token.
func c10Internal(c *h.Ctx, id string, r *rand.Rand) {
	c.Eval(1)
	var link face.LinkService
	var tr *face.InternalTransport
	if pi := h.Guard(func() { link, tr = face.RegisterInternalTransport() }); pi != nil || link == nil {
		c.Inconclusive("cannot register an internal transport")
		return
	}
	ls, ok := link.(*face.NDNLPLinkService)
	if !ok {
		c.Inconclusive("internal face is not an NDNLP link service")
		return
	}
	k := 2 + r.Intn(4)
	type sent struct {
		wire, tok []byte
	}
	var all []sent
	inFace := uint64(77)
	for i := 0; i < k; i++ {
		content := make([]byte, 10+r.Intn(3000))
		r.Read(content)
		nm, _ := enc.NameFromStr(fmt.Sprintf("/internal/%d", i))
		_, wire, err := makeData(nm, nil, content)
		if err != nil {
			c.Inconclusive("cannot build Data")
			return
		}
		l3, _, err := spec.ReadPacket(enc.NewBufferReader(append([]byte{}, wire...)))
		if err != nil {
			c.Inconclusive("harness packet does not parse")
			return
		}
		tok := []byte{byte(i), 0xAA, byte(r.Intn(256))}
		p := &defn.Pkt{Raw: append([]byte{}, wire...), L3: l3, IncomingFaceID: &inFace}
		out := dispatch.OutPkt{Pkt: p, PitToken: tok, InFace: &inFace}
		if pi := h.Guard(func() { face.VerifSend(ls, out) }); pi != nil {
			c.Violation("C10:panic:send:"+pi.Frame+":"+pi.Class, id, "sendPacket panicked on the internal face: "+pi.Value, nil)
			return
		}
		all = append(all, sent{wire, tok})
	}
	type rec struct {
		wire, tok []byte
	}
	got := make(chan rec, k)
	go func() {
		for i := 0; i < k; i++ {
			w, tok, _ := tr.Receive()
			if w == nil {
				return
			}
			got <- rec{append([]byte{}, w.Join()...), append([]byte{}, tok...)}
		}
	}()
	c.Count("internal_transport_packets", int64(k))
	c.Distinct(fmt.Sprintf("internal|k=%d", k))
	for i := 0; i < k; i++ {
		select {
		case g := <-got:
			if !bytes.Equal(g.wire, all[i].wire) || !bytes.Equal(g.tok, all[i].tok) {
				c.Violation("C10:internal-transport-packet-differs", id, fmt.Sprintf("packet %d of %d read from the internal transport is not packet %d that was sent (bytes equal: %v, PIT token %x, sent %x)", i, k, i, bytes.Equal(g.wire, all[i].wire), g.tok, all[i].tok), map[string]any{"packets": k})
				return
			}
		case <-time.After(20 * time.Second):
			c.Violation("C10:not-delivered:internal-transport", id, fmt.Sprintf("only %d of %d packets sent on the internal face could be read", i, k), nil)
			return
		}
	}
}

func c10Run(c *h.Ctx) {
	cfg0 := fwenv.Config()
	// congestion marking by the link service itself is switched off, so that the
	// header budget W depends only on what the harness asks for
	cfg0.Faces.CongestionMarking = false
	fwenv.Load(cfg0)
	minSize := 16
	sizes := []int{}
	mtus := []int{128, 129, 255, 256, 257, 576, 1280, 1500, 8800}
	if c.Thorough() {
		mtus = append(mtus, 130, 200, 300, 1024, 2000, 4000, 8799)
	}
	for k := 0; k < c.Pick(4, 30); k++ {
		id := fmt.Sprintf("internal%d", k)
		if c.Case(id) {
			c10Internal(c, id, c.Rng(id))
		}
	}
	for k := 0; k < c.Pick(6, 40); k++ {
		id := fmt.Sprintf("real%d", k)
		if c.Case(id) {
			c10Real(c, id, c.Rng(id))
		}
	}
	for k := 0; k < c.Pick(1, 6); k++ {
		id := fmt.Sprintf("shared%d", k)
		if c.Case(id) {
			c10Shared(c, id, c.Rng(id))
		}
	}
	for k := 0; k < c.Pick(1, 6); k++ {
		id := fmt.Sprintf("udplisten%d", k)
		if c.Case(id) {
			c10Listener(c, id, c.Rng(id))
		}
	}
	for k := 0; k < c.Pick(3, 20); k++ {
		id := fmt.Sprintf("faces%d", k)
		if c.Case(id) {
			c10Faces(c, id, c.Rng(id))
		}
	}
	n := c.Pick(3000, 30000)
	for k := 0; k < n; k++ {
		id := fmt.Sprintf("c%d", k)
		if !c.Case(id) {
			continue
		}
		r := c.Rng(id)
		cfg := c10Cfg{mtu: mtus[r.Intn(len(mtus))], frag: r.Intn(5) != 0, inFaceInd: r.Intn(2) == 0}
		if r.Intn(6) == 0 {
			cfg.mtu = 128 + r.Intn(8800-128+1)
		}
		nMsg := 1 + r.Intn(3)
		msgs := make([]*c10Msg, nMsg)
		for i := range msgs {
			m := &c10Msg{kind: "data"}
			if r.Intn(4) == 0 {
				m.kind = "interest"
			}
			switch r.Intn(5) {
			case 0:
				m.token = []byte{0, 0, 0, 0, 0, byte(1 + i)}
			case 1:
				m.token = []byte{byte(1 + i)}
			case 2:
				m.token = bytes.Repeat([]byte{byte(0x40 + i)}, 32)
			case 3:
				m.token = []byte{0, 0, 9, 9, 9, byte(i)}
			}
			if r.Intn(3) == 0 {
				v := uint64(1 + r.Intn(3))
				m.cmark = &v
			}
			// size: boundaries around k*effective payload, extremes, random
			w := c10W(cfg, m, 0)
			eff := cfg.mtu - w
			if eff < 1 {
				eff = 1
			}
			var size int
			switch r.Intn(8) {
			case 0:
				size = minSize
			case 1:
				size = 8800
			case 2:
				size = 8799
			case 3, 4:
				kk := 1 + r.Intn(3)
				size = kk*eff + []int{-1, 0, 1}[r.Intn(3)]
			case 5:
				size = cfg.mtu - w + []int{-1, 0, 1, 2, 3, 4, 5}[r.Intn(7)]
			default:
				size = minSize + r.Intn(8800-minSize+1)
			}
			if size < minSize {
				size = minSize
			}
			if size > 8800 {
				size = 8800
			}
			m.wire = c10Packet(r, size, m.kind == "interest")
			if m.wire == nil {
				m.wire = c10Packet(r, minSize, false)
			}
			msgs[i] = m
			sizes = append(sizes, len(m.wire))
		}
		c10One(c, id, r, cfg, msgs)
	}
	_ = sizes
}

func c10One(c *h.Ctx, id string, r *rand.Rand, cfg c10Cfg, msgs []*c10Msg) {
	c.Eval(1)
	rts := fwenv.InstallRecThreads(2)
	fwfw.Threads = make([]*fwfw.Thread, 2)
	lateOptions, cfgOrder := r.Intn(4) == 0, r.Intn(3)
	if lateOptions {
		c.Count("link_services_reconfigured_after_creation", 1)
	}
	mkLS := func(fid uint64) (*face.NDNLPLinkService, *face.VerifTransport) {
		tr := face.NewVerifTransport(defn.NonLocal, defn.PointToPoint, cfg.mtu)
		o := face.MakeNDNLPLinkServiceOptions()
		o.IsFragmentationEnabled = cfg.frag
		o.IsReassemblyEnabled = true
		o.IsIncomingFaceIndicationEnabled = cfg.inFaceInd
		var ls *face.NDNLPLinkService
		if lateOptions {
			// the face is created with other settings and reconfigured afterwards, as faces/update
			// does (Options, change, SetOptions): the result must behave like a face built that way
			first := o
			switch cfgOrder {
			case 0:
				first.IsIncomingFaceIndicationEnabled = !o.IsIncomingFaceIndicationEnabled
			case 1:
				first.IsFragmentationEnabled = !o.IsFragmentationEnabled
			default:
				first.IsIncomingFaceIndicationEnabled = !o.IsIncomingFaceIndicationEnabled
				first.IsFragmentationEnabled = !o.IsFragmentationEnabled
			}
			ls = face.MakeNDNLPLinkService(tr, first)
			cur := ls.Options()
			cur.IsFragmentationEnabled, cur.IsIncomingFaceIndicationEnabled, cur.IsReassemblyEnabled = o.IsFragmentationEnabled, o.IsIncomingFaceIndicationEnabled, o.IsReassemblyEnabled
			ls.SetOptions(cur)
		} else {
			ls = face.MakeNDNLPLinkService(tr, o)
		}
		ls.SetFaceID(fid)
		return ls, tr
	}
	sender, stx := mkLS(401)
	receiver, _ := mkLS(402)
	det := map[string]any{"mtu": cfg.mtu, "fragmentation": cfg.frag, "incoming_face_indication": cfg.inFaceInd, "options_set_after_creation": lateOptions}
	var mdesc []map[string]any
	type sent struct {
		frames [][]byte
	}
	all := make([]sent, len(msgs))
	inFace := uint64(77)
	for i, m := range msgs {
		mdesc = append(mdesc, map[string]any{"kind": m.kind, "size": len(m.wire), "token_len": len(m.token), "cmark": m.cmark != nil})
		l3, _, err := spec.ReadPacket(enc.NewBufferReader(append([]byte{}, m.wire...)))
		if err != nil {
			c.Inconclusive("harness packet does not parse: " + err.Error())
			return
		}
		p := &defn.Pkt{Raw: append([]byte{}, m.wire...), L3: l3, CongestionMark: m.cmark, IncomingFaceID: &inFace}
		// the packet's own (incoming) token is independent of the token attached on output
		if r.Intn(2) == 0 {
			p.PitToken = []byte{9, 9, 9}
		}
		out := dispatch.OutPkt{Pkt: p, PitToken: m.token, InFace: &inFace}
		if pi := h.Guard(func() { face.VerifSend(sender, out) }); pi != nil {
			det["messages"] = mdesc
			c.Violation("C10:panic:send:"+pi.Frame+":"+pi.Class, id, "sendPacket panicked: "+pi.Value, det)
			return
		}
		all[i].frames = stx.TakeFrames()
	}
	det["messages"] = mdesc
	// ---- sender-side oracle
	for i, m := range msgs {
		fr := all[i].frames
		w := c10W(cfg, m, 0)
		fits := len(m.wire)+w <= cfg.mtu
		cls := "fits"
		if !fits {
			cls = "oversize"
		}
		c.Distinct(fmt.Sprintf("%s|frag=%v|ind=%v|tok=%d|cm=%v|frames=%d", cls, cfg.frag, cfg.inFaceInd, len(m.token), m.cmark != nil, min(len(fr), 5)))
		for fi, f := range fr {
			if len(f) > cfg.mtu {
				c.Violation("C10:frame-exceeds-mtu", id, fmt.Sprintf("frame %d of message %d has %d bytes, MTU is %d", fi, i, len(f), cfg.mtu), det)
			}
			root, err := tlvwalk.One(f, tlvwalk.PacketNest, true)
			if err != nil || root.Type != 0x64 {
				c.Violation("C10:frame-not-lppacket", id, fmt.Sprintf("frame %d of message %d is not one well-formed LpPacket: %v", fi, i, err), det)
			}
		}
		if fits && len(fr) != 1 {
			c.Violation(fmt.Sprintf("C10:fitting-packet-not-one-frame:frag=%v", cfg.frag), id, fmt.Sprintf("packet of %d bytes (+%d worst-case header <= MTU %d) was sent as %d frames", len(m.wire), w, cfg.mtu, len(fr)), det)
		}
		if !cfg.frag && len(fr) > 1 {
			c.Violation("C10:fragmented-although-disabled", id, "fragmentation is disabled but the packet was sent as several frames", det)
		}
		if !cfg.frag && len(fr) == 1 {
			// either the whole packet or nothing: never a truncated one
			if root, err := tlvwalk.One(fr[0], tlvwalk.PacketNest, true); err == nil {
				if fg := root.Child(0x50); fg == nil || !bytes.Equal(fr[0][fg.ValOff:fg.End], m.wire) {
					c.Violation("C10:truncated-without-fragmentation", id, "fragmentation disabled: the single frame does not carry the whole packet", det)
				}
			}
		}
		if cfg.frag && len(fr) == 0 {
			c.Violation("C10:packet-not-sent", id, fmt.Sprintf("packet of %d bytes produced no frame although fragmentation is enabled", len(m.wire)), det)
		}
	}
	// ---- delivery: interleave the frames of all messages in a PRNG order (+ one duplicated fragment)
	type fr struct {
		msg int
		b   []byte
	}
	var pool []fr
	for i := range msgs {
		for _, f := range all[i].frames {
			pool = append(pool, fr{i, f})
		}
		if len(all[i].frames) > 1 && r.Intn(4) == 0 {
			pool = append(pool, fr{i, all[i].frames[r.Intn(len(all[i].frames))]})
		}
	}
	switch r.Intn(3) {
	case 0: // full shuffle
		r.Shuffle(len(pool), func(a, b int) { pool[a], pool[b] = pool[b], pool[a] })
	case 1: // reverse
		for a, b := 0, len(pool)-1; a < b; a, b = a+1, b-1 {
			pool[a], pool[b] = pool[b], pool[a]
		}
	default: // in order per message, messages interleaved round-robin (already grouped: rotate)
		if len(pool) > 1 {
			k := r.Intn(len(pool))
			pool = append(pool[k:], pool[:k]...)
		}
	}
	for _, f := range pool {
		fb := append([]byte{}, f.b...)
		if pi := h.Guard(func() { face.VerifRecv(receiver, fb) }); pi != nil {
			c.Violation("C10:panic:recv:"+pi.Frame+":"+pi.Class, id, "handleIncomingFrame panicked on frames produced by the sender: "+pi.Value, det)
			return
		}
	}
	// ---- receiver-side oracle
	delivered := fwenv.TakeAll(rts)
	for i, m := range msgs {
		if len(all[i].frames) == 0 {
			continue // dropped at the sender (fragmentation disabled and oversize): nothing to deliver
		}
		cnt := 0
		for _, p := range delivered {
			if bytes.Equal(p.Raw, m.wire) {
				cnt++
				if !bytes.Equal(p.PitToken, m.token) && !(len(p.PitToken) == 0 && len(m.token) == 0) {
					c.Violation("C10:pit-token-lost", id, fmt.Sprintf("message %d delivered with PIT token %x, sent with %x", i, p.PitToken, m.token), det)
				}
				if (p.CongestionMark == nil) != (m.cmark == nil) || (m.cmark != nil && *p.CongestionMark != *m.cmark) {
					c.Violation("C10:congestion-mark-lost", id, fmt.Sprintf("message %d delivered with a different congestion mark", i), det)
				}
			}
		}
		cls := "single-frame"
		if len(all[i].frames) > 1 {
			cls = "fragmented"
		}
		if cnt == 0 {
			c.Violation("C10:not-delivered:"+cls, id, fmt.Sprintf("message %d (%d bytes, %d frames) was not delivered byte-identically by the receiving link service", i, len(m.wire), len(all[i].frames)), det)
		} else if cnt > 1 {
			c.Violation("C10:delivered-twice:"+cls, id, fmt.Sprintf("message %d was delivered %d times", i, cnt), det)
		}
		c.Count("messages", 1)
		if len(all[i].frames) > 1 {
			c.Count("fragmented_messages", 1)
		}
	}
	if len(delivered) > len(msgs) {
		c.Violation("C10:spurious-delivery", id, fmt.Sprintf("%d packets delivered for %d messages", len(delivered), len(msgs)), det)
	}
	c.Sample(det)
}

func init() {
	h.Register(&h.Prop{
		ID:    "C10",
		Level: "exploration",
		Rule: "valid Data/Interest packets built to exact sizes (minimum .. 8800, boundaries k*payload-1/k*payload/k*payload+1, MTU-overhead +-5) are sent through a real NDNLP link service over an in-memory transport (MTU 128..8800, fragmentation on/off, incoming-face indication on/off, output PIT token none/1/6/32 bytes independent of the incoming token, congestion mark); " +
			"oracle at the sender: every frame <= MTU and one well-formed LpPacket, fitting packet => exactly one frame, fragmentation off => whole packet or nothing; the frames of up to three concurrent messages are delivered shuffled/reversed/rotated (plus one duplicated fragment) to a peer link service whose forwarding threads are recorders: each message delivered exactly once, byte-identical, same PIT token and congestion mark; distinct = (fits/oversize, options, token length, mark, frame count); concurrent faces: 2-4 link services of one process send 150-300 packets each at the same time, every face's peer must reassemble exactly that face's packets (bytes and PIT tokens, in order); real transports: the same link service over an accepted TCP connection / a Unix stream socket (MTU 300/1500/8800) sends packets whose frame comes out just below, exactly at and above the MTU - the peer must read exactly the frames a twin link service emits that fit the MTU",
		Assumptions: []string{"worst-case header budget W is computed by the harness from the NDNLPv2 field sizes, not from the code's constants", "duplicates are limited to one fragment per message (a fully duplicated message legitimately reassembles twice)"},
		Batches:     func(t bool) int { return 16 },
		ChildTimeoutS: func(t bool) int {
			if t {
				return 2400
			}
			return 400
		},
		Run:         c10Run,
		MinDistinct: 30,
		Floors:      map[string]int64{"messages": 200, "fragmented_messages": 50},
	})
}
