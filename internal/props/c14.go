package props

import (
	"bytes"
	"fmt"
	"math/rand"
	"sync"
	"sync/atomic"

	enc "github.com/named-data/ndnd/std/encoding"
	"github.com/named-data/ndnd/std/engine/basic"
	"github.com/named-data/ndnd/std/object"

	"verif/internal/gen"
	"verif/internal/h"
)

// ---- C14: name order, equality, prefix, hash and URI form are consistent

func sgn(x int) int {
	switch {
	case x < 0:
		return -1
	case x > 0:
		return 1
	}
	return 0
}

// refCompCompare is NDN canonical order on components, written from the spec.
func refCompCompare(a, b enc.Component) int {
	if a.Typ != b.Typ {
		if a.Typ < b.Typ {
			return -1
		}
		return 1
	}
	if len(a.Val) != len(b.Val) {
		if len(a.Val) < len(b.Val) {
			return -1
		}
		return 1
	}
	return bytes.Compare(a.Val, b.Val)
}

func refNameCompare(a, b enc.Name) int {
	for i := 0; i < len(a) && i < len(b); i++ {
		if c := refCompCompare(a[i], b[i]); c != 0 {
			return c
		}
	}
	return sgn(len(a) - len(b))
}

func refIsPrefix(a, b enc.Name) bool {
	if len(a) > len(b) {
		return false
	}
	for i := range a {
		if refCompCompare(a[i], b[i]) != 0 {
			return false
		}
	}
	return true
}

func nameDesc(n enc.Name) any {
	out := make([]string, len(n))
	for i, c := range n {
		out[i] = fmt.Sprintf("%d=%s", uint64(c.Typ), h.Hex(c.Val))
	}
	return out
}

func compClass(c enc.Component) string {
	t := uint64(c.Typ)
	switch {
	case t == 8:
		return "generic"
	case t == 1 || t == 2:
		return "hex"
	case gen.NumTypes[t]:
		return "number"
	default:
		return "typed"
	}
}

func valClass(v []byte) string {
	if len(v) == 0 {
		return "empty"
	}
	cls := "text"
	for _, b := range v {
		switch {
		case b == '%' || b == '=' || b == '/' || b == '\\':
			return "special"
		case b == '.':
			if cls == "text" {
				cls = "dots"
			}
		case b < 0x21 || b > 0x7e:
			cls = "binary"
		}
	}
	return cls
}

func c14Run(c *h.Ctx) {
	r := c.Rng("c14")
	nPairs := c.Pick(60000, 600000)
	// --- laws on pairs and triples
	for i := 0; i < nPairs; i++ {
		id := fmt.Sprintf("law-%d", i)
		a := gen.Name(r, 5, 6)
		if i%16 == 5 { // long components / long names (beyond any fixed-size fast path)
			a = gen.Name(r, 1+r.Intn(12), []int{40, 130, 300}[r.Intn(3)])
		}
		if i%64 == 9 { // deep names: more components than any table or parser would pre-size for
			a = enc.Name{}
			for k := []int{31, 32, 33, 34, 40, 64, 65, 70}[r.Intn(8)]; k > 0; k-- {
				a = append(a, gen.Comp(r, 3))
			}
		}
		b := gen.Near(r, a)
		var d enc.Name
		if r.Intn(2) == 0 {
			d = gen.Near(r, b)
		} else {
			d = gen.Name(r, 5, 6)
		}
		if i%12 == 7 {
			// type numbers far beyond 16 bits (any TLV-TYPE is a legal component type on the wire):
			// around 2^32, 2^63 and 2^64, in one, two or all three names
			huge := []uint64{1 << 32, 1<<32 + 8, 1<<63 - 1, 1 << 63, 1<<63 + 100, 1<<64 - 1}
			for _, nm := range []enc.Name{a, b, d} {
				if len(nm) > 0 && r.Intn(3) != 0 {
					k := r.Intn(len(nm))
					nm[k] = enc.Component{Typ: enc.TLNum(huge[r.Intn(len(huge))]), Val: append([]byte{}, nm[k].Val...)}
				}
			}
		}
		if !c.Case(id) {
			continue
		}
		c14Laws(c, id, a, b, d)
		if i%4 == 0 {
			c14Tables(c, id, a, b)
		}
	}
	// --- URI round trip
	nURI := c.Pick(60000, 600000)
	for i := 0; i < nURI; i++ {
		id := fmt.Sprintf("uri-%d", i)
		n := gen.Name(r, 5, 10)
		if i%200 == 7 { // deep names
			n = enc.Name{}
			for k := []int{31, 32, 33, 34, 40, 64, 65, 70}[r.Intn(8)]; k > 0; k-- {
				n = append(n, gen.Comp(r, 3))
			}
		}
		if !c.Case(id) {
			continue
		}
		c14URI(c, id, n)
	}
	// --- parsers never panic
	c14Parsers(c, r)
	// --- the same laws hold when names are hashed from several goroutines at once (tables are
	// keyed by these hashes from forwarding threads, management and applications concurrently)
	c14ConcurrentHash(c, r)
}

func c14ConcurrentHash(c *h.Ctx, r *rand.Rand) {
	if !c.Case("concurrent-hash") {
		return
	}
	c.Eval(1)
	names := make([]enc.Name, 24)
	for i := range names {
		names[i] = gen.Name(r, 6, 12)
		if len(names[i]) == 0 {
			names[i] = gen.Name(r, 6, 12)
		}
	}
	wantH := make([]uint64, len(names))
	wantP := make([][]uint64, len(names))
	for i, n := range names {
		wantH[i] = n.Hash()
		wantP[i] = n.PrefixHash()
	}
	var wg sync.WaitGroup
	var bad atomic.Int64
	var first atomic.Value
	for g := 0; g < 8; g++ {
		wg.Add(1)
		go func(g int) {
			defer wg.Done()
			for k := 0; k < 4000; k++ {
				i := (g*5 + k) % len(names)
				n := names[i]
				if n.Hash() != wantH[i] {
					bad.Add(1)
					first.CompareAndSwap(nil, "Hash of "+n.String())
				}
				ph := n.PrefixHash()
				for j := range ph {
					if j >= len(wantP[i]) || ph[j] != wantP[i][j] {
						bad.Add(1)
						first.CompareAndSwap(nil, "PrefixHash of "+n.String())
						break
					}
				}
			}
		}(g)
	}
	wg.Wait()
	c.Count("concurrent_hash_evaluations", 8*4000)
	if bad.Load() > 0 {
		c.Violation("C14:law:hash-equal:concurrent", "concurrent-hash", fmt.Sprintf("%d of 32000 hash evaluations made from 8 goroutines differ from the value the same name hashes to when hashed alone (first: %v)", bad.Load(), first.Load()), nil)
	}
}

func c14Laws(c *h.Ctx, id string, a, b, d enc.Name) {
	c.Eval(1)
	det := func() any {
		return map[string]any{"a": nameDesc(a), "b": nameDesc(b), "c": nameDesc(d)}
	}
	var cab, cba, cbd, cad, caa int
	var eab, pab, pba bool
	var ha, hb uint64
	var ph []uint64
	var ba, bb []byte
	if pi := h.Guard(func() {
		cab, cba, cbd, cad, caa = a.Compare(b), b.Compare(a), b.Compare(d), a.Compare(d), a.Compare(a.Clone())
		eab = a.Equal(b)
		pab, pba = a.IsPrefix(b), b.IsPrefix(a)
		ha, hb = a.Hash(), b.Hash()
		ph = a.PrefixHash()
		ba, bb = a.Bytes(), b.Bytes()
	}); pi != nil {
		c.Violation("C14:panic:laws:"+pi.Frame+":"+pi.Class, id, "name law evaluation panicked: "+pi.Value, det())
		return
	}
	ref := refNameCompare(a, b)
	rel := "unrelated"
	switch {
	case ref == 0:
		rel = "equal"
	case refIsPrefix(a, b) || refIsPrefix(b, a):
		rel = "prefix"
	case len(a) == len(b):
		rel = "samelen"
	}
	c.Distinct(fmt.Sprintf("law|%s|%d|%d", rel, len(a), len(b)))
	if sgn(cab) != ref {
		c.Violation("C14:law:compare-canonical", id, fmt.Sprintf("Compare(a,b)=%d but canonical order says %d", cab, ref), det())
	}
	if sgn(cab) != -sgn(cba) {
		c.Violation("C14:law:antisymmetry", id, fmt.Sprintf("Compare(a,b)=%d Compare(b,a)=%d", cab, cba), det())
	}
	if caa != 0 {
		c.Violation("C14:law:reflexive", id, "Compare(a,clone(a)) != 0", det())
	}
	if sgn(cab) <= 0 && sgn(cbd) <= 0 && sgn(cad) > 0 {
		c.Violation("C14:law:transitivity", id, "a<=b, b<=c but a>c", det())
	}
	if sgn(cab) >= 0 && sgn(cbd) >= 0 && sgn(cad) < 0 {
		c.Violation("C14:law:transitivity", id, "a>=b, b>=c but a<c", det())
	}
	if eab != (ref == 0) {
		c.Violation("C14:law:equal-vs-canonical", id, fmt.Sprintf("Equal=%v but canonical compare=%d", eab, ref), det())
	}
	if eab != (cab == 0) {
		c.Violation("C14:law:equal-vs-compare", id, fmt.Sprintf("Equal=%v Compare=%d", eab, cab), det())
	}
	if eab != bytes.Equal(ba, bb) {
		c.Violation("C14:law:equal-vs-bytes", id, fmt.Sprintf("Equal=%v but Bytes equal=%v", eab, bytes.Equal(ba, bb)), det())
	}
	if pab != refIsPrefix(a, b) || pba != refIsPrefix(b, a) {
		c.Violation("C14:law:isprefix", id, fmt.Sprintf("IsPrefix(a,b)=%v IsPrefix(b,a)=%v expected %v %v", pab, pba, refIsPrefix(a, b), refIsPrefix(b, a)), det())
	}
	if ref == 0 && ha != hb {
		c.Violation("C14:law:hash-equal", id, "equal names hash differently", det())
	}
	if len(ph) != len(a)+1 {
		c.Violation("C14:law:prefixhash-len", id, fmt.Sprintf("PrefixHash has %d entries for %d components", len(ph), len(a)), det())
	} else {
		for i := 0; i <= len(a); i++ {
			if ph[i] != a[:i].Hash() {
				c.Violation("C14:law:prefixhash", id, fmt.Sprintf("PrefixHash[%d] != Hash(name[:%d])", i, i), det())
				break
			}
		}
	}
	// a clone built from fresh slices (different capacity / backing array) must hash equally
	cl := make(enc.Name, 0, len(a)+3)
	for _, x := range a {
		v := make([]byte, len(x.Val), len(x.Val)+5)
		copy(v, x.Val)
		cl = append(cl, enc.Component{Typ: x.Typ, Val: v})
	}
	if cl.Hash() != ha {
		c.Violation("C14:law:hash-equal", id, "a deep copy hashes differently", det())
	}
	c.Sample(map[string]any{"kind": "law", "a": a.String(), "b": b.String(), "compare": cab, "equal": eab, "isprefix": pab})
}

// c14Tables: the name-keyed tables anchored in this property (object memory store, engine name
// trie) key on the component strings; two distinct names (inside the URI round-trip domain, which
// is all the generator produces) must never be conflated by them and equal names must meet.
func c14Tables(c *h.Ctx, id string, a, b enc.Name) {
	if len(a) == 0 || len(b) == 0 {
		return
	}
	same := refNameCompare(a, b) == 0
	det := func() any { return map[string]any{"a": nameDesc(a), "b": nameDesc(b)} }
	wa, wb := []byte("A:"+id), []byte("B:"+id)
	var ga1, gb1, ga2, gb2 []byte
	var ta1, tb1, ta2, tb2 []byte // the same through put-transactions (what Produce uses)
	var trieSame, trieFound, delChecked, delAGone, delBKept bool
	var va, vb int
	if pi := h.Guard(func() {
		st := object.NewMemoryStore()
		st.Put(a.Clone(), 1, wa)
		st.Put(b.Clone(), 1, wb)
		ga1, _ = st.Get(a, false)
		gb1, _ = st.Get(b, false)
		st.Remove(a, false)
		ga2, _ = st.Get(a, false)
		gb2, _ = st.Get(b, false)
		tx := object.NewMemoryStore()
		_ = tx.Begin()
		_ = tx.Put(a.Clone(), 1, wa)
		_ = tx.Commit()
		_ = tx.Begin()
		_ = tx.Put(b.Clone(), 1, wb)
		_ = tx.Commit()
		ta1, _ = tx.Get(a, false)
		tb1, _ = tx.Get(b, false)
		_ = tx.Remove(a, false)
		ta2, _ = tx.Get(a, false)
		tb2, _ = tx.Get(b, false)
		tr := basic.NewNameTrie[int]()
		na := tr.MatchAlways(a.Clone())
		na.SetValue(1)
		nb := tr.MatchAlways(b.Clone())
		if !same {
			nb.SetValue(2)
		}
		trieSame = na == nb
		xa, xb := tr.ExactMatch(a), tr.ExactMatch(b)
		trieFound = xa != nil && xb != nil
		if trieFound {
			va, vb = xa.Value(), xb.Value()
		}
		if !same && trieFound && !trieSame {
			// removal uses the same key as insertion: deleting a removes a and only a
			xa.SetValue(0)
			xa.DeleteIf(func(v int) bool { return v == 0 })
			ya, yb := tr.ExactMatch(a), tr.ExactMatch(b)
			delChecked = true
			delAGone = ya == nil || refIsPrefix(a, b) // a node that still has children stays
			delBKept = yb != nil && yb.Value() == 2
		}
	}); pi != nil {
		c.Violation("C14:panic:tables:"+pi.Frame+":"+pi.Class, id, "name-keyed table panicked: "+pi.Value, det())
		return
	}
	c.Count("table_pairs", 1)
	if same {
		if !bytes.Equal(ga1, wb) || !bytes.Equal(gb1, wb) || ga2 != nil || gb2 != nil {
			c.Violation("C14:store-splits-equal-names", id, "memory store treats two equal names as different keys", det())
		}
		if !bytes.Equal(ta1, wb) || !bytes.Equal(tb1, wb) || ta2 != nil || tb2 != nil {
			c.Violation("C14:store-splits-equal-names:transactions", id, "memory store (packets committed through put-transactions) treats two equal names as different keys", det())
		}
		if !trieSame {
			c.Violation("C14:trie-splits-equal-names", id, "name trie has two nodes for equal names", det())
		}
		return
	}
	if !bytes.Equal(ta1, wa) || !bytes.Equal(tb1, wb) {
		c.Violation("C14:store-conflates-names:transactions", id, fmt.Sprintf("memory store: after committing Put(a,A) and Put(b,B) in two transactions with a != b, Get(a)=%q Get(b)=%q", ta1, tb1), det())
	} else if ta2 != nil || !bytes.Equal(tb2, wb) {
		c.Violation("C14:store-conflates-names:transactions", id, fmt.Sprintf("memory store (transactions): after Remove(a) with a != b, Get(a)=%q Get(b)=%q", ta2, tb2), det())
	}
	if !bytes.Equal(ga1, wa) || !bytes.Equal(gb1, wb) {
		c.Violation("C14:store-conflates-names", id, fmt.Sprintf("memory store: after Put(a,A) Put(b,B) with a != b, Get(a)=%q Get(b)=%q", ga1, gb1), det())
	} else if ga2 != nil || !bytes.Equal(gb2, wb) {
		c.Violation("C14:store-conflates-names", id, fmt.Sprintf("memory store: after Remove(a) with a != b, Get(a)=%q Get(b)=%q", ga2, gb2), det())
	}
	if delChecked && (!delAGone || !delBKept) {
		c.Violation("C14:trie-delete-uses-other-key", id, fmt.Sprintf("name trie: after deleting the node of a (a != b), a gone=%v, b kept=%v (both expected true)", delAGone, delBKept), det())
	}
	if trieSame || !trieFound || va != 1 || vb != 2 {
		c.Violation("C14:trie-conflates-names", id, fmt.Sprintf("name trie: distinct names share a node or are not found (same node=%v found=%v values %d,%d)", trieSame, trieFound, va, vb), det())
	}
}

func c14URI(c *h.Ctx, id string, n enc.Name) {
	c.Eval(1)
	var s string
	var back enc.Name
	var err error
	if pi := h.Guard(func() {
		s = n.String()
		back, err = enc.NameFromStr(s)
	}); pi != nil {
		c.Violation("C14:panic:uri:"+pi.Frame+":"+pi.Class, id, "String/NameFromStr panicked: "+pi.Value, map[string]any{"name": nameDesc(n), "uri": s})
		return
	}
	if err != nil || refNameCompare(back, n) != 0 {
		// classify by the first component that does not round-trip on its own
		cls := "whole-name"
		for _, x := range n {
			y, e := enc.ComponentFromStr(x.String())
			if e != nil || refCompCompare(x, y) != 0 {
				cls = compClass(x) + "/" + valClass(x.Val)
				break
			}
		}
		c.Violation("C14:uri-roundtrip:"+cls, id, fmt.Sprintf("NameFromStr(String()) differs (err=%v)", err),
			map[string]any{"name": nameDesc(n), "uri": s, "back": nameDesc(back)})
	}
	for _, x := range n {
		c.Distinct("uri|" + compClass(x) + "|" + valClass(x.Val))
		var y, z enc.Component
		var e1, e2 error
		var cs string
		if pi := h.Guard(func() {
			y, e1 = enc.ComponentFromStr(x.String())
			cs = x.CanonicalString()
			z, e2 = enc.ComponentFromStr(cs)
		}); pi != nil {
			c.Violation("C14:panic:uri-comp:"+pi.Frame+":"+pi.Class, id, "component String/FromStr panicked: "+pi.Value, map[string]any{"comp": nameDesc(enc.Name{x})})
			continue
		}
		if e1 != nil || refCompCompare(x, y) != 0 {
			c.Violation("C14:uri-roundtrip-comp:"+compClass(x)+"/"+valClass(x.Val), id, fmt.Sprintf("ComponentFromStr(String()) differs (err=%v)", e1),
				map[string]any{"comp": nameDesc(enc.Name{x}), "uri": x.String(), "back": nameDesc(enc.Name{y})})
		}
		if e2 != nil || refCompCompare(x, z) != 0 {
			c.Violation("C14:uri-roundtrip-canonical:"+compClass(x)+"/"+valClass(x.Val), id, fmt.Sprintf("ComponentFromStr(CanonicalString()) differs (err=%v)", e2),
				map[string]any{"comp": nameDesc(enc.Name{x}), "uri": cs, "back": nameDesc(enc.Name{z})})
		}
	}
	c.Sample(map[string]any{"kind": "uri", "uri": s})
}

var parserAlphabet = []string{"/", "=", "%", "<", ">", ".", "a", "8", "0", "seg", "sha256digest", "params-sha256", "v", "-", "~", "\\", " ", "\x00", "\xff", "1", "65535", "65536", "z", "F", "%00", "%f", "18446744073709551616", ""}

func c14Parsers(c *h.Ctx, r *rand.Rand) {
	type parser struct {
		name string
		fn   func(string)
	}
	parsers := []parser{
		{"NameFromStr", func(s string) { _, _ = enc.NameFromStr(s) }},
		{"ComponentFromStr", func(s string) { _, _ = enc.ComponentFromStr(s) }},
		{"NamePatternFromStr", func(s string) {
			p, err := enc.NamePatternFromStr(s)
			if err == nil {
				_ = p.String()
			}
		}},
		{"ComponentPatternFromStr", func(s string) {
			p, err := enc.ComponentPatternFromStr(s)
			if err == nil && p != nil {
				_ = p.String()
				_ = p.CanonicalString()
			}
		}},
	}
	try := func(id, s string) {
		if !c.Case(id) {
			return
		}
		for _, p := range parsers {
			c.Eval(1)
			if pi := h.Guard(func() { p.fn(s) }); pi != nil {
				c.Violation("C14:panic:"+p.name+":"+pi.Frame+":"+pi.Class, id, p.name+" panicked: "+pi.Value, map[string]any{"input": s, "input_hex": h.HexFull([]byte(s))})
			}
		}
		c.Distinct(fmt.Sprintf("parse|len%d|%v%v%v", min(len(s), 6), containsAny(s, "="), containsAny(s, "/"), containsAny(s, "<%")))
	}
	// exhaustive: all strings of 0..3 symbols over the alphabet (batch 0 only does the full sweep)
	if c.Batch == 0 {
		k := 0
		var rec func(prefix string, depth int)
		rec = func(prefix string, depth int) {
			try(fmt.Sprintf("enum-%d", k), prefix)
			k++
			if depth == 3 {
				return
			}
			for _, a := range parserAlphabet {
				if a == "" {
					continue
				}
				rec(prefix+a, depth+1)
			}
		}
		rec("", 0)
	}
	n := c.Pick(6000, 300000)
	for i := 0; i < n; i++ {
		var s string
		switch r.Intn(3) {
		case 0: // random bytes
			b := make([]byte, r.Intn(12))
			r.Read(b)
			s = string(b)
		case 1: // symbols
			for j := r.Intn(8); j > 0; j-- {
				s += parserAlphabet[r.Intn(len(parserAlphabet))]
			}
		default: // near-miss of a valid URI
			nm := gen.Name(r, 4, 6)
			b := []byte(nm.String())
			if len(b) > 0 {
				switch r.Intn(4) {
				case 0:
					b[r.Intn(len(b))] = "=/%<>"[r.Intn(5)]
				case 1:
					j := r.Intn(len(b))
					b = append(b[:j], b[j+1:]...)
				case 2:
					j := r.Intn(len(b) + 1)
					b = append(b[:j], append([]byte{"=/%<>"[r.Intn(5)]}, b[j:]...)...)
				default:
					b = b[:r.Intn(len(b)+1)]
				}
			}
			s = string(b)
		}
		try(fmt.Sprintf("rnd-%d", i), s)
	}
}

func containsAny(s, chars string) bool {
	for i := 0; i < len(s); i++ {
		for j := 0; j < len(chars); j++ {
			if s[i] == chars[j] {
				return true
			}
		}
	}
	return false
}

func init() {
	h.Register(&h.Prop{
		ID:    "C14",
		Level: "exploration",
		Rule: "seeded generator of adversarially close name pairs/triples (one byte/length/type apart, prefixes, swaps), names for URI round trip " +
			"(types 1..65535, number conventions in shortest form, every byte value, '.', '..', '%', '=', '/'), and parser inputs (all strings of <=3 symbols over a 27-symbol alphabet, random bytes, near-miss URIs); " +
			"distinct = (relation class,len a,len b) for laws, (component class,value class) for URI, (length,feature) for parser inputs",
		Assumptions: []string{"reference canonical order and prefix relation are re-implemented in the harness from the NDN spec", "64-bit hash collisions are not searched for (only equal => equal hash is asserted)"},
		Batches: func(t bool) int {
			if t {
				return 16
			}
			return 4
		},
		ChildTimeoutS: func(t bool) int {
			if t {
				return 1500
			}
			return 240
		},
		Run:         c14Run,
		MinDistinct: 20,
	})
}
