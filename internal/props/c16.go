package props

import (
	"bufio"
	"fmt"
	"math/rand"
	"os"
	"path/filepath"
	"regexp"
	"runtime"
	"sort"
	"strings"
	"sync"
	"sync/atomic"
	"time"

	"github.com/anishathalye/porcupine"

	"github.com/named-data/ndnd/fw/core"
	"github.com/named-data/ndnd/fw/defn"
	"github.com/named-data/ndnd/fw/dispatch"
	"github.com/named-data/ndnd/fw/face"
	fwfw "github.com/named-data/ndnd/fw/fw"
	fwmgmt "github.com/named-data/ndnd/fw/mgmt"
	"github.com/named-data/ndnd/fw/table"
	enc "github.com/named-data/ndnd/std/encoding"

	"verif/internal/fwenv"
	"verif/internal/fwsim"
	"verif/internal/h"
)

// ---- C16: shared tables tolerate concurrent updates, teardown and lookups

var c16Prefixes = []string{"/a", "/a/b", "/a/b/c", "/d"}

func c16Names() []enc.Name {
	var out []enc.Name
	for _, s := range c16Prefixes {
		n, _ := enc.NameFromStr(s)
		out = append(out, n)
	}
	return out
}

func c16Setup(algo string, m int) {
	cfg := fwenv.Config()
	cfg.Tables.Fib.Hashtable.M = uint16(m)
	cfg.Tables.Rib.ReadvertiseNlsr = false
	fwenv.Load(cfg)
	table.Configure()
	table.CreateFIBTable(algo)
	table.VerifResetRib()
	table.VerifResetReadvertisers()
}

// c16SetupReadvertise is c16Setup plus what the daemon does when ReadvertiseNlsr is on (the
// default): a management thread whose NLSR readvertiser is called from inside every RIB update
// of a client-origin route. Its commands go through the internal face to recording threads.
var c16RecOnce sync.Once

// c16Poisoned is set when a case left goroutines stuck (deadlock): the rest of the batch is skipped.
var c16Poisoned bool

func c16SetupReadvertise(algo string, m int) bool {
	cfg := fwenv.Config()
	cfg.Tables.Fib.Hashtable.M = uint16(m)
	cfg.Tables.Rib.ReadvertiseNlsr = true
	fwenv.Load(cfg)
	table.Configure()
	table.CreateFIBTable(algo)
	table.VerifResetRib()
	table.VerifResetReadvertisers()
	// the daemon installs its forwarding threads once, at start-up, before any face runs
	c16RecOnce.Do(func() { fwenv.InstallRecThreads(1) })
	mt := fwmgmt.MakeMgmtThread()
	go mt.Run()
	pfx, _ := enc.NameFromStr("/localhost/nfd")
	for k := 0; k < 500; k++ {
		if len(table.FibStrategyTable.FindNextHopsEnc(pfx)) > 0 {
			return true
		}
		time.Sleep(time.Millisecond)
	}
	return false
}

// readLikeForwarder does what a forwarding thread does with a lookup result:
// filter into a new slice, sort it by cost, read every field.
func readLikeForwarder(nhs []*table.FibNextHopEntry) (faces []uint64, costs []uint64) {
	allowed := make([]*table.FibNextHopEntry, 0, len(nhs))
	for _, nh := range nhs {
		if nh != nil {
			allowed = append(allowed, nh)
		}
	}
	sort.Slice(allowed, func(i, j int) bool { return allowed[i].Cost < allowed[j].Cost })
	for _, nh := range allowed {
		faces = append(faces, nh.Nexthop)
		costs = append(costs, nh.Cost)
	}
	return
}

// workload 1: table clients
func c16Clients(c *h.Ctx, id string, r *rand.Rand) {
	c.Eval(1)
	algo := []string{"nametree", "hashtable"}[r.Intn(2)]
	g := []int{2, 3, 4, 8, 16}[r.Intn(5)]
	procs := []int{2, 4, 16}[r.Intn(3)]
	prev := runtime.GOMAXPROCS(procs)
	defer runtime.GOMAXPROCS(prev)
	readv := r.Intn(2) == 0
	if readv {
		if !c16SetupReadvertise(algo, 1+r.Intn(3)) {
			c.Inconclusive("management thread did not come up")
			return
		}
	} else {
		c16Setup(algo, 1+r.Intn(3))
	}
	names := c16Names()
	strat1, _ := enc.NameFromStr("/localhost/nfd/strategy/best-route/v=1")
	strat2, _ := enc.NameFromStr("/localhost/nfd/strategy/multicast/v=1")
	nOps := 150
	var wg sync.WaitGroup
	var nLook, nMut atomic.Int64
	seeds := make([]int64, g)
	for i := range seeds {
		seeds[i] = r.Int63()
	}
	var panicked atomic.Value
	for i := 0; i < g; i++ {
		wg.Add(1)
		go func(i int) {
			defer wg.Done()
			defer func() {
				if x := recover(); x != nil {
					panicked.Store(fmt.Sprint(x))
				}
			}()
			rr := rand.New(rand.NewSource(seeds[i]))
			role := i % 4 // 0: RIB writer, 1: reader, 2: FIB/strategy writer + face teardown, 3: reader + listings
			for k := 0; k < nOps; k++ {
				n := names[rr.Intn(len(names))]
				f := uint64(1 + rr.Intn(3))
				switch role {
				case 0:
					origin := uint64(0)
					if rr.Intn(2) == 0 {
						origin = table.RouteOriginClient // the origin the readvertiser acts on
					}
					if rr.Intn(3) != 0 {
						table.Rib.AddEncRoute(n.Clone(), &table.Route{FaceID: f, Origin: origin, Cost: uint64(rr.Intn(4)), Flags: uint64(rr.Intn(2))})
					} else {
						table.Rib.RemoveRouteEnc(n.Clone(), f, origin)
					}
					nMut.Add(1)
				case 2:
					switch rr.Intn(6) {
					case 0:
						face.FaceTable.Remove(f)
					case 1:
						table.FibStrategyTable.InsertNextHopEnc(n.Clone(), f, uint64(rr.Intn(4)))
					case 2:
						table.FibStrategyTable.RemoveNextHopEnc(n.Clone(), f)
					case 3:
						table.FibStrategyTable.SetStrategyEnc(n.Clone(), []enc.Name{strat1, strat2}[rr.Intn(2)].Clone())
					case 4:
						table.FibStrategyTable.UnSetStrategyEnc(n.Clone())
					default:
						table.Rib.AddEncRoute(n.Clone(), &table.Route{FaceID: f, Origin: 65, Cost: 1, Flags: 1})
					}
					nMut.Add(1)
				default:
					ln := append(n.Clone(), enc.NewStringComponent(8, "x"))
					readLikeForwarder(table.FibStrategyTable.FindNextHopsEnc(ln))
					_ = table.FibStrategyTable.FindStrategyEnc(ln).String()
					if role == 3 && rr.Intn(4) == 0 {
						for _, e := range table.FibStrategyTable.GetAllFIBEntries() {
							_ = e.Name().String()
							readLikeForwarder(e.GetNextHops())
						}
						for _, e := range table.FibStrategyTable.GetAllForwardingStrategies() {
							_ = e.GetStrategy().String()
						}
					}
					nLook.Add(1)
				}
				if rr.Intn(8) == 0 {
					runtime.Gosched()
				}
			}
		}(i)
	}
	done := make(chan struct{})
	go func() { wg.Wait(); close(done) }()
	select {
	case <-done:
	case <-time.After(40 * time.Second):
		buf := make([]byte, 1<<18)
		nb := runtime.Stack(buf, true)
		c16Poisoned = true // stuck goroutines keep running in this process: later cases would only add noise
		c.Violation("C16:deadlock:table-clients", id, "table clients did not finish within 40 s (deadlock suspected)", map[string]any{"algo": algo, "goroutines": g, "nlsr_readvertiser": readv, "stacks": string(buf[:nb])})
		return
	}
	if p := panicked.Load(); p != nil {
		c.Violation("C16:panic:table-clients:"+algo, id, "a table client panicked: "+p.(string), map[string]any{"algo": algo, "goroutines": g})
	}
	c.Count("client_lookups", nLook.Load())
	c.Count("client_mutations", nMut.Load())
	c.Distinct(fmt.Sprintf("clients|%s|g=%d|procs=%d|readvertise=%v", algo, g, procs, readv))
	c.Sample(map[string]any{"workload": "table-clients", "fib": algo, "goroutines": g, "gomaxprocs": procs, "ops_per_goroutine": nOps})
}

// c16FaceAdds: faces are created (registered in the face table) from several goroutines at once,
// as the listeners of different transports do. Every face must get an id of its own and be the
// face the table returns for that id; tearing one down must not touch another one's routes.
func c16FaceAdds(c *h.Ctx, id string, r *rand.Rand) {
	c.Eval(1)
	c16Setup([]string{"nametree", "hashtable"}[r.Intn(2)], 2)
	g := []int{2, 4, 8}[r.Intn(3)]
	per := 60
	type made struct {
		ls *face.NDNLPLinkService
		id uint64
	}
	out := make([][]made, g)
	var wg sync.WaitGroup
	start := make(chan struct{})
	for i := 0; i < g; i++ {
		wg.Add(1)
		go func(i int) {
			defer wg.Done()
			<-start
			for k := 0; k < per; k++ {
				ls := face.MakeNDNLPLinkService(face.NewVerifTransport(defn.NonLocal, defn.PointToPoint, 8800), face.MakeNDNLPLinkServiceOptions())
				face.FaceTable.Add(ls)
				out[i] = append(out[i], made{ls, ls.FaceID()})
				if k%8 == 0 {
					runtime.Gosched()
				}
			}
		}(i)
	}
	close(start)
	wg.Wait()
	seen := map[uint64]*face.NDNLPLinkService{}
	dups, wrong := 0, 0
	for _, l := range out {
		for _, m := range l {
			if _, dup := seen[m.id]; dup {
				dups++
			}
			seen[m.id] = m.ls
			if got := face.FaceTable.Get(m.id); got != face.LinkService(m.ls) {
				wrong++
			}
		}
	}
	c.Count("concurrent_face_registrations", int64(g*per))
	c.Distinct(fmt.Sprintf("face-adds|g=%d", g))
	if dups > 0 || wrong > 0 {
		c.Violation("C16:face-ids-collide", id, fmt.Sprintf("%d faces registered concurrently from %d goroutines: %d share an id with another face, %d are not the face the table returns for their id", g*per, g, dups, wrong), nil)
	}
	for _, l := range out {
		for _, m := range l {
			face.FaceTable.Remove(m.id)
		}
	}
}

// workload 2: the real pipeline
func c16Pipeline(c *h.Ctx, id string, r *rand.Rand) {
	c.Eval(1)
	algo := []string{"nametree", "hashtable"}[r.Intn(2)]
	c16Setup(algo, 2)
	fwfw.Configure()
	core.ShouldQuit = false
	nT := 4
	sim := &fwsim.Sim{Faces: map[uint64]*fwsim.Face{}}
	threads := make([]*fwfw.Thread, nT)
	fts := make([]dispatch.FWThread, nT)
	for i := range threads {
		threads[i] = fwfw.NewThread(i)
		fts[i] = threads[i]
	}
	fwfw.Threads = threads
	dispatch.InitializeFWThreads(fts)
	for id := uint64(1); id <= 4; id++ {
		sim.AddFace(id, id <= 2, defn.PointToPoint)
	}
	for _, t := range threads {
		go t.Run()
	}
	names := c16Names()
	var wg sync.WaitGroup
	stop := make(chan struct{})
	// management-like mutator
	wg.Add(1)
	seedM := r.Int63()
	go func() {
		defer wg.Done()
		rr := rand.New(rand.NewSource(seedM))
		for k := 0; k < 400; k++ {
			n := names[rr.Intn(len(names))]
			f := uint64(1 + rr.Intn(4))
			switch rr.Intn(5) {
			case 0:
				table.Rib.RemoveRouteEnc(n.Clone(), f, 0)
			case 1:
				face.FaceTable.Remove(f + 10) // tear down a face that holds no dispatch entry: RIB clean-up only
				table.Rib.CleanUpFace(f)
			case 2:
				table.FibStrategyTable.InsertNextHopEnc(n.Clone(), f, uint64(rr.Intn(3)))
			default:
				table.Rib.AddEncRoute(n.Clone(), &table.Route{FaceID: f, Origin: 0, Cost: uint64(rr.Intn(4)), Flags: 1})
			}
			if rr.Intn(4) == 0 {
				time.Sleep(50 * time.Microsecond)
			}
		}
	}()
	// face churn: one face that is a next hop / downstream of the traffic is torn down and
	// re-created over and over while the threads forward to it
	churnFace := uint64(3 + r.Intn(2))
	var nChurn atomic.Int64
	var churnWG sync.WaitGroup
	churnWG.Add(1)
	go func() {
		defer churnWG.Done()
		for k := 0; ; k++ {
			select {
			case <-stop:
				return
			default:
			}
			dispatch.RemoveFace(churnFace)
			if k%64 == 0 {
				runtime.Gosched()
			}
			dispatch.AddFace(churnFace, sim.Faces[churnFace])
			nChurn.Add(1)
			if k%16 == 0 {
				runtime.Gosched()
			}
		}
	}()
	// traffic
	sent := 0
	seedT := r.Int63()
	wg.Add(1)
	go func() {
		defer wg.Done()
		rr := rand.New(rand.NewSource(seedT))
		for k := 0; k < 1500; k++ {
			n := append(names[rr.Intn(len(names))].Clone(), enc.NewStringComponent(8, fmt.Sprintf("s%d", rr.Intn(50))))
			nonce := rr.Uint32()
			st := &fwStep{name: n, Nonce: &nonce}
			p, err := fwsim.PktFromWire(buildInterestWire(st), uint64(1+rr.Intn(4)), nil, nil)
			if err != nil {
				continue
			}
			threads[fwfw.HashNameToFwThread(p.Name)].QueueInterest(p)
			sent++
			if k%50 == 0 {
				time.Sleep(200 * time.Microsecond)
			}
		}
	}()
	wg.Wait()
	close(stop)
	churnWG.Wait()
	dispatch.AddFace(churnFace, sim.Faces[churnFace])
	time.Sleep(30 * time.Millisecond)
	c16SignalQuit(true)
	for _, t := range threads {
		t.TellToQuit()
	}
	deadline := time.After(20 * time.Second)
	for _, t := range threads {
		select {
		case <-t.HasQuit:
		case <-deadline:
			c.Inconclusive("forwarding thread did not quit within 20 s")
		}
	}
	core.ShouldQuit = false
	fw := len(sim.TakeSends())
	c.Count("pipeline_interests", int64(sent))
	c.Count("pipeline_forwarded", int64(fw))
	c.Count("pipeline_face_teardowns", nChurn.Load())
	c.Distinct("pipeline|" + algo)
	c.Sample(map[string]any{"workload": "pipeline", "fib": algo, "threads": nT, "interests": sent, "forwarded": fw})
}

// workload 3: recorded histories checked for linearizability
type c16In struct {
	Op     string // add, remove, lookup
	Prefix string
	Face   uint64
	Cost   uint64
	Flags  uint64
	Name   string
}

func c16ModelState(routes map[string]map[uint64][2]uint64) string {
	ks := make([]string, 0, len(routes))
	for k := range routes {
		ks = append(ks, k)
	}
	sort.Strings(ks)
	var sb strings.Builder
	for _, k := range ks {
		fs := make([]int, 0)
		for f := range routes[k] {
			fs = append(fs, int(f))
		}
		sort.Ints(fs)
		fmt.Fprintf(&sb, "%s:", k)
		for _, f := range fs {
			v := routes[k][uint64(f)]
			fmt.Fprintf(&sb, "%d=%d/%d,", f, v[0], v[1])
		}
		sb.WriteString(";")
	}
	return sb.String()
}

func c16Parse(s string) map[string]map[uint64][2]uint64 {
	out := map[string]map[uint64][2]uint64{}
	for _, part := range strings.Split(s, ";") {
		if part == "" {
			continue
		}
		i := strings.Index(part, ":")
		k := part[:i]
		out[k] = map[uint64][2]uint64{}
		for _, fc := range strings.Split(part[i+1:], ",") {
			if fc == "" {
				continue
			}
			var f, cst, fl uint64
			fmt.Sscanf(fc, "%d=%d/%d", &f, &cst, &fl)
			out[k][f] = [2]uint64{cst, fl}
		}
	}
	return out
}

// lookup over the sequential model: flatten (child-inherit only, no capture) then LPM
func c16Lookup(routes map[string]map[uint64][2]uint64, name string) string {
	comps := strings.Split(strings.Trim(name, "/"), "/")
	for l := len(comps); l >= 1; l-- {
		p := "/" + strings.Join(comps[:l], "/")
		own, ok := routes[p]
		if !ok || len(own) == 0 {
			continue
		}
		hops := map[uint64]uint64{}
		for f, v := range own {
			hops[f] = v[0]
		}
		for a := l - 1; a >= 1; a-- {
			ap := "/" + strings.Join(comps[:a], "/")
			for f, v := range routes[ap] {
				if v[1]&1 != 0 {
					if c0, ok := hops[f]; !ok || v[0] < c0 {
						hops[f] = v[0]
					}
				}
			}
		}
		return hopsStr(hops)
	}
	return ""
}

var c16Model = porcupine.Model{
	Init: func() interface{} { return "" },
	Step: func(state, input, output interface{}) (bool, interface{}) {
		in := input.(c16In)
		st := c16Parse(state.(string))
		switch in.Op {
		case "add":
			if st[in.Prefix] == nil {
				st[in.Prefix] = map[uint64][2]uint64{}
			}
			st[in.Prefix][in.Face] = [2]uint64{in.Cost, in.Flags}
			return true, c16ModelState(st)
		case "remove":
			if st[in.Prefix] != nil {
				delete(st[in.Prefix], in.Face)
				if len(st[in.Prefix]) == 0 {
					delete(st, in.Prefix)
				}
			}
			return true, c16ModelState(st)
		default:
			return output.(string) == c16Lookup(st, in.Name), state
		}
	},
	Equal: func(a, b interface{}) bool { return a.(string) == b.(string) },
	DescribeOperation: func(input, output interface{}) string {
		in := input.(c16In)
		if in.Op == "lookup" {
			return fmt.Sprintf("lookup(%s) -> %v", in.Name, output)
		}
		return fmt.Sprintf("%s(%s, face %d, cost %d, flags %d)", in.Op, in.Prefix, in.Face, in.Cost, in.Flags)
	},
}

func c16History(c *h.Ctx, id string, r *rand.Rand) {
	c.Eval(1)
	algo := []string{"nametree", "hashtable"}[r.Intn(2)]
	c16Setup(algo, 1+r.Intn(3))
	clients := 2 + r.Intn(3)
	perClient := 6 + r.Intn(5)
	inherit := r.Intn(2) == 0
	// at least two concurrent writers whenever there are three clients; "hot" histories keep all
	// writers on one or two prefixes so that remove / re-add of the same entry collide
	writers := 1
	if clients >= 3 {
		writers = 2 + r.Intn(clients-2)
	}
	hotPrefixes := 3
	if r.Intn(2) == 0 {
		hotPrefixes = 1 + r.Intn(2)
	}
	var mu sync.Mutex
	var ops []porcupine.Operation
	t0 := time.Now()
	var wg sync.WaitGroup
	seeds := make([]int64, clients)
	for i := range seeds {
		seeds[i] = r.Int63()
	}
	start := make(chan struct{})
	for ci := 0; ci < clients; ci++ {
		wg.Add(1)
		go func(ci int) {
			defer wg.Done()
			rr := rand.New(rand.NewSource(seeds[ci]))
			<-start
			for k := 0; k < perClient; k++ {
				in := c16In{Prefix: c16Prefixes[rr.Intn(hotPrefixes)], Face: uint64(1 + rr.Intn(2)), Cost: uint64(rr.Intn(3))}
				if inherit {
					in.Flags = uint64(rr.Intn(2))
				}
				writer := ci < writers
				switch {
				case writer && rr.Intn(3) != 0:
					in.Op = "add"
				case writer:
					in.Op = "remove"
				default:
					in.Op, in.Name = "lookup", "/a/b/c/x"
					if rr.Intn(3) == 0 {
						in.Name = "/a/b/x"
					}
				}
				n, _ := enc.NameFromStr(in.Prefix)
				call := time.Since(t0).Nanoseconds()
				var out string
				switch in.Op {
				case "add":
					table.Rib.AddEncRoute(n, &table.Route{FaceID: in.Face, Origin: 0, Cost: in.Cost, Flags: in.Flags})
				case "remove":
					table.Rib.RemoveRouteEnc(n, in.Face, 0)
				default:
					ln, _ := enc.NameFromStr(in.Name)
					hm, dup := copyHops(table.FibStrategyTable.FindNextHopsEnc(ln))
					out = hopsStr(hm)
					if dup {
						out += "DUP"
					}
				}
				ret := time.Since(t0).Nanoseconds()
				mu.Lock()
				ops = append(ops, porcupine.Operation{ClientId: ci, Input: in, Call: call, Output: out, Return: ret})
				mu.Unlock()
				if rr.Intn(3) == 0 {
					runtime.Gosched()
				}
			}
		}(ci)
	}
	close(start)
	wg.Wait()
	// final lookups over the universe are part of the history
	for _, nm := range []string{"/a/x", "/a/b/x", "/a/b/c/x", "/d/x"} {
		ln, _ := enc.NameFromStr(nm)
		call := time.Since(t0).Nanoseconds()
		hm, _ := copyHops(table.FibStrategyTable.FindNextHopsEnc(ln))
		ret := time.Since(t0).Nanoseconds()
		ops = append(ops, porcupine.Operation{ClientId: clients, Input: c16In{Op: "lookup", Name: nm}, Call: call, Output: hopsStr(hm), Return: ret})
	}
	res, info := porcupine.CheckOperationsVerbose(c16Model, ops, 60*time.Second)
	c.Count("histories_checked", 1)
	overlap := 0
	for i := range ops {
		for j := i + 1; j < len(ops); j++ {
			if ops[i].ClientId != ops[j].ClientId && ops[i].Call < ops[j].Return && ops[j].Call < ops[i].Return {
				overlap++
			}
		}
	}
	if overlap >= 2 {
		c.Distinct(fmt.Sprintf("history|%s|clients=%d|inherit=%v|overlap>=%d", algo, clients, inherit, min(overlap/5*5, 20)))
	}
	switch res {
	case porcupine.Unknown:
		c.Inconclusive("porcupine timed out")
	case porcupine.Illegal:
		var desc []string
		sort.Slice(ops, func(i, j int) bool { return ops[i].Call < ops[j].Call })
		for _, o := range ops {
			desc = append(desc, fmt.Sprintf("client %d [%d,%d] %s", o.ClientId, o.Call, o.Return, c16Model.DescribeOperation(o.Input, o.Output)))
		}
		_ = info
		cls := "no-inheritance"
		if inherit {
			cls = "with-inheritance"
		}
		c.Violation("C16:not-linearizable:"+cls, id, "recorded history of concurrent route registrations/removals and lookups has no sequential explanation (a lookup saw a torn or impossible next-hop set, or the final tables match no order)",
			map[string]any{"fib": algo, "clients": clients, "history": desc})
	}
	c.Sample(map[string]any{"workload": "history", "fib": algo, "clients": clients, "ops": len(ops), "overlapping_pairs": overlap})
}

func c16Run(c *h.Ctx) {
	// the pipeline cases come first: they (re)install forwarding threads, which the daemon does
	// once at start-up; the client cases below leave management threads behind whose internal
	// faces must never see the thread table being replaced underneath them
	for k := 0; k < c.Pick(2, 20); k++ {
		id := fmt.Sprintf("pipeline%d", k)
		if c.Case(id) {
			c16Pipeline(c, id, c.Rng(id))
		}
	}
	for k := 0; k < c.Pick(3, 30); k++ {
		id := fmt.Sprintf("faceadds%d", k)
		if c.Case(id) {
			c16FaceAdds(c, id, c.Rng(id))
		}
	}
	for k := 0; k < c.Pick(60, 600); k++ {
		id := fmt.Sprintf("quiescent%d", k)
		if c.Case(id) {
			c16Quiescent(c, id, c.Rng(id))
		}
	}
	for k := 0; k < c.Pick(1, 8); k++ {
		id := fmt.Sprintf("bigbatch%d", k)
		if c.Case(id) {
			c16Big(c, id, c.Rng(id))
		}
	}
	n := c.Pick(6, 120)
	for k := 0; k < n; k++ {
		id := fmt.Sprintf("clients%d", k)
		if c16Poisoned {
			c.Note("batch_cut_short", "a deadlocked case left goroutines stuck; remaining cases of this batch were skipped")
			return
		}
		if c.Case(id) {
			c16Clients(c, id, c.Rng(id))
		}
	}
	for k := 0; k < c.Pick(400, 3000); k++ {
		id := fmt.Sprintf("hist%d", k)
		if c.Case(id) {
			c16History(c, id, c.Rng(id))
		}
	}
}

// ---- race report parsing (orchestrator side)

var raceFuncRe = regexp.MustCompile(`^  (\S+)\(\)$`)
var raceFileRe = regexp.MustCompile(`^      (\S+):\d+`)

type raceAccess struct {
	fn, file string
}

// c16SignalQuit sets the daemon's process-wide quit flag the way its own shutdown path does
// (fw/executor/yanfd.go: a plain, unsynchronised write while the threads are running). The flag is
// not one of the shared tables: a race report whose harness side is this function is listed as out
// of scope (see c16Post).
//
//go:noinline
func c16SignalQuit(v bool) { core.ShouldQuit = v }

// c16InScope: the access lies in the shared-table code the property names.
func c16InScope(a raceAccess) bool {
	f := a.file
	return strings.Contains(f, "/repo/fw/table/") || strings.HasSuffix(f, "/fw/face/table.go") || strings.Contains(f, "/repo/fw/dispatch/") || strings.HasSuffix(f, "/fw/mgmt/nlsr_readvertiser.go")
}

func c16Post(workDir string, m *h.Merged) {
	files, _ := filepath.Glob(filepath.Join(workDir, "*.race.*"))
	type rep struct {
		a, b raceAccess
		text string
	}
	pairs := map[string]*rep{}
	counts := map[string]int{}
	total := 0
	for _, f := range files {
		fh, err := os.Open(f)
		if err != nil {
			continue
		}
		sc := bufio.NewScanner(fh)
		sc.Buffer(make([]byte, 1<<20), 1<<24)
		var block []string
		flush := func() {
			if len(block) == 0 {
				return
			}
			total++
			// split into access stacks: sections starting with "Write at", "Read at", "Previous write at", "Previous read at"
			var accs []raceAccess
			var cur *raceAccess
			inAccess := false
			var pendingFn string
			for _, ln := range block {
				t := strings.TrimSpace(ln)
				if strings.HasPrefix(t, "Write at") || strings.HasPrefix(t, "Read at") || strings.HasPrefix(t, "Previous write at") || strings.HasPrefix(t, "Previous read at") ||
					strings.HasPrefix(t, "Atomic") || strings.HasPrefix(t, "Previous atomic") {
					accs = append(accs, raceAccess{})
					cur = &accs[len(accs)-1]
					inAccess = true
					pendingFn = ""
					continue
				}
				if strings.HasPrefix(t, "Goroutine ") {
					inAccess = false
					continue
				}
				if !inAccess || cur == nil || cur.fn != "" {
					continue
				}
				if mm := raceFuncRe.FindStringSubmatch(ln); mm != nil {
					pendingFn = mm[1]
					continue
				}
				if mm := raceFileRe.FindStringSubmatch(ln); mm != nil && pendingFn != "" {
					if strings.HasPrefix(pendingFn, "github.com/named-data/ndnd/") {
						cur.fn = strings.TrimPrefix(pendingFn, "github.com/named-data/ndnd/")
						cur.file = mm[1]
					} else if strings.HasPrefix(pendingFn, "verif/") {
						// the harness plays a table client (e.g. a forwarding thread using a lookup result)
						cur.fn = "harness:" + pendingFn[strings.LastIndex(pendingFn, ".")+1:]
						cur.file = mm[1]
					}
					pendingFn = ""
				}
			}
			if len(accs) >= 2 {
				a, b := accs[0], accs[1]
				if a.fn > b.fn {
					a, b = b, a
				}
				key := a.fn + " <-> " + b.fn
				counts[key]++
				if _, ok := pairs[key]; !ok {
					txt := strings.Join(block, "\n")
					if len(txt) > 3500 {
						txt = txt[:3500]
					}
					pairs[key] = &rep{a: a, b: b, text: txt}
				}
			}
			block = nil
		}
		for sc.Scan() {
			ln := sc.Text()
			if strings.HasPrefix(ln, "WARNING: DATA RACE") {
				flush()
				block = []string{ln}
				continue
			}
			if strings.HasPrefix(ln, "==================") {
				flush()
				continue
			}
			if block != nil {
				block = append(block, ln)
			}
		}
		flush()
		fh.Close()
	}
	m.Counters["race_reports_total"] = int64(total)
	inScope, outScope := 0, 0
	keys := make([]string, 0, len(pairs))
	for k := range pairs {
		keys = append(keys, k)
	}
	sort.Strings(keys)
	var outList []string
	for _, k := range keys {
		p := pairs[k]
		if (c16InScope(p.a) || c16InScope(p.b)) && p.a.fn != "harness:c16SignalQuit" && p.b.fn != "harness:c16SignalQuit" {
			inScope++
			m.Violations = append(m.Violations, h.Violation{Key: "C16:data-race:" + k, Case: "race", What: fmt.Sprintf("data race between %s and %s (%d reports)", p.a.fn, p.b.fn, counts[k]),
				Detail: map[string]any{"report": p.text, "reports_with_this_pair": counts[k]}})
			m.VioBatch = append(m.VioBatch, 0)
		} else {
			outScope++
			outList = append(outList, k)
		}
		m.Distinct["race-pair|"+k] = struct{}{}
	}
	m.Counters["race_pairs_in_scope"] = int64(inScope)
	m.Counters["race_pairs_out_of_scope"] = int64(outScope)
	if len(outList) > 0 {
		m.Notes["race_pairs_out_of_scope"] = strings.Join(outList, " ; ")
	}
	m.Notes["race_detector"] = fmt.Sprintf("children built with -race; %d report blocks parsed from %d log files", total, len(files))
}

func init() {
	h.Register(&h.Prop{
		ID: "C16", Level: "exploration", Race: true,
		Rule: "race-detector build; (1) 2..16 goroutines (GOMAXPROCS 2/4/16) issue RIB register/unregister, face teardown (FaceTable.Remove -> RIB clean-up), FIB insert/remove, strategy set/unset, listings and forwarder-style lookups (copy, sort by cost, read fields) on 4 nested prefixes x 3 faces, both FIBs; " +
			"(2) 4 real forwarding threads run and are fed Interests while a management-like goroutine mutates RIB/FIB and tears faces down; (3) 2-4 clients record call/return-stamped histories of register/unregister/lookup which porcupine checks against a sequential route-flattening + LPM model (final lookups included); " +
			"oracles: deduplicated race reports whose innermost repository frame lies in the shared-table code, process survival, no deadlock (60 s watchdog), linearizability; distinct = race pairs, (workload, FIB, goroutines, GOMAXPROCS), history classes with >=2 overlapping operations; quiescent: RIB writers, a strategy set/unset goroutine (mostly unsets that are logical no-ops) and lookups overlap on four prefixes; once all have finished the FIB must equal the flattening of the routes the RIB holds, lookups must agree, and the strategy table must hold the last command per prefix",
		Assumptions: []string{"every interleaving is sampled, not enumerated: the race detector's happens-before analysis does not need the bad interleaving to occur", "reports whose both sides lie outside fw/table, fw/face/table.go, fw/dispatch, fw/mgmt/nlsr_readvertiser.go and the lookup-result uses in fw/fw are listed as out of scope (statistics counters, harness)",
			"porcupine timeout (60 s) would be inconclusive"},
		Batches:  func(t bool) int { return 8 },
		Parallel: 4,
		ChildTimeoutS: func(t bool) int {
			if t {
				return 3000
			}
			return 600
		},
		Run:         c16Run,
		PostProcess: c16Post,
		MinDistinct: 6,
		Floors:      map[string]int64{"histories_checked": 100, "client_lookups": 1000, "pipeline_interests": 1000},
	})
}

// racePostDiagnostic counts race-detector report blocks for properties where they are diagnostics only.
func racePostDiagnostic(workDir string, m *h.Merged) {
	files, _ := filepath.Glob(filepath.Join(workDir, "*.race.*"))
	total := 0
	pairs := map[string]int{}
	for _, f := range files {
		b, err := os.ReadFile(f)
		if err != nil {
			continue
		}
		for _, blk := range strings.Split(string(b), "WARNING: DATA RACE")[1:] {
			total++
			var fns []string
			for _, ln := range strings.Split(blk, "\n") {
				if mm := raceFuncRe.FindStringSubmatch(ln); mm != nil && strings.HasPrefix(mm[1], "github.com/named-data/ndnd/") {
					fns = append(fns, strings.TrimPrefix(mm[1], "github.com/named-data/ndnd/"))
					if len(fns) == 2 {
						break
					}
				}
			}
			pairs[strings.Join(fns, " <-> ")]++
		}
	}
	m.Counters["race_reports_diagnostic"] = int64(total)
	if len(pairs) > 0 {
		var ks []string
		for k, v := range pairs {
			ks = append(ks, fmt.Sprintf("%s (%d)", k, v))
		}
		sort.Strings(ks)
		m.Notes["race_reports_diagnostic"] = strings.Join(ks, " ; ")
	}
}
