package props

import (
	"bytes"
	"fmt"
	"math/rand"
	"os"
	"sort"
	"strings"
	"time"

	"github.com/named-data/ndnd/fw/defn"
	fwfw "github.com/named-data/ndnd/fw/fw"
	"github.com/named-data/ndnd/fw/table"
	enc "github.com/named-data/ndnd/std/encoding"

	"verif/internal/fwsim"
	"verif/internal/gen"
	"verif/internal/h"
	"verif/internal/tlvwalk"
)

// Forwarder reference model and history runner shared by C01, C02, C08 (forwarder part) and C09.
// The model is written at the level of the property statements: what they pin down is
// asserted, what they leave open is accepted either way ("don't care").

const fwGuard = 20 * time.Millisecond

type fwFaceInfo struct {
	id    uint64
	local bool
	adhoc bool
}

type mIn struct {
	optional     bool     // the model is not sure the forwarder recorded this Interest (never a required copy)
	tokens       [][]byte // tokens this face supplied (first one first)
	nonce        uint32
	expLo, expHi time.Time
	createdStep  int
}

type mOut struct {
	nonce    uint32
	tLo, tHi time.Time
}

type mEntry struct {
	key        string
	name       enc.Name
	cbp, mbf   bool
	hint       enc.Name
	in         map[uint64]*mIn
	out        map[uint64]*mOut
	token      string // learned forwarder token (hex), "" unknown
	fresh      bool   // no Interest of this entry has been forwarded / recorded before (first Interest)
	everOut    bool   // some Interest of this entry has been observed going out on some face
	maybe      bool   // implementation may already have dropped this entry (reaped inside a guard band)
	tokenStale bool   // the learned token may belong to an entry instance the forwarder has already dropped
}

type fwModel struct {
	faces    map[uint64]*fwFaceInfo
	fib      *refFib
	regions  []enc.Name
	entries  map[string]*mEntry
	byToken  map[string]string    // token hex -> entry key
	dead     map[string]time.Time // name|nonce -> recorded (surely dead until +lifetime-guard)
	dnlLife  time.Duration
	csWires  map[string][]byte // data name -> last wire inserted
	csAdmit  bool
	csServe  bool
	strategy string
}

func entryKey(name enc.Name, cbp, mbf bool, hint enc.Name) string {
	hk := "-"
	if hint != nil {
		hk = nkey(hint)
	}
	return fmt.Sprintf("%s|%v|%v|%s", nkey(name), cbp, mbf, hk)
}

func isLocalhost(n enc.Name) bool {
	return len(n) > 0 && string(n[0].Val) == "localhost"
}

// ---- steps

type fwStep struct {
	Kind          string   // interest, data, fib, strategy, sleep, reap
	Face          uint64   `json:",omitempty"`
	Name          string   `json:",omitempty"`
	CBP           bool     `json:",omitempty"`
	MBF           bool     `json:",omitempty"`
	Hints         []string `json:",omitempty"`
	Nonce         *uint32  `json:",omitempty"`
	HopLimit      *int     `json:",omitempty"`
	LifeMs        *int     `json:",omitempty"`
	Token         string   `json:",omitempty"` // hex
	NextHop       *uint64  `json:",omitempty"`
	FreshMs       *int     `json:",omitempty"`
	TokMode       string   `json:",omitempty"`
	FibOp         string   `json:",omitempty"`
	Cost          uint64   `json:",omitempty"`
	Strategy      string   `json:",omitempty"`
	SleepMs       int      `json:",omitempty"`
	ClaimedInFace *uint64  `json:",omitempty"` // IncomingFaceId header supplied by the peer (must be ignored)
	Sends         []string `json:",omitempty"` // observed (filled after the step)
	name          enc.Name
	hints         []enc.Name
	token         []byte
}

func buildInterestWire(st *fwStep) []byte {
	var body []byte
	body = append(body, st.name.Bytes()...)
	if st.CBP {
		body = append(body, tlvwalk.TLV(0x21, nil)...)
	}
	if st.MBF {
		body = append(body, tlvwalk.TLV(0x12, nil)...)
	}
	if len(st.hints) > 0 {
		var hb []byte
		for _, hn := range st.hints {
			hb = append(hb, hn.Bytes()...)
		}
		body = append(body, tlvwalk.TLV(0x1e, hb)...)
	}
	if st.Nonce != nil {
		v := *st.Nonce
		body = append(body, tlvwalk.TLV(0x0a, []byte{byte(v >> 24), byte(v >> 16), byte(v >> 8), byte(v)})...)
	}
	if st.LifeMs != nil {
		body = append(body, tlvwalk.TLV(0x0c, natBytes(uint64(*st.LifeMs)))...)
	}
	if st.HopLimit != nil {
		body = append(body, tlvwalk.TLV(0x22, []byte{byte(*st.HopLimit)})...)
	}
	return tlvwalk.TLV(5, body)
}

// interestView parses what a recording face captured, without the code under test.
type pktView struct {
	kind     string
	name     enc.Name
	nonce    *uint32
	hopLimit *int
}

func viewPacket(b []byte) (*pktView, error) {
	root, err := tlvwalk.One(b, tlvwalk.PacketNest, false)
	if err != nil {
		return nil, err
	}
	v := &pktView{}
	switch root.Type {
	case 5:
		v.kind = "interest"
	case 6:
		v.kind = "data"
	default:
		return nil, fmt.Errorf("type %d", root.Type)
	}
	nm := root.Child(7)
	if nm == nil {
		return nil, fmt.Errorf("no name")
	}
	for _, c := range nm.Children {
		v.name = append(v.name, enc.Component{Typ: enc.TLNum(c.Type), Val: append([]byte{}, b[c.ValOff:c.End]...)})
	}
	if n := root.Child(0x0a); n != nil && n.Len() == 4 {
		x := uint32(b[n.ValOff])<<24 | uint32(b[n.ValOff+1])<<16 | uint32(b[n.ValOff+2])<<8 | uint32(b[n.ValOff+3])
		v.nonce = &x
	}
	if n := root.Child(0x22); n != nil && n.Len() == 1 {
		x := int(b[n.ValOff])
		v.hopLimit = &x
	}
	return v, nil
}

// ---- history generation + execution

type fwProfile struct {
	prop      string
	localhost bool // mix /localhost names in
	shortLife bool // use short lifetimes + sleeps + reaps
}

type fwRun struct {
	spoofRng   *rand.Rand
	c          *h.Ctx
	id         string
	prop       string
	r          *rand.Rand
	sim        *fwsim.Sim
	m          *fwModel
	hist       []*fwStep
	u          *gen.Universe
	opts       fwsim.Options
	seenTokens [][]byte // forwarder tokens observed on forwarded Interests
	nAssert    int
	stop       bool
	others     []string
}

func (fr *fwRun) fail(prop, key, what string, extra map[string]any) {
	if prop != fr.prop {
		// another property's subject: that property's own check decides it
		fr.others = append(fr.others, fmt.Sprintf("step %d: %s", len(fr.hist), key))
		return
	}
	d := map[string]any{"other_properties_concerned": fr.others, "model_pending": fr.pendingDesc(), "options": fr.opts, "strategy_at_root": fr.m.strategy, "history": fr.hist, "faces": fr.faceDesc()}
	for k, v := range extra {
		d[k] = v
	}
	fr.c.Violation(key, fr.id, what, d)
	fr.stop = true
}

func (fr *fwRun) faceDesc() []string {
	var out []string
	var ids []int
	for id := range fr.m.faces {
		ids = append(ids, int(id))
	}
	sort.Ints(ids)
	for _, id := range ids {
		f := fr.m.faces[uint64(id)]
		s := fmt.Sprintf("%d:", id)
		if f.local {
			s += "local"
		} else {
			s += "non-local"
		}
		if f.adhoc {
			s += ",ad-hoc"
		}
		out = append(out, s)
	}
	return out
}

func newFwRun(c *h.Ctx, id string, r *rand.Rand, prop string) *fwRun {
	fr := &fwRun{c: c, id: id, prop: prop, r: r}
	o := fwsim.Options{CsAdmit: r.Intn(3) != 0, CsCapacity: 2 + r.Intn(6), DnlLifetimeMs: 6000, FibAlgo: []string{"nametree", "hashtable"}[r.Intn(2)], M: 1 + r.Intn(4)}
	o.CsServe = o.CsAdmit && r.Intn(4) != 0
	if prop == "C08" {
		o.DnlLifetimeMs = 60
		o.CsCapacity = 2 + r.Intn(3)
	}
	if r.Intn(3) == 0 {
		// producer regions: one, two nested ones in either order, or two unrelated ones
		o.Regions = [][]string{{"/region"}, {"/region/x", "/region"}, {"/region", "/region/x"}, {"/region/x", "/other"}}[r.Intn(4)]
	}
	fr.opts = o
	fr.sim = fwsim.New(o)
	fr.m = &fwModel{faces: map[uint64]*fwFaceInfo{}, fib: newRefFib(), entries: map[string]*mEntry{}, byToken: map[string]string{},
		dead: map[string]time.Time{}, dnlLife: time.Duration(o.DnlLifetimeMs) * time.Millisecond, csWires: map[string][]byte{}, csAdmit: o.CsAdmit, csServe: o.CsServe, strategy: "best-route"}
	for _, rg := range o.Regions {
		n, _ := enc.NameFromStr(rg)
		fr.m.regions = append(fr.m.regions, n)
	}
	// faces: 2 local, 2-3 non-local, one ad-hoc non-local
	add := func(id uint64, local bool, lt defn.LinkType) {
		fr.sim.AddFace(id, local, lt)
		fr.m.faces[id] = &fwFaceInfo{id: id, local: local, adhoc: lt == defn.AdHoc}
	}
	add(1, true, defn.PointToPoint)
	add(2, true, defn.PointToPoint)
	add(3, false, defn.PointToPoint)
	add(4, false, defn.PointToPoint)
	add(5, false, defn.AdHoc)
	if r.Intn(2) == 0 {
		add(6, false, defn.PointToPoint)
	}
	fr.u = gen.NewUniverse(3, false)
	return fr
}

func (fr *fwRun) pickName(localhost bool) enc.Name {
	n := fr.u.Pick(fr.r)
	if len(n) == 0 {
		// the empty name "/" is a legal Interest/Data name (with CanBePrefix it matches everything,
		// /localhost content included): keep it in the mix, but rare
		if fr.r.Intn(4) == 0 {
			return enc.Name{}
		}
		n = fr.u.PickDepth(fr.r, 1)
	}
	if localhost && fr.r.Intn(3) == 0 {
		n = append(enc.Name{enc.NewStringComponent(8, "localhost")}, n...)
	} else if fr.r.Intn(14) == 0 {
		// near misses of the scope prefix are ordinary names
		n = append(enc.Name{enc.NewStringComponent(8, fwNearLocalhost[fr.r.Intn(len(fwNearLocalhost))])}, n...)
	}
	return n
}

var fwNearLocalhost = []string{"localhostel", "localhos", "localhost-gw", "Localhost"}

func (fr *fwRun) pickFace() uint64 {
	ids := make([]int, 0, len(fr.m.faces))
	for id := range fr.m.faces {
		ids = append(ids, int(id))
	}
	sort.Ints(ids)
	return uint64(ids[fr.r.Intn(len(ids))])
}

var fwStrategyNames = map[string]string{"best-route": "/localhost/nfd/strategy/best-route/v=1", "multicast": "/localhost/nfd/strategy/multicast/v=1"}

// run generates and executes one history.
func (fr *fwRun) run(p fwProfile) {
	r := fr.r
	// initial FIB and strategy
	if r.Intn(2) == 0 {
		fr.m.strategy = "multicast"
		sn, _ := enc.NameFromStr(fwStrategyNames["multicast"])
		fr.doStep(&fwStep{Kind: "strategy", Name: "/", name: enc.Name{}, Strategy: sn.String()})
	}
	nRoutes := 1 + r.Intn(4)
	for i := 0; i < nRoutes; i++ {
		n := fr.u.Pick(r)
		if p.localhost && r.Intn(3) == 0 {
			n = append(enc.Name{enc.NewStringComponent(8, "localhost")}, fr.u.PickDepth(r, r.Intn(2))...)
		}
		if r.Intn(4) == 0 {
			n = enc.Name{} // default route
		} else if r.Intn(8) == 0 {
			n = enc.Name{enc.NewStringComponent(8, fwNearLocalhost[r.Intn(len(fwNearLocalhost))])}
		}
		for k := 1 + r.Intn(3); k > 0; k-- {
			fr.doStep(&fwStep{Kind: "fib", FibOp: "insert", Name: n.String(), name: n, Face: fr.pickFace(), Cost: uint64([]int{0, 1, 5, 10}[r.Intn(4)])})
		}
	}
	if len(fr.opts.Regions) > 0 && r.Intn(2) == 0 {
		n, _ := enc.NameFromStr("/hint")
		fr.doStep(&fwStep{Kind: "fib", FibOp: "insert", Name: n.String(), name: n, Face: 3 + uint64(r.Intn(2)), Cost: 1})
	}
	if len(fr.opts.Regions) > 0 && r.Intn(2) == 0 {
		// a route that a hint under /region would select if the hint were (wrongly) used
		n, _ := enc.NameFromStr("/region")
		fr.doStep(&fwStep{Kind: "fib", FibOp: "insert", Name: n.String(), name: n, Face: 3 + uint64(r.Intn(2)), Cost: 1})
	}
	nSteps := 20 + r.Intn(35)
	nonces := []uint32{11, 22, 33, 44, 55, 66}
	for s := 0; s < nSteps && !fr.stop; s++ {
		switch k := r.Intn(100); {
		case k < 50:
			st := &fwStep{Kind: "interest", Face: fr.pickFace()}
			st.name = fr.pickName(p.localhost)
			// bias towards names already pending (aggregation, duplicates, retransmissions)
			if len(fr.m.entries) > 0 && r.Intn(2) == 0 {
				ks := sortedKeys(fr.m.entries)
				e := fr.m.entries[ks[r.Intn(len(ks))]]
				st.name = e.name.Clone()
				st.CBP, st.MBF = e.cbp, e.mbf
				if r.Intn(5) == 0 {
					st.CBP = !st.CBP
				}
			} else {
				st.CBP, st.MBF = r.Intn(3) == 0, r.Intn(5) == 0
			}
			st.Name = st.name.String()
			if r.Intn(25) != 0 {
				v := nonces[r.Intn(len(nonces))]
				if r.Intn(3) == 0 {
					v = r.Uint32()
				}
				st.Nonce = &v
			}
			if r.Intn(4) == 0 {
				v := []int{0, 1, 2, 255}[r.Intn(4)]
				st.HopLimit = &v
			}
			if p.prop == "C08" || (p.shortLife && r.Intn(2) == 0) {
				v := []int{20, 40}[r.Intn(2)]
				st.LifeMs = &v
			} else if r.Intn(3) == 0 {
				v := 10000
				st.LifeMs = &v
			}
			switch r.Intn(6) {
			case 0:
				st.token = []byte{byte(0xA0 + st.Face)}
			case 1:
				st.token = []byte{1, 2, 3, byte(st.Face)}
			case 2:
				st.token = []byte{0, 9, 8, 7, 6, byte(st.Face)}
			case 3:
				st.token = bytes.Repeat([]byte{byte(0xC0 + st.Face)}, 32)
			}
			st.Token = h.HexFull(st.token)
			if r.Intn(8) == 0 {
				hn, _ := enc.NameFromStr([]string{"/hint", "/region/x", "/hint/y", "/region/z", "/region"}[r.Intn(5)])
				st.hints = []enc.Name{hn}
				if r.Intn(3) == 0 {
					h2, _ := enc.NameFromStr("/region/z")
					st.hints = append(st.hints, h2)
				}
				for _, x := range st.hints {
					st.Hints = append(st.Hints, x.String())
				}
			}
			if r.Intn(14) == 0 {
				v := []uint64{3, 4, 1, 99, st.Face}[r.Intn(5)]
				st.NextHop = &v
			}
			fr.doStep(st)
		case k < 80:
			st := &fwStep{Kind: "data", Face: fr.pickFace()}
			st.name = fr.pickName(p.localhost)
			if len(fr.m.entries) > 0 && r.Intn(5) != 0 {
				ks := sortedKeys(fr.m.entries)
				e := fr.m.entries[ks[r.Intn(len(ks))]]
				st.name = e.name.Clone()
				if e.cbp && r.Intn(2) == 0 {
					st.name = fr.u.Extend(r, st.name, 2)
				} else if r.Intn(6) == 0 {
					st.name = fr.u.Extend(r, st.name, 1)
				}
				// come from an upstream face most of the time
				if len(e.out) > 0 && r.Intn(4) != 0 {
					var fs []int
					for f := range e.out {
						fs = append(fs, int(f))
					}
					sort.Ints(fs)
					st.Face = uint64(fs[r.Intn(len(fs))])
				}
				if e.token != "" && r.Intn(3) != 0 {
					st.TokMode = "echo"
					st.token = hexBytes(e.token)
				}
			}
			if len(st.name) == 0 {
				// Data always carries at least one name component (a producer's Data named "/" is
				// not even dispatched to a forwarding thread by the link service)
				st.name = fr.u.Extend(r, st.name, 2)
			}
			st.Name = st.name.String()
			if st.TokMode == "" {
				switch r.Intn(8) {
				case 0:
					st.TokMode, st.token = "foreign6", []byte{0, 0, 0xde, 0xad, 0xbe, byte(r.Intn(256))}
				case 1:
					st.TokMode, st.token = "short4", []byte{1, 2, 3, 4}
				case 2:
					if len(fr.seenTokens) > 0 {
						st.TokMode, st.token = "old-echo", fr.seenTokens[r.Intn(len(fr.seenTokens))]
					}
				default:
					st.TokMode = "none"
				}
			}
			st.Token = h.HexFull(st.token)
			if r.Intn(2) == 0 {
				v := []int{0, 3600000}[r.Intn(2)]
				st.FreshMs = &v
			}
			fr.doStep(st)
		case k < 86:
			n := fr.u.Pick(r)
			op := "insert"
			if r.Intn(3) == 0 {
				op = "remove"
			}
			fr.doStep(&fwStep{Kind: "fib", FibOp: op, Name: n.String(), name: n, Face: fr.pickFace(), Cost: uint64(r.Intn(6))})
		case k < 89:
			n := fr.u.Pick(r)
			if r.Intn(2) == 0 {
				n = enc.Name{}
			}
			which := []string{"best-route", "multicast"}[r.Intn(2)]
			fr.doStep(&fwStep{Kind: "strategy", Name: n.String(), name: n, Strategy: fwStrategyNames[which]})
		case k < 94:
			if p.shortLife {
				fr.doStep(&fwStep{Kind: "sleep", SleepMs: []int{5, 70, 70}[r.Intn(3)]})
			}
			fr.doStep(&fwStep{Kind: "reap"})
		case k < 97:
			fr.motif(p, nonces)
		default:
			if p.prop == "C02" && r.Intn(3) == 0 {
				fr.doStep(&fwStep{Kind: "sleep", SleepMs: 620}) // cross the suppression interval
			}
		}
	}
}

// motif plays a short directed sequence that random steps produce only rarely: the life of one
// PIT entry across satisfaction, re-use before the reaper runs, expiry and a late looped copy.
// The model decides every step exactly as for random steps.
func (fr *fwRun) motif(p fwProfile, nonces []uint32) {
	r := fr.r
	n := fr.pickName(false)
	if len(n) == 0 {
		n = fr.u.PickDepth(r, 1)
	}
	f1, f2 := fr.pickFace(), fr.pickFace()
	for tries := 0; f2 == f1 && tries < 8; tries++ {
		f2 = fr.pickFace()
	}
	x1, x2 := nonces[r.Intn(len(nonces))], r.Uint32()
	short := []int{20, 40}[r.Intn(2)]
	mk := func(face uint64, nonce uint32, mbf bool, life *int) *fwStep {
		if life == nil && p.prop == "C08" {
			life = &short // the C08 quiescence check relies on every lifetime being short
		}
		v := nonce
		return &fwStep{Kind: "interest", Face: face, name: n.Clone(), Name: n.String(), MBF: mbf, Nonce: &v, LifeMs: life}
	}
	upstream := func() uint64 { // a face the Interest was sent to, else any face
		for _, e := range fr.m.entries {
			if refNameCompare(e.name, n) == 0 {
				var fs []int
				for f := range e.out {
					fs = append(fs, int(f))
				}
				if len(fs) > 0 {
					sort.Ints(fs)
					return uint64(fs[r.Intn(len(fs))])
				}
			}
		}
		return fr.pickFace()
	}
	data := func(fresh *int) {
		st := &fwStep{Kind: "data", Face: upstream(), name: n.Clone(), Name: n.String(), TokMode: "none", FreshMs: fresh}
		fr.doStep(st)
	}
	switch r.Intn(3) {
	case 0: // satisfied entry re-used before the reaper runs, then expiry, then a looped copy
		fr.doStep(mk(f1, x1, false, nil))
		if fr.stop {
			return
		}
		data(nil)
		if fr.stop {
			return
		}
		fr.doStep(mk(f1, x2, true, &short))
		if fr.stop {
			return
		}
		fr.doStep(&fwStep{Kind: "sleep", SleepMs: 70})
		fr.doStep(&fwStep{Kind: "reap"})
		if fr.stop {
			return
		}
		fr.doStep(mk(f2, x2, true, nil))
	case 1: // expiry, then the same nonce from another face
		fr.doStep(mk(f1, x2, false, &short))
		if fr.stop {
			return
		}
		fr.doStep(&fwStep{Kind: "sleep", SleepMs: 70})
		fr.doStep(&fwStep{Kind: "reap"})
		if fr.stop {
			return
		}
		fr.doStep(mk(f2, x2, false, nil))
	default: // answered from the cache, then the same Data arrives again
		fresh := 3600000
		fr.doStep(mk(f1, x1, false, nil))
		if fr.stop {
			return
		}
		data(&fresh)
		if fr.stop {
			return
		}
		fr.doStep(mk(f2, x2, false, nil))
		if fr.stop {
			return
		}
		data(&fresh)
	}
	fr.c.Count("motifs_played", 1)
}

// spoofHeader: one packet in twelve carries an IncomingFaceId link-protocol header naming a local
// face, as a hostile peer could send it; the forwarder must take no notice (the model does not).
func (fr *fwRun) spoofHeader(st *fwStep) *uint64 {
	if fr.spoofRng == nil {
		fr.spoofRng = fr.c.Rng(fr.id + "/spoof")
	}
	if fr.spoofRng.Intn(12) != 0 {
		return nil
	}
	v := uint64(1 + fr.spoofRng.Intn(2))
	st.ClaimedInFace = &v
	fr.c.Count("packets_with_peer_supplied_incoming_face_id", 1)
	return &v
}

func hexBytes(s string) []byte {
	b := make([]byte, len(s)/2)
	for i := range b {
		fmt.Sscanf(s[2*i:2*i+2], "%02x", &b[i])
	}
	return b
}

// lookupName: first forwarding hint iff hints are present and none is in the producer region.
func (m *fwModel) lookupName(name enc.Name, hints []enc.Name) (enc.Name, enc.Name) {
	if len(hints) == 0 {
		return name, nil
	}
	for _, hn := range hints {
		for _, rg := range m.regions {
			if refIsPrefix(rg, hn) {
				return name, nil
			}
		}
	}
	return hints[0], hints[0]
}

func (m *fwModel) strategyFor(name enc.Name) string {
	s := m.fib.lpmStrategy(name)
	if s != nil && strings.Contains(s.String(), "multicast") {
		return "multicast"
	}
	return "best-route"
}

func sendDesc(s fwsim.Send) string {
	v, err := viewPacket(s.Raw)
	nm := "?"
	if err == nil {
		nm = v.name.String()
	}
	return fmt.Sprintf("%s->face%d %s token=%x", s.Kind, s.Face, nm, s.Token)
}

// doStep executes one step on the real forwarder and runs the monitors.
func (fr *fwRun) doStep(st *fwStep) {
	if fr.stop {
		return
	}
	fr.hist = append(fr.hist, st)
	fr.sim.Step = len(fr.hist)
	m := fr.m
	var before table.VerifPitCsInfo
	if fr.prop == "C09" || fr.prop == "C08" {
		before = table.VerifPitCsStats(fwfw.VerifPitCs(fr.sim.T))
	}
	switch st.Kind {
	case "fib":
		if st.FibOp == "insert" {
			fr.sim.Fib.InsertNextHopEnc(st.name.Clone(), st.Face, st.Cost)
			m.fib.get(st.name, true).hops[st.Face] = st.Cost
		} else {
			fr.sim.Fib.RemoveNextHopEnc(st.name.Clone(), st.Face)
			if e := m.fib.get(st.name, false); e != nil {
				delete(e.hops, st.Face)
				m.fib.gc(st.name)
			}
		}
	case "strategy":
		sn, _ := enc.NameFromStr(st.Strategy)
		fr.sim.Fib.SetStrategyEnc(st.name.Clone(), sn)
		m.fib.get(st.name, true).strat = sn
		if len(st.name) == 0 {
			m.strategy = st.Strategy
		}
	case "sleep":
		time.Sleep(time.Duration(st.SleepMs) * time.Millisecond)
	case "reap":
		v0 := time.Now()
		if pi := h.Guard(func() { fr.sim.Reap() }); pi != nil {
			fr.fail(fr.prop, fr.prop+":panic:reap:"+pi.Frame+":"+pi.Class, "maintenance panicked: "+pi.Value, nil)
			return
		}
		v1 := time.Now()
		fr.modelReap(v0, v1)
	case "interest":
		fr.stepInterest(st)
	case "data":
		fr.stepData(st)
	}
	if os.Getenv("VERIF_DEBUG") != "" {
		info := table.VerifPitCsStats(fwfw.VerifPitCs(fr.sim.T))
		fmt.Fprintf(os.Stderr, "DEBUG step %d %s %s face=%d sends=%v\n   impl PIT=%v notqueued=%d\n   model=%v\n", len(fr.hist), st.Kind, st.Name, st.Face, st.Sends, info.PitEntryNames, info.PitNotQueued, fr.pendingDesc())
	}
	if fr.stop {
		return
	}
	if fr.prop == "C09" {
		fr.c09After(st, before)
	}
	if fr.prop == "C08" {
		fr.c08After(st)
	}
}

func (fr *fwRun) modelReap(v0, v1 time.Time) {
	m := fr.m
	for k, e := range m.entries {
		if len(e.in) == 0 && len(e.out) == 0 {
			if e.token != "" {
				delete(m.byToken, e.token)
			}
			delete(m.entries, k)
			continue
		}
		all, any := true, false
		for _, ir := range e.in {
			if ir.expHi.Add(fwGuard).Before(v0) {
				any = true
			} else {
				all = false
				if !ir.expLo.After(v1.Add(fwGuard)) {
					any = true // inside the band
				}
			}
		}
		if len(e.in) == 0 {
			all = false
		}
		if all {
			// surely expired: the entry is gone; its out-record nonces are dead
			for _, o := range e.out {
				m.dead[fmt.Sprintf("%s|%d", nkey(e.name), o.nonce)] = v1
			}
			if e.token != "" {
				delete(m.byToken, e.token)
			}
			delete(m.entries, k)
		} else if any {
			e.maybe = true
			e.tokenStale = true
		}
	}
}

func (fr *fwRun) record(st *fwStep, sends []fwsim.Send) {
	for _, s := range sends {
		st.Sends = append(st.Sends, sendDesc(s))
	}
}

// ---- INTEREST

func (fr *fwRun) stepInterest(st *fwStep) {
	m := fr.m
	F := m.faces[st.Face]
	wire := buildInterestWire(st)
	pkt, err := fr.sim.IngestSpoof(wire, st.Face, st.token, st.NextHop, fr.spoofHeader(st))
	if err != nil {
		fr.c.Inconclusive("harness Interest was not queued by the link service: " + err.Error())
		fr.stop = true
		return
	}
	fr.c.Count("packets_through_link_service_ingress", 1)
	dnlHas := false
	if st.Nonce != nil {
		dnlHas = fwfw.VerifDnlHas(fr.sim.T, st.name, *st.Nonce)
	}
	t0 := time.Now()
	if pi := h.Guard(func() { fr.sim.Interest(pkt) }); pi != nil {
		fr.fail(fr.prop, fr.prop+":panic:interest:"+pi.Frame+":"+pi.Class, "Interest pipeline panicked: "+pi.Value, nil)
		return
	}
	t1 := time.Now()
	sends := fr.sim.TakeSends()
	fr.record(st, sends)
	var iS, dS []fwsim.Send
	for _, s := range sends {
		if s.Kind == "interest" {
			iS = append(iS, s)
		} else {
			dS = append(dS, s)
		}
	}
	// none: the statement says this Interest is not forwarded. Returns true when the forwarder
	// indeed did nothing (the step is over); when it did send something, C02 decides on that and
	// the model goes on as if the Interest had been accepted, so that it keeps tracking the forwarder.
	none := func(reason, keyC02 string) bool {
		fr.nAssert++
		if len(iS) > 0 {
			fr.fail("C02", "C02:forwarded-although:"+keyC02, fmt.Sprintf("Interest %s was forwarded (%v) although %s", st.Name, st.Sends, reason), nil)
		}
		return len(sends) == 0
	}
	// ---- statement-level drops
	if st.HopLimit != nil && *st.HopLimit == 0 {
		fr.c.Distinct("I|drop|hoplimit0")
		if none("it arrived with hop limit zero", "hop-limit-zero") || fr.stop {
			return
		}
	}
	if isLocalhost(st.name) && !F.local {
		fr.c.Distinct("I|drop|localhost-nonlocal")
		if len(sends) > 0 {
			fr.fail("C09", "C09:localhost-interest-accepted-from-nonlocal", fmt.Sprintf("/localhost Interest from non-local face %d caused %v", st.Face, st.Sends), nil)
		}
		if none("a /localhost Interest arrived on a non-local face", "localhost-from-nonlocal") || fr.stop {
			return
		}
	}
	if st.Nonce == nil {
		fr.c.Distinct("I|drop|no-nonce")
		none("it carries no nonce", "no-nonce")
		return // without a nonce nothing can be tracked
	}
	nonce := *st.Nonce
	lookup, fh := m.lookupName(st.name, st.hints)
	key := entryKey(st.name, st.CBP, st.MBF, fh)
	e := m.entries[key]
	deadKey := fmt.Sprintf("%s|%d", nkey(st.name), nonce)
	if dt, ok := m.dead[deadKey]; ok && t1.Before(dt.Add(m.dnlLife).Add(-fwGuard)) {
		fr.c.Distinct("I|drop|dead-nonce")
		if none("its nonce is recorded as dead (an Interest with this name and nonce was satisfied or expired)", "dead-nonce") || fr.stop {
			return
		}
	}
	if dnlHas {
		// the implementation recorded this nonce as dead for a reason the statement leaves open:
		// not forwarding is allowed; nothing else may happen
		fr.c.Distinct("I|drop|dnl")
		if len(sends) == 0 {
			return
		}
		none("the forwarder's dead-nonce list holds its nonce", "dead-nonce-list")
		if fr.stop {
			return
		}
	}
	if e != nil {
		for f, ir := range e.in {
			if f != st.Face && ir.nonce == nonce {
				if !e.maybe && ir.expLo.After(t1.Add(fwGuard)) {
					fr.c.Distinct("I|drop|duplicate-nonce")
					if none(fmt.Sprintf("it repeats the nonce of the Interest still pending from face %d", f), "duplicate-nonce") || fr.stop {
						return
					}
					break
				}
				// uncertain whether that record is still pending: either outcome is accepted; if the
				// forwarder did nothing we cannot tell whether it recorded this Interest
				if len(sends) == 0 {
					fr.c.Distinct("I|dontcare|duplicate-maybe")
					life := 4000 * time.Millisecond
					if st.LifeMs != nil {
						life = time.Duration(*st.LifeMs) * time.Millisecond
					}
					if old, ok := e.in[st.Face]; ok {
						old.tokens = append(old.tokens, st.token)
						if t1.Add(life).After(old.expHi) {
							old.expHi = t1.Add(life)
						}
					} else {
						e.in[st.Face] = &mIn{optional: true, tokens: [][]byte{st.token}, nonce: nonce, expLo: t0, expHi: t1.Add(life), createdStep: len(fr.hist)}
					}
					return
				}
			}
		}
	}
	// ---- accepted: record the in-record
	if e == nil {
		e = &mEntry{key: key, name: st.name.Clone(), cbp: st.CBP, mbf: st.MBF, hint: fh, in: map[uint64]*mIn{}, out: map[uint64]*mOut{}, fresh: true}
		m.entries[key] = e
	}
	life := 4000 * time.Millisecond
	if st.LifeMs != nil {
		life = time.Duration(*st.LifeMs) * time.Millisecond
	}
	ir, existed := e.in[st.Face]
	if !existed {
		ir = &mIn{createdStep: len(fr.hist)}
		e.in[st.Face] = ir
		ir.tokens = [][]byte{st.token}
	} else if !bytes.Equal(ir.tokens[0], st.token) {
		ir.tokens = append(ir.tokens, st.token) // which token a re-expressed Interest's face "supplied" is left open
	}
	ir.optional = false // the forwarder accepted this Interest: the face is recorded now
	// certainly pending until the latest Interest's lifetime ends; possibly pending until the
	// longest lifetime among the Interests this face expressed ends (which one governs is left open)
	ir.nonce, ir.expLo = nonce, t0.Add(life)
	if t1.Add(life).After(ir.expHi) {
		ir.expHi = t1.Add(life)
	}
	wasFresh := e.fresh
	e.fresh = false

	// ---- answered from the cache?
	if len(dS) > 0 {
		fr.nAssert++
		fr.c.Distinct(fmt.Sprintf("I|cache-answer|existed=%v", existed))
		if !m.csServe {
			fr.fail("C01", "C01:cache-answer-while-serving-disabled", fmt.Sprintf("Data %v was emitted for an Interest although the cache does not serve", st.Sends), nil)
			return
		}
		if len(dS) != 1 || len(iS) != 0 {
			fr.fail("C01", "C01:cache-answer-not-single", fmt.Sprintf("an Interest answered from the cache produced %v (exactly one Data and no Interest expected)", st.Sends), nil)
			return
		}
		s := dS[0]
		if s.Face != st.Face {
			fr.fail("C01", "C01:cache-answer-wrong-face", fmt.Sprintf("cached Data went to face %d, the Interest came from face %d", s.Face, st.Face), nil)
			return
		}
		okTok := false
		for _, t := range ir.tokens {
			if bytes.Equal(t, s.Token) || (len(t) == 0 && len(s.Token) == 0) {
				okTok = true
			}
		}
		if !okTok {
			fr.fail("C01", "C01:cache-answer-wrong-token", fmt.Sprintf("cached Data carries PIT token %x, the Interest's face supplied %x", s.Token, ir.tokens), nil)
			return
		}
		v, err := viewPacket(s.Raw)
		if err != nil || v.kind != "data" || !(refNameCompare(v.name, st.name) == 0 || (st.CBP && refIsPrefix(st.name, v.name))) {
			fr.fail("C01", "C01:cache-answer-does-not-satisfy", fmt.Sprintf("cached Data %v does not satisfy Interest %s (CanBePrefix=%v)", st.Sends, st.Name, st.CBP), nil)
			return
		}
		if w, ok := m.csWires[nkey(v.name)]; !ok || !bytes.Equal(w, s.Raw) {
			fr.fail("C01", "C01:cache-answer-bytes", "cached Data bytes differ from the packet most recently received under that name", nil)
			return
		}
		if isLocalhost(v.name) && !F.local {
			fr.fail("C09", "C09:localhost-data-to-nonlocal", "cached /localhost Data sent to a non-local face", nil)
		}
		delete(e.in, st.Face) // consumed; an entry left without records disappears at the next maintenance tick
		return
	}

	// ---- forwarding decision
	strat := m.strategyFor(st.name)
	hlAfter := -1
	if st.HopLimit != nil {
		hlAfter = *st.HopLimit - 1
	}
	var allowed map[uint64]uint64
	if st.NextHop != nil {
		allowed = map[uint64]uint64{*st.NextHop: 0}
	} else {
		allowed = m.fib.lpmHops(lookup)
	}
	// every emitted copy
	perFace := map[uint64]int{}
	for _, s := range iS {
		perFace[s.Face]++
		G := m.faces[s.Face]
		if _, ok := allowed[s.Face]; !ok {
			fr.fail("C02", "C02:sent-to-face-not-a-nexthop", fmt.Sprintf("Interest %s was sent on face %d, which is not a next hop of the longest-prefix FIB entry for %s (next hops: %s)", st.Name, s.Face, lookup, hopsStr(allowed)), nil)
			return
		}
		if G == nil {
			fr.fail("C02", "C02:sent-to-unregistered-face", fmt.Sprintf("Interest sent on unknown face %d", s.Face), nil)
			return
		}
		if s.Face == st.Face && !G.adhoc && st.NextHop == nil {
			fr.fail("C02", "C02:sent-back-to-incoming-face", fmt.Sprintf("Interest %s was sent back out of the point-to-point face %d it arrived on", st.Name, s.Face), nil)
			return
		}
		if perFace[s.Face] > 1 {
			fr.fail("C02", "C02:duplicate-copy-on-face", fmt.Sprintf("Interest %s was sent %d times on face %d for one arrival", st.Name, perFace[s.Face], s.Face), nil)
			return
		}
		if isLocalhost(st.name) && !G.local {
			fr.fail("C09", "C09:localhost-interest-to-nonlocal", fmt.Sprintf("/localhost Interest %s was transmitted on non-local face %d", st.Name, s.Face), nil)
			if fr.stop {
				return
			}
		}
		v, err := viewPacket(s.Raw)
		if err != nil || v.kind != "interest" || refNameCompare(v.name, st.name) != 0 {
			fr.fail("C02", "C02:forwarded-bytes-wrong", "the forwarded Interest does not carry the name of the arriving one", nil)
			return
		}
		if (v.hopLimit == nil) != (st.HopLimit == nil) || (v.hopLimit != nil && *v.hopLimit != hlAfter) {
			fr.fail("C02", "C02:hop-limit-not-decremented", fmt.Sprintf("Interest arrived with hop limit %v and was forwarded with %v", fmtIntPtr(st.HopLimit), fmtIntPtr(v.hopLimit)), nil)
			return
		}
		if v.nonce == nil || *v.nonce != nonce {
			fr.fail("C02", "C02:forwarded-nonce-differs", "the forwarded Interest carries a different nonce", nil)
			return
		}
		if st.NextHop == nil {
			if len(s.Token) != 6 {
				fr.fail("C02", "C02:no-forwarder-token", fmt.Sprintf("forwarded Interest carries PIT token %x (6-byte forwarder token expected)", s.Token), nil)
				return
			}
			tk := h.HexFull(s.Token)
			e.tokenStale = false
			if e.token != tk {
				if e.token != "" {
					delete(m.byToken, e.token)
				}
				e.token = tk
				m.byToken[tk] = key
				fr.seenTokens = append(fr.seenTokens, append([]byte{}, s.Token...))
			}
		}
	}
	if strat == "best-route" && len(iS) > 1 {
		fr.fail("C02", "C02:best-route-multiple-copies", fmt.Sprintf("best-route forwarded Interest %s on %d faces", st.Name, len(iS)), nil)
		return
	}
	// suppression: a different-nonce Interest while an out-record is younger than the interval
	suppressed := false
	for _, o := range e.out {
		if o.nonce != nonce && t1.Before(o.tLo.Add(500*time.Millisecond).Add(-fwGuard)) {
			suppressed = true
		}
	}
	certain := !e.maybe
	if st.NextHop == nil && suppressed && certain {
		fr.nAssert++
		fr.c.Distinct("I|aggregated|" + strat)
		if len(iS) > 0 {
			fr.fail("C02", "C02:retransmission-not-aggregated", fmt.Sprintf("Interest %s with a new nonce was forwarded (%v) although the same Interest was forwarded less than the suppression interval ago", st.Name, st.Sends), nil)
			return
		}
	}
	// usable next hops
	usable := map[uint64]uint64{}
	for f, cost := range allowed {
		G := m.faces[f]
		if G == nil {
			continue
		}
		if f == st.Face && !G.adhoc {
			continue
		}
		if _, has := e.in[f]; has && f != st.Face {
			continue
		}
		if hlAfter == 0 && !G.local {
			continue
		}
		if isLocalhost(st.name) && !G.local {
			continue
		}
		usable[f] = cost
	}
	// "first" also covers an entry none of whose earlier Interests went out anywhere (each was refused:
	// hop limit exhausted, no usable next hop then): nothing was forwarded, so nothing can suppress
	// this one
	if st.NextHop == nil && (wasFresh || !e.everOut) && !suppressed && certain {
		fr.nAssert++
		fr.c.Distinct(fmt.Sprintf("I|first|%s|nh=%d|usable=%d|hint=%v|entry-existed=%v", strat, min(len(allowed), 3), min(len(usable), 3), fh != nil, !wasFresh))
		if len(usable) > 0 && len(iS) == 0 {
			fr.fail("C02", "C02:first-interest-not-forwarded:"+strat, fmt.Sprintf("first Interest %s (not in the cache) has usable next hops %s but was not forwarded", st.Name, hopsStr(usable)), nil)
			if isLocalhost(st.name) && F.local {
				fr.fail("C09", "C09:local-localhost-interest-not-forwarded", fmt.Sprintf("/localhost Interest %s from local face %d has usable local next hops %s but was not forwarded", st.Name, st.Face, hopsStr(usable)), nil)
			}
			return
		}
		if strat == "best-route" && len(iS) == 1 && len(usable) > 0 {
			minC := ^uint64(0)
			for _, cst := range usable {
				if cst < minC {
					minC = cst
				}
			}
			if c2, ok := usable[iS[0].Face]; ok && c2 > minC {
				fr.fail("C02", "C02:best-route-not-lowest-cost", fmt.Sprintf("best-route sent Interest %s on face %d (cost %d) although a usable next hop of cost %d exists (%s)", st.Name, iS[0].Face, c2, minC, hopsStr(usable)), nil)
				return
			}
		}
		if strat == "multicast" {
			for f := range usable {
				if perFace[f] == 0 {
					fr.fail("C02", "C02:multicast-missing-nexthop", fmt.Sprintf("multicast did not send Interest %s on usable next hop %d (usable: %s, sent: %v)", st.Name, f, hopsStr(usable), st.Sends), nil)
					return
				}
			}
		}
	} else {
		fr.c.Distinct(fmt.Sprintf("I|later|%s|sent=%d|nexthopfield=%v", strat, min(len(iS), 2), st.NextHop != nil))
	}
	if st.NextHop == nil {
		for _, s := range iS {
			e.out[s.Face] = &mOut{nonce: nonce, tLo: t0, tHi: t1}
		}
	}
	if len(iS) > 0 {
		e.everOut = true
	}
	if !wasFresh && !e.everOut {
		fr.c.Count("interests_on_entry_never_forwarded_before", 1)
	}
	fr.c.Count("interest_steps", 1)
	fr.c.Count("interests_forwarded", int64(len(iS)))
}

func fmtIntPtr(p *int) string {
	if p == nil {
		return "absent"
	}
	return fmt.Sprint(*p)
}

// ---- DATA

func (fr *fwRun) stepData(st *fwStep) {
	m := fr.m
	F := m.faces[st.Face]
	var fresh *time.Duration
	if st.FreshMs != nil {
		d := time.Duration(*st.FreshMs) * time.Millisecond
		fresh = &d
	}
	_, wire, err := makeData(st.name, fresh, []byte(fmt.Sprintf("step%d", len(fr.hist))))
	if err != nil {
		fr.c.Inconclusive("cannot build Data: " + err.Error())
		fr.stop = true
		return
	}
	pkt, err := fr.sim.IngestSpoof(wire, st.Face, st.token, nil, fr.spoofHeader(st))
	if err != nil && len(st.token) == 6 && (st.token[0] != 0 || st.token[1] != 0) {
		// a 6-byte token is in this forwarder's format; one that names a forwarding thread that does
		// not exist is dropped by the link service's token dispatch: nothing reaches the tables,
		// nothing may be sent (same expectation as for an unknown 6-byte token)
		fr.c.Count("data_dropped_by_token_dispatch", 1)
		if sends := fr.sim.TakeSends(); len(sends) > 0 {
			fr.record(st, sends)
			fr.fail("C01", "C01:data-to-face-without-pending-interest:token-unknown", "Data whose 6-byte PIT token names no forwarding thread caused packets to be sent", nil)
		}
		return
	}
	if err != nil {
		fr.c.Inconclusive(fmt.Sprintf("harness Data was not queued by the link service: %v (face %d token %x mode %s claimed %v)", err, st.Face, st.token, st.TokMode, st.ClaimedInFace != nil))
		fr.stop = true
		return
	}
	fr.c.Count("packets_through_link_service_ingress", 1)
	u0 := time.Now()
	if pi := h.Guard(func() { fr.sim.Data(pkt) }); pi != nil {
		fr.fail(fr.prop, fr.prop+":panic:data:"+pi.Frame+":"+pi.Class, "Data pipeline panicked: "+pi.Value, nil)
		return
	}
	u1 := time.Now()
	sends := fr.sim.TakeSends()
	fr.record(st, sends)
	fr.c.Count("data_steps", 1)
	for _, s := range sends {
		if s.Kind != "data" {
			fr.fail("C01", "C01:interest-emitted-on-data", fmt.Sprintf("an Interest was emitted while processing Data: %v", st.Sends), nil)
			return
		}
	}
	if isLocalhost(st.name) && !F.local {
		fr.nAssert++
		fr.c.Distinct("D|drop|localhost-nonlocal")
		if len(sends) > 0 {
			fr.fail("C09", "C09:localhost-data-accepted-from-nonlocal", fmt.Sprintf("/localhost Data from non-local face %d was forwarded: %v", st.Face, st.Sends), nil)
			fr.fail("C01", "C01:localhost-data-accepted-from-nonlocal", fmt.Sprintf("/localhost Data from non-local face %d was forwarded: %v", st.Face, st.Sends), nil)
		}
		return
	}
	if m.csAdmit {
		m.csWires[nkey(st.name)] = wire
	}
	// ---- matched entries
	var M []*mEntry
	branch := ""
	if len(st.token) == 6 {
		branch = "token"
		if k, ok := m.byToken[h.HexFull(st.token)]; ok {
			if e := m.entries[k]; e != nil {
				M = []*mEntry{e}
			}
		} else {
			branch = "token-unknown"
		}
	} else {
		branch = "name"
		for _, k := range sortedKeys(m.entries) {
			e := m.entries[k]
			if refNameCompare(e.name, st.name) == 0 || (e.cbp && refIsPrefix(e.name, st.name)) {
				M = append(M, e)
			}
		}
	}
	// requirement per face: tokens of required / optional copies
	type want struct {
		tokens [][][]byte // acceptable token alternatives per copy
	}
	req := map[uint64]*want{}
	opt := map[uint64]*want{}
	nIn := 0
	for _, e := range M {
		for f, ir := range e.in {
			nIn++
			G := m.faces[f]
			live := !e.maybe && !ir.optional && !(branch == "token" && e.tokenStale) && ir.expLo.After(u1.Add(fwGuard))
			switch {
			case G == nil:
				continue
			case isLocalhost(st.name) && !G.local:
				continue // scope rules forbid it: must be zero
			case f == st.Face || !live:
				if opt[f] == nil {
					opt[f] = &want{}
				}
				opt[f].tokens = append(opt[f].tokens, ir.tokens)
			default:
				if req[f] == nil {
					req[f] = &want{}
				}
				req[f].tokens = append(req[f].tokens, ir.tokens)
			}
		}
	}
	fr.nAssert++
	fr.c.Distinct(fmt.Sprintf("D|%s|entries=%d|inrecords=%d|arrival-is-downstream=%v|required=%d", branch, min(len(M), 3), min(nIn, 4), func() bool {
		for _, e := range M {
			if _, ok := e.in[st.Face]; ok {
				return true
			}
		}
		return false
	}(), min(len(req), 3)))
	// match observed sends against required/optional copies
	obs := map[uint64][][]byte{}
	for _, s := range sends {
		if !bytes.Equal(s.Raw, wire) {
			fr.fail("C01", "C01:forwarded-data-bytes-differ", fmt.Sprintf("Data forwarded on face %d is not byte-identical to the Data that arrived", s.Face), nil)
			return
		}
		G := m.faces[s.Face]
		if isLocalhost(st.name) && G != nil && !G.local {
			fr.fail("C09", "C09:localhost-data-to-nonlocal", fmt.Sprintf("/localhost Data %s was transmitted on non-local face %d", st.Name, s.Face), nil)
			if fr.stop {
				return
			}
		}
		obs[s.Face] = append(obs[s.Face], s.Token)
	}
	tokMatch := func(alts [][]byte, t []byte) bool {
		for _, a := range alts {
			if bytes.Equal(a, t) || (len(a) == 0 && len(t) == 0) {
				return true
			}
		}
		return false
	}
	for f, toks := range obs {
		var pool [][][]byte
		nReq := 0
		if req[f] != nil {
			pool = append(pool, req[f].tokens...)
			nReq = len(req[f].tokens)
		}
		if opt[f] != nil {
			pool = append(pool, opt[f].tokens...)
		}
		if len(pool) == 0 {
			why := "no pending Interest that the Data satisfies"
			if branch == "token-unknown" {
				why = "the Data carries a 6-byte PIT token this forwarder does not know"
			}
			fr.fail("C01", "C01:data-to-face-without-pending-interest:"+branch, fmt.Sprintf("Data %s (arrived on face %d, token %x) was sent on face %d, which holds %s", st.Name, st.Face, st.token, f, why), map[string]any{"pending": fr.pendingDesc()})
			return
		}
		if len(toks) > len(pool) {
			fr.fail("C01", "C01:too-many-copies", fmt.Sprintf("face %d received %d copies of Data %s but holds %d pending Interests it satisfies", f, len(toks), st.Name, len(pool)), map[string]any{"pending": fr.pendingDesc()})
			return
		}
		// assign every observed copy to a distinct pending Interest whose face-supplied token it carries
		used := make([]bool, len(pool))
		var assign func(i int) bool
		assign = func(i int) bool {
			if i == len(toks) {
				return true
			}
			for j, alts := range pool {
				if !used[j] && tokMatch(alts, toks[i]) {
					used[j] = true
					if assign(i + 1) {
						return true
					}
					used[j] = false
				}
			}
			return false
		}
		if !assign(0) {
			fr.fail("C01", "C01:wrong-pit-token", fmt.Sprintf("the %d copies of Data %s sent on face %d carry PIT tokens %x, but the pending Interests of that face supplied %s", len(toks), st.Name, f, toks, tokensDesc(pool)), map[string]any{"pending": fr.pendingDesc()})
			return
		}
		_ = nReq
	}
	for f, w := range req {
		if len(obs[f]) < len(w.tokens) {
			fr.fail("C01", "C01:pending-face-missed:"+branch, fmt.Sprintf("face %d holds %d unsatisfied pending Interest(s) that Data %s (arrived on face %d, token mode %s) satisfies but received %d copies", f, len(w.tokens), st.Name, st.Face, st.TokMode, len(obs[f])), map[string]any{"pending": fr.pendingDesc()})
			if isLocalhost(st.name) {
				fr.fail("C09", "C09:local-localhost-data-not-delivered", fmt.Sprintf("/localhost Data %s was not delivered to local face %d that holds a pending Interest for it", st.Name, f), map[string]any{"pending": fr.pendingDesc()})
			}
			return
		}
	}
	fr.c.Count("data_forwarded", int64(len(sends)))
	// ---- consume
	if branch == "token" && len(M) == 1 && M[0].tokenStale && len(sends) == 0 {
		// the token may denote an entry instance the forwarder has already dropped: whether the
		// pending Interests recorded since were consumed is unknown
		for _, ir := range M[0].in {
			ir.optional = true
		}
		M[0].maybe = true
		return
	}
	for _, e := range M {
		if refNameCompare(e.name, st.name) == 0 {
			for _, o := range e.out {
				m.dead[fmt.Sprintf("%s|%d", nkey(st.name), o.nonce)] = u0
			}
		}
		e.in = map[uint64]*mIn{}
		e.out = map[uint64]*mOut{}
		e.maybe = false
		e.fresh = true // the next Interest for it is again a first Interest
		// the entry stays findable through its token until it is reaped, but holds no pending Interest
	}
}

func tokensDesc(pool [][][]byte) string {
	var parts []string
	for _, alts := range pool {
		var a []string
		for _, t := range alts {
			a = append(a, fmt.Sprintf("%x", t))
		}
		parts = append(parts, "["+strings.Join(a, "|")+"]")
	}
	return strings.Join(parts, ",")
}

func (fr *fwRun) pendingDesc() []string {
	var out []string
	for _, k := range sortedKeys(fr.m.entries) {
		e := fr.m.entries[k]
		var ins []string
		var fs []int
		for f := range e.in {
			fs = append(fs, int(f))
		}
		sort.Ints(fs)
		for _, f := range fs {
			ins = append(ins, fmt.Sprintf("face%d(token=%x)", f, e.in[uint64(f)].tokens[0]))
		}
		out = append(out, fmt.Sprintf("%s cbp=%v mbf=%v token=%s in=%v maybe=%v", e.name, e.cbp, e.mbf, e.token, ins, e.maybe))
	}
	return out
}
