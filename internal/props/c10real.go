package props

import (
	"bytes"
	"fmt"
	"io"
	"math/rand"
	"net"
	"os"
	"path/filepath"
	"time"

	defn "github.com/named-data/ndnd/fw/defn"
	"github.com/named-data/ndnd/fw/dispatch"
	"github.com/named-data/ndnd/fw/face"
	enc "github.com/named-data/ndnd/std/encoding"
	spec "github.com/named-data/ndnd/std/ndn/spec_2022"

	"verif/internal/h"
	"verif/internal/tlvwalk"
)

// c10Real: the link service on top of the forwarder's real stream transports (accepted TCP
// connection, Unix stream socket) with their own MTU guard. Packets whose single frame comes out just
// below, exactly at and just above the MTU are sent; a twin link service over the recording
// transport tells which frames the link service emits. What the peer reads from the socket must be
// exactly the emitted frames that fit the MTU, in order.
func c10Real(c *h.Ctx, id string, r *rand.Rand) {
	c.Eval(1)
	kind := []string{"tcp", "unix"}[r.Intn(2)]
	mtu := []int{300, 1500, 8800}[r.Intn(3)]
	frag := r.Intn(3) == 0
	network, addr := "tcp4", "127.0.0.1:0"
	if kind == "unix" {
		dir := filepath.Join(c.WorkDir, fmt.Sprintf("sock-%d", c.Batch))
		h.MustMkdir(dir)
		addr = filepath.Join(dir, fmt.Sprintf("c10real-%d.sock", r.Intn(1<<30)))
		os.Remove(addr)
		network = "unix"
	}
	ln, err := net.Listen(network, addr)
	if err != nil {
		c.Inconclusive("cannot listen: " + err.Error())
		return
	}
	defer ln.Close()
	ach := make(chan net.Conn, 1)
	go func() {
		cn, _ := ln.Accept()
		ach <- cn
	}()
	peer, err := net.Dial(network, ln.Addr().String())
	if err != nil {
		c.Inconclusive("cannot dial: " + err.Error())
		return
	}
	defer peer.Close()
	srv := <-ach
	if srv == nil {
		c.Inconclusive("accept failed")
		return
	}
	opts := face.MakeNDNLPLinkServiceOptions()
	opts.IsFragmentationEnabled = frag
	var real *face.NDNLPLinkService
	var closeTr func()
	if kind == "unix" {
		ut, err := face.MakeUnixStreamTransport(defn.MakeFDFaceURI(int(c.Batch)*1000+700+r.Intn(200)), defn.MakeUnixFaceURI(addr), srv)
		if err != nil {
			c.Inconclusive("cannot build unix transport: " + err.Error())
			return
		}
		ut.SetMTU(mtu)
		real = face.MakeNDNLPLinkService(ut, opts)
		closeTr = ut.Close
	} else {
		tt, err := face.AcceptUnicastTCPTransport(srv, nil, face.PersistencyPersistent)
		if err != nil {
			c.Inconclusive("cannot build tcp transport: " + err.Error())
			return
		}
		tt.SetMTU(mtu)
		real = face.MakeNDNLPLinkService(tt, opts)
		closeTr = tt.Close
	}
	real.SetFaceID(701)
	twinTr := face.NewVerifTransport(defn.NonLocal, defn.PointToPoint, mtu)
	twin := face.MakeNDNLPLinkService(twinTr, opts)
	twin.SetFaceID(702)
	var stream []byte
	readDone := make(chan struct{})
	go func() {
		defer close(readDone)
		buf := make([]byte, 65536)
		for {
			_ = peer.SetReadDeadline(time.Now().Add(20 * time.Second))
			n, err := peer.Read(buf)
			stream = append(stream, buf[:n]...)
			if err != nil {
				if err != io.EOF {
					return
				}
				return
			}
		}
	}()
	var want [][]byte
	atLimit := 0
	inFace := uint64(77)
	token := []byte{0, 0, 1, 2, 3, 4}
	var sizes []int
	for s := mtu - 40; s <= mtu+3; s++ {
		sizes = append(sizes, s)
	}
	sizes = append(sizes, 20, 100, mtu/2)
	for _, s := range sizes {
		if s < c10MinSize() || s > 8800 {
			continue
		}
		wire := c10Packet(r, s, false)
		if wire == nil {
			continue
		}
		mk := func() dispatch.OutPkt {
			l3, _, _ := spec.ReadPacket(enc.NewBufferReader(append([]byte{}, wire...)))
			p := &defn.Pkt{Raw: append([]byte{}, wire...), L3: l3, IncomingFaceID: &inFace}
			return dispatch.OutPkt{Pkt: p, PitToken: token, InFace: &inFace}
		}
		face.VerifSend(twin, mk())
		frames := twinTr.TakeFrames()
		if frag {
			// fragment headers carry a per-link-service sequence number: compare sizes only
			for _, f := range frames {
				if len(f) <= mtu {
					want = append(want, f)
				}
			}
		} else {
			for _, f := range frames {
				if len(f) <= mtu {
					want = append(want, f)
					if len(f) == mtu {
						atLimit++
					}
				}
			}
		}
		if pi := h.Guard(func() { face.VerifSend(real, mk()) }); pi != nil {
			c.Violation("C10:panic:send:"+pi.Frame+":"+pi.Class, id, "sendPacket panicked on a real transport: "+pi.Value, nil)
			return
		}
	}
	closeTr()
	<-readDone
	det := map[string]any{"transport": kind, "mtu": mtu, "fragmentation": frag, "frames_expected": len(want), "frames_of_exactly_mtu_bytes": atLimit}
	nodes, werr := tlvwalk.Walk(stream, 0, len(stream), nil, false)
	if werr != nil {
		c.Violation("C10:real-transport:stream-not-frames", id, "what the peer of a real "+kind+" transport read is not a sequence of whole frames: "+werr.Error(), det)
		return
	}
	if len(nodes) != len(want) {
		var gotSizes, wantSizes []int
		for _, n := range nodes {
			gotSizes = append(gotSizes, n.End-n.Off)
		}
		for _, f := range want {
			wantSizes = append(wantSizes, len(f))
		}
		det["frame_sizes_received"], det["frame_sizes_emitted_within_mtu"] = gotSizes, wantSizes
		c.Violation("C10:real-transport:frame-lost", id, fmt.Sprintf("the link service emitted %d frames of at most MTU=%d bytes, the peer of the real %s transport received %d", len(want), mtu, kind, len(nodes)), det)
		return
	}
	for i, n := range nodes {
		if (n.End-n.Off) != len(want[i]) || (!frag && !bytes.Equal(stream[n.Off:n.End], want[i])) {
			c.Violation("C10:real-transport:frame-differs", id, fmt.Sprintf("frame %d received over the real %s transport differs from the frame the link service emits for that packet", i, kind), det)
			return
		}
	}
	c.Count("real_transport_frames", int64(len(want)))
	c.Count("real_transport_frames_at_mtu", int64(atLimit))
	c.Distinct(fmt.Sprintf("real-transport|%s|mtu=%d|frag=%v", kind, mtu, frag))
}
