package props

import (
	"errors"
	"fmt"
	"math/rand"
	"sort"
	"time"

	"github.com/named-data/ndnd/dv/nfdc"
	enc "github.com/named-data/ndnd/std/encoding"
	mgmt "github.com/named-data/ndnd/std/ndn/mgmt_2022"

	"verif/internal/h"
	"verif/internal/simeng"
)

// ---- C19, the command thread itself: the daemon's register/unregister stream reaches the
// forwarder through nfdc.NfdMgmtThread.Start, which retries commands the forwarder refuses. The
// real loop runs against an engine that refuses PRNG-chosen invocations (never more consecutive
// ones than the command's retry budget covers); the routes the forwarder ends up with - the
// accepted invocations replayed in the order they were accepted - must equal the routes the issued
// command stream prescribes.
func c19Nfdc(c *h.Ctx, id string, r *rand.Rand) {
	c.Eval(1)
	eng := simeng.NewEngine(simeng.NewTimer())
	nCmds := 8 + r.Intn(25)
	failBudget := 3 + r.Intn(6)
	// the refusal schedule is fixed before the thread starts (invocation index -> refused); at most
	// one refusal in a row: every command (3 attempts, or unlimited) gets through
	refuse := make([]bool, 4*nCmds)
	for i, fails := 1, 0; i < len(refuse); i++ {
		if !refuse[i-1] && fails < failBudget && r.Intn(4) == 0 {
			refuse[i] = true
			fails++
		}
	}
	refuse[0] = r.Intn(4) == 0
	if refuse[0] {
		refuse[1] = false
	}
	eng.MgmtFail = func(n int, call simeng.MgmtCall) error {
		if n < len(refuse) && refuse[n] {
			return errors.New("refused by the harness (transient)")
		}
		return nil
	}
	m := nfdc.NewNfdMgmtThread(eng)
	go m.Start()
	type key struct {
		name string
		face uint64
	}
	want := map[key]uint64{}
	var issued []string
	names := []string{"/net/r1/32=DV", "/p/a", "/p/b"}
	for i := 0; i < nCmds; i++ {
		k := key{names[r.Intn(len(names))], uint64(101 + r.Intn(2))}
		nm, _ := enc.NameFromStr(k.name)
		if _, has := want[k]; has && r.Intn(2) == 0 {
			delete(want, k)
			issued = append(issued, fmt.Sprintf("unregister %s face=%d", k.name, k.face))
			m.Exec(nfdc.NfdMgmtCmd{Module: "rib", Cmd: "unregister", Args: &mgmt.ControlArgs{Name: nm, FaceId: u64p(k.face), Origin: u64p(127)}, Retries: 3})
		} else {
			cost := uint64(1 + r.Intn(5))
			want[k] = cost
			issued = append(issued, fmt.Sprintf("register %s face=%d cost=%d", k.name, k.face, cost))
			m.Exec(nfdc.NfdMgmtCmd{Module: "rib", Cmd: "register", Args: &mgmt.ControlArgs{Name: nm, FaceId: u64p(k.face), Origin: u64p(127), Cost: u64p(cost)}, Retries: []int{3, -1}[r.Intn(2)]})
		}
	}
	// every command is accepted once: wait for that many accepted invocations
	var calls []simeng.MgmtCall
	for dl := time.Now().Add(30 * time.Second); ; time.Sleep(2 * time.Millisecond) {
		calls, _ = eng.MgmtCalls()
		if len(calls) >= nCmds {
			break
		}
		if time.Now().After(dl) {
			break
		}
	}
	time.Sleep(150 * time.Millisecond) // a re-queued duplicate would show up as an extra invocation
	calls, total := eng.MgmtCalls()
	m.Stop()
	got := map[key]uint64{}
	var accepted []string
	for _, cl := range calls {
		a, ok := cl.Args.(*mgmt.ControlArgs)
		if !ok || a.Name == nil || a.FaceId == nil {
			continue
		}
		k := key{a.Name.String(), *a.FaceId}
		if cl.Cmd == "register" {
			cost := uint64(0)
			if a.Cost != nil {
				cost = *a.Cost
			}
			got[k] = cost
			accepted = append(accepted, fmt.Sprintf("register %s face=%d cost=%d", k.name, k.face, cost))
		} else {
			delete(got, k)
			accepted = append(accepted, fmt.Sprintf("unregister %s face=%d", k.name, k.face))
		}
	}
	str := func(m map[key]uint64) string {
		var l []string
		for k, v := range m {
			l = append(l, fmt.Sprintf("%s@%d=%d", k.name, k.face, v))
		}
		sort.Strings(l)
		return fmt.Sprint(l)
	}
	c.Count("nfdc_commands", int64(nCmds))
	c.Count("nfdc_refused_invocations", int64(total-len(calls)))
	det := map[string]any{"issued": issued, "accepted_by_forwarder": accepted, "refused_invocations": total - len(calls)}
	if len(calls) < nCmds {
		c.Violation("C19:command-lost-despite-retries", id, fmt.Sprintf("%d commands were issued, the forwarder accepted only %d although no command was refused more than once in a row", nCmds, len(calls)), det)
		return
	}
	if str(got) != str(want) {
		c.Violation("C19:forwarder-routes-differ-after-retried-commands", id, "after transient refusals the routes registered in the forwarder differ from what the issued register/unregister stream prescribes: want "+str(want)+", forwarder has "+str(got), det)
		return
	}
	c.Distinct(fmt.Sprintf("nfdc|refused=%d", min(total-len(calls), 4)))
}

// c19NfdcBurst: a large table change (a neighbour with thousands of prefixes becomes reachable)
// issues more commands at once than the command queue holds (4096) while the thread works them
// off at about one per millisecond: the issuer has to wait, nothing may be lost.
func c19NfdcBurst(c *h.Ctx, id string, r *rand.Rand) {
	c.Eval(1)
	eng := simeng.NewEngine(simeng.NewTimer())
	m := nfdc.NewNfdMgmtThread(eng)
	go m.Start()
	n := 4300 + r.Intn(500)
	issued := make(chan struct{})
	go func() {
		defer close(issued)
		for i := 0; i < n; i++ {
			nm, _ := enc.NameFromStr(fmt.Sprintf("/burst/p%d", i))
			m.Exec(nfdc.NfdMgmtCmd{Module: "rib", Cmd: "register", Args: &mgmt.ControlArgs{Name: nm, FaceId: u64p(101), Origin: u64p(127), Cost: u64p(1)}, Retries: 3})
		}
	}()
	select {
	case <-issued:
	case <-time.After(120 * time.Second):
		c.Inconclusive("issuing the burst did not finish within 120 s")
		return
	}
	var calls []simeng.MgmtCall
	for dl := time.Now().Add(120 * time.Second); ; time.Sleep(5 * time.Millisecond) {
		calls, _ = eng.MgmtCalls()
		if len(calls) >= n || time.Now().After(dl) {
			break
		}
		// no progress for 3 s means the queue is empty and the rest was lost
		if len(calls) < n {
			before := len(calls)
			time.Sleep(3 * time.Second)
			calls, _ = eng.MgmtCalls()
			if len(calls) == before {
				break
			}
		}
	}
	m.Stop()
	c.Count("nfdc_burst_commands", int64(n))
	seen := map[string]bool{}
	for _, cl := range calls {
		if a, ok := cl.Args.(*mgmt.ControlArgs); ok && a.Name != nil {
			seen[a.Name.String()] = true
		}
	}
	if len(seen) != n {
		c.Violation("C19:command-lost-in-burst", id, fmt.Sprintf("%d register commands were issued in one burst (the queue holds 4096), the forwarder received %d of them", n, len(seen)), map[string]any{"issued": n, "received": len(seen)})
		return
	}
	c.Distinct("nfdc|burst-beyond-queue")
}
