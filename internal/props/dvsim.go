package props

import (
	"bytes"
	"fmt"
	"math/rand"
	"runtime"
	"sort"
	"strings"
	"sync"
	"time"

	dvconfig "github.com/named-data/ndnd/dv/config"
	"github.com/named-data/ndnd/dv/dv"
	dvtable "github.com/named-data/ndnd/dv/table"
	enc "github.com/named-data/ndnd/std/encoding"
	"github.com/named-data/ndnd/std/log"
	"github.com/named-data/ndnd/std/ndn"
	mgmt "github.com/named-data/ndnd/std/ndn/mgmt_2022"
	spec "github.com/named-data/ndnd/std/ndn/spec_2022"
	ndn_sync "github.com/named-data/ndnd/std/sync"

	"verif/internal/h"
	"verif/internal/simeng"
)

// DV simulation harness shared by C18 and C19: N real dv.Router objects, no
// goroutine loops started; the harness delivers protocol events one at a time
// and waits for the routers' own follow-up goroutines to finish.

type dvNode struct {
	idx    int
	name   enc.Name
	r      *dv.Router
	eng    *simeng.Engine
	cfg    *dvconfig.Config
	alive  bool
	routes map[string]map[uint64]uint64 // replayed rib register/unregister stream (C19)
	infra  map[string]map[uint64]uint64
}

type dvSim struct {
	c      *h.Ctx
	nodes  []*dvNode
	adj    map[[2]int]bool
	events []string
	bad    string // set when the simulation itself failed (inconclusive)
	nCmds  int
	// advertisement Data already delivered, per (receiver, sender): copies of these may arrive
	// again later (a retried fetch answered twice, a slow path)
	seen map[[2]int][][]byte
	// face generation per directed pair: a link that is re-created gets a new face id
	faceGen map[[2]int]int
	// advertisement fetch Interests the routers expressed themselves and the harness has not
	// answered yet, per expressing router
	mu            sync.Mutex
	advFetch      map[int][]simeng.Expressed
	nFetch        int
	nNoFetch      int
	holdPfx       bool
	heldPfx       []func()
	nExpire       int
	nLateRib      int
	losePfx       int // number of upcoming prefix-table fetches to lose (answered with a timeout)
	nLostPfx      int
	nPfxDelivered int // prefix-table fetches answered with Data and handed to the router's callback
	// lossy profile: advertisement fetches that are answered by a NACK / a timeout first (budgets)
	lossRng   *rand.Rand
	lossArmed bool // failures are injected from the second round of a phase on: the last fetches of a phase are the ones nothing repairs
	nackAdv   int
	loseAdv   int
	nNackAdv  int
	nLostAdv  int
}

// face returns the id of the face at a towards b (changes when the link is re-created).
func (s *dvSim) face(a, b int) uint64 {
	return dvFace(a, b) + uint64(1000*s.faceGen[[2]int{a, b}])
}

// newFace: the face at a towards b is replaced by a fresh one (link re-created).
func (s *dvSim) newFace(a, b int) {
	if s.faceGen == nil {
		s.faceGen = map[[2]int]int{}
	}
	s.faceGen[[2]int{a, b}]++
	s.events = append(s.events, fmt.Sprintf("r%d: face towards r%d re-created as %d", a, b, s.face(a, b)))
}

// dvNestedNames makes router 1's name an extension of router 0's name (/net/r0 and /net/r0/r1):
// router names are arbitrary names under the network prefix, nothing says they are siblings.
var dvNestedNames bool

func dvFace(a, b int) uint64 { return uint64(100 + 10*a + b) } // face at a towards b

func newDvSim(c *h.Ctx, n int) *dvSim {
	log.SetLevel(log.FatalLevel)
	s := &dvSim{c: c, adj: map[[2]int]bool{}}
	for i := 0; i < n; i++ {
		cfg := dvconfig.DefaultConfig()
		cfg.Network = "/net"
		cfg.Router = fmt.Sprintf("/net/r%d", i)
		if dvNestedNames && i == 1 {
			cfg.Router = "/net/r0/r1" // a router whose name lies under another router's name
		}
		tm := simeng.NewTimer()
		eng := simeng.NewEngine(tm)
		r, err := dv.NewRouter(cfg, eng)
		if err != nil {
			s.bad = "NewRouter: " + err.Error()
			return s
		}
		nd := &dvNode{idx: i, name: cfg.RouterName(), r: r, eng: eng, cfg: cfg, alive: true, routes: map[string]map[uint64]uint64{}, infra: map[string]map[uint64]uint64{}}
		r.VerifSelfInit()
		s.nodes = append(s.nodes, nd)
	}
	// prefix data Interests are answered by the owner's real prefix table
	for _, nd := range s.nodes {
		nd := nd
		nd.eng.OnExpress = func(x simeng.Expressed) { s.onExpress(nd, x) }
	}
	return s
}

// restart replaces router i by a fresh instance with the same name (a crash and restart that is
// quicker than its neighbours' dead interval: they never expire it, its links stay).
func (s *dvSim) restart(i int) bool {
	old := s.nodes[i]
	tm := simeng.NewTimer()
	eng := simeng.NewEngine(tm)
	r, err := dv.NewRouter(old.cfg, eng)
	if err != nil {
		s.bad = "NewRouter (restart): " + err.Error()
		return false
	}
	nd := &dvNode{idx: i, name: old.cfg.RouterName(), r: r, eng: eng, cfg: old.cfg, alive: true, routes: map[string]map[uint64]uint64{}, infra: map[string]map[uint64]uint64{}}
	r.VerifSelfInit()
	nd.eng.OnExpress = func(x simeng.Expressed) { s.onExpress(nd, x) }
	s.nodes[i] = nd
	s.mu.Lock()
	delete(s.advFetch, i)
	s.mu.Unlock()
	for k := range s.seen {
		if k[0] == i || k[1] == i {
			delete(s.seen, k) // late copies belong to the previous incarnation's conversations
		}
	}
	s.events = append(s.events, fmt.Sprintf("r%d restarts (new instance, same name, links kept)", i))
	return true
}

func (s *dvSim) link(a, b int) bool {
	if a > b {
		a, b = b, a
	}
	return s.adj[[2]int{a, b}]
}

func (s *dvSim) setLink(a, b int, up bool) {
	if a > b {
		a, b = b, a
	}
	if up {
		s.adj[[2]int{a, b}] = true
	} else {
		delete(s.adj, [2]int{a, b})
	}
}

// onExpress: Interests the routers express. Prefix-table fetches are relayed to the owner
// when the fetching router can currently reach it; everything else goes nowhere.
func (s *dvSim) onExpress(from *dvNode, x simeng.Expressed) {
	name := x.Interest.FinalName
	isPfx := false
	for _, cpt := range name {
		if cpt.Typ == enc.TypeKeywordNameComponent && string(cpt.Val) == "PFX" {
			isPfx = true
		}
	}
	isAdv := false
	for _, cpt := range name {
		if cpt.Typ == enc.TypeKeywordNameComponent && string(cpt.Val) == "ADV" {
			isAdv = true
		}
	}
	if isAdv && x.Callback != nil {
		s.mu.Lock()
		if s.advFetch == nil {
			s.advFetch = map[int][]simeng.Expressed{}
		}
		s.advFetch[from.idx] = append(s.advFetch[from.idx], x)
		s.mu.Unlock()
		return
	}
	if !isPfx || x.Callback == nil {
		return
	}
	var owner *dvNode
	for _, nd := range s.nodes {
		if nd.name.IsPrefix(name) && (owner == nil || len(nd.name) > len(owner.name)) {
			owner = nd
		}
	}
	if owner == nil || !owner.alive || !from.alive || !s.connected(from.idx, owner.idx) {
		return // unreachable: the Interest is lost (a real engine would time out seconds later)
	}
	s.mu.Lock()
	lose := s.losePfx > 0
	if lose {
		s.losePfx--
		s.nLostPfx++
	}
	s.mu.Unlock()
	if lose {
		// this fetch is lost in the network: the engine reports a timeout, the router retries
		go x.Callback(ndn.ExpressCallbackArgs{Result: ndn.InterestResultTimeout})
		return
	}
	go func() {
		in, _, err := spec.Spec{}.ReadInterest(enc.NewWireReader(x.Interest.Wire))
		if err != nil {
			return
		}
		var reply enc.Wire
		owner.r.VerifPfx().OnDataInterest(ndn.InterestHandlerArgs{Interest: in, Reply: func(w enc.Wire) error { reply = w; return nil }})
		if reply == nil {
			return
		}
		raw := append([]byte{}, reply.Join()...)
		d, cov, err := spec.Spec{}.ReadData(enc.NewBufferReader(raw))
		if err != nil {
			return
		}
		deliver := func() {
			x.Callback(ndn.ExpressCallbackArgs{Result: ndn.InterestResultData, Data: d, RawData: enc.Wire{raw}, SigCovered: cov})
			s.mu.Lock()
			s.nPfxDelivered++
			s.mu.Unlock()
		}
		s.mu.Lock()
		if s.holdPfx { // a slow reply: produced now, delivered when the harness releases it
			s.heldPfx = append(s.heldPfx, deliver)
			s.mu.Unlock()
			return
		}
		s.mu.Unlock()
		deliver()
	}()
}

// holdPrefixReplies makes prefix-table replies slow: they are produced when the Interest reaches
// the owner but delivered only by releasePrefixReplies.
func (s *dvSim) holdPrefixReplies(on bool) {
	s.mu.Lock()
	s.holdPfx = on
	s.mu.Unlock()
}

func (s *dvSim) releasePrefixReplies() (int, bool) {
	s.mu.Lock()
	l := s.heldPfx
	s.heldPfx = nil
	s.mu.Unlock()
	for _, f := range l {
		f()
	}
	ok := s.quiesce()
	s.drain()
	return len(l), ok
}

func (s *dvSim) connected(a, b int) bool {
	seen := map[int]bool{a: true}
	q := []int{a}
	for len(q) > 0 {
		u := q[0]
		q = q[1:]
		if u == b {
			return true
		}
		for v := range s.nodes {
			if !seen[v] && s.nodes[v].alive && s.link(u, v) {
				seen[v] = true
				q = append(q, v)
			}
		}
	}
	return false
}

// quiesce waits until no goroutine is executing routing-daemon code.
func (s *dvSim) quiesce() bool {
	buf := make([]byte, 1<<20)
	deadline := time.Now().Add(8 * time.Second)
	calm := 0
	for time.Now().Before(deadline) {
		n := runtime.Stack(buf, true)
		st := string(buf[:n])
		busy := false
		for _, g := range strings.Split(st, "\n\n") {
			if strings.Contains(g, "ndnd/dv/") || strings.Contains(g, "ndnd/std/sync.") || strings.Contains(g, "props.(*dvSim).onExpress") {
				if strings.Contains(g, "props.(*dvSim).quiesce") {
					continue
				}
				busy = true
				break
			}
		}
		if !busy {
			calm++
			if calm >= 2 {
				return true
			}
			runtime.Gosched()
			continue
		}
		calm = 0
		time.Sleep(300 * time.Microsecond)
	}
	s.bad = "routing daemon goroutines did not quiesce within 8 s"
	return false
}

// drain replays the queued management commands of every node.
func (s *dvSim) drain() {
	for _, nd := range s.nodes {
		for _, cmd := range nd.r.VerifNfdc().VerifDrain() {
			s.nCmds++
			if cmd.Module != "rib" || cmd.Args == nil || cmd.Args.Name == nil || cmd.Args.FaceId == nil {
				continue
			}
			name := cmd.Args.Name
			tbl := nd.routes
			if (len(name) > 0 && string(name[0].Val) == "localhop") || name.Equal(nd.cfg.PrefixTableSyncPrefix()) {
				tbl = nd.infra
			}
			k := name.String()
			switch cmd.Cmd {
			case "register":
				if tbl[k] == nil {
					tbl[k] = map[uint64]uint64{}
				}
				cost := uint64(0)
				if cmd.Args.Cost != nil {
					cost = *cmd.Args.Cost
				}
				tbl[k][*cmd.Args.FaceId] = cost
			case "unregister":
				if tbl[k] != nil {
					delete(tbl[k], *cmd.Args.FaceId)
					if len(tbl[k]) == 0 {
						delete(tbl, k)
					}
				}
			}
		}
	}
	_ = mgmt.ControlArgs{}
}

// exchange: router a hears b's sync Interest and fetches b's current advertisement.
func (s *dvSim) exchange(a, b int) bool {
	A, B := s.nodes[a], s.nodes[b]
	s.events = append(s.events, fmt.Sprintf("r%d<-r%d", a, b))
	// 1. b's real sync Interest (as its heartbeat would send it), delivered to a on the link's face
	B.eng.OnExpress = nil
	B.eng.TakeExpressed()
	_ = B.r.VerifAdvertSyncSendInterest()
	ex := B.eng.TakeExpressed()
	B.eng.OnExpress = func(x simeng.Expressed) { s.onExpress(B, x) }
	if len(ex) == 0 {
		s.bad = "router produced no sync Interest"
		return false
	}
	in, _, err := spec.Spec{}.ReadInterest(enc.NewWireReader(ex[0].Interest.Wire))
	if err != nil {
		s.bad = "sync Interest does not decode: " + err.Error()
		return false
	}
	face := s.face(a, b)
	A.r.VerifAdvertSyncOnInterest(ndn.InterestHandlerArgs{Interest: in, IncomingFaceId: &face}, true)
	// 2. the fetch is the router's own decision: advertSyncOnInterest starts advertDataFetch only
	// when the sync Interest announces a sequence number it has not seen. The harness answers the
	// advertisement Interests router a really expresses (b's real handler encodes the Data, a's
	// real callback decodes and applies it) and nothing else.
	if !s.quiesce() {
		return false
	}
	s.mu.Lock()
	var mine, rest []simeng.Expressed
	for _, x := range s.advFetch[a] {
		if len(x.Interest.FinalName) > 1 && B.name.IsPrefix(x.Interest.FinalName[1:]) {
			mine = append(mine, x)
		} else {
			rest = append(rest, x)
		}
	}
	if s.advFetch == nil {
		s.advFetch = map[int][]simeng.Expressed{}
	}
	s.advFetch[a] = rest
	s.mu.Unlock()
	if len(mine) == 0 {
		s.nNoFetch++
		s.drain()
		return true
	}
	for qi := 0; qi < len(mine); qi++ {
		x := mine[qi]
		if s.lossRng != nil && s.lossArmed && x.Callback != nil {
			res := ndn.InterestResultNone
			if s.nackAdv > 0 && s.lossRng.Intn(3) == 0 {
				s.nackAdv--
				s.nNackAdv++
				res = ndn.InterestResultNack
			} else if s.loseAdv > 0 && s.lossRng.Intn(4) == 0 {
				s.loseAdv--
				s.nLostAdv++
				res = ndn.InterestResultTimeout
			}
			if res != ndn.InterestResultNone {
				// the fetch fails (no route yet at the forwarder / lost): the router is expected to
				// express it again by itself; whatever it expresses next is answered normally
				s.events = append(s.events, fmt.Sprintf("r%d: fetch of r%d's advertisement fails (%v)", a, b, res))
				x.Callback(ndn.ExpressCallbackArgs{Result: res, NackReason: spec.NackReasonNoRoute})
				if !s.quiesce() {
					return false
				}
				s.mu.Lock()
				var keep []simeng.Expressed
				for _, y := range s.advFetch[a] {
					if len(y.Interest.FinalName) > 1 && B.name.IsPrefix(y.Interest.FinalName[1:]) {
						mine = append(mine, y)
					} else {
						keep = append(keep, y)
					}
				}
				s.advFetch[a] = keep
				s.mu.Unlock()
				continue
			}
		}
		fin, _, err := spec.Spec{}.ReadInterest(enc.NewWireReader(x.Interest.Wire))
		if err != nil {
			s.bad = "advertisement Interest does not decode"
			return false
		}
		var reply enc.Wire
		B.r.VerifAdvertDataOnInterest(ndn.InterestHandlerArgs{Interest: fin, Reply: func(w enc.Wire) error { reply = w; return nil }})
		if reply == nil {
			s.bad = "advertisement Interest was not answered"
			return false
		}
		raw := append([]byte{}, reply.Join()...)
		d, cov, err := spec.Spec{}.ReadData(enc.NewBufferReader(raw))
		if err != nil {
			s.bad = "advertisement Data does not decode: " + err.Error()
			return false
		}
		s.nFetch++
		if x.Callback != nil {
			x.Callback(ndn.ExpressCallbackArgs{Result: ndn.InterestResultData, Data: d, RawData: enc.Wire{raw}, SigCovered: cov})
		}
		if !s.quiesce() {
			return false
		}
		s.drain()
		if s.seen == nil {
			s.seen = map[[2]int][][]byte{}
		}
		k := [2]int{a, b}
		if l := s.seen[k]; len(l) == 0 || !bytes.Equal(l[len(l)-1], raw) {
			s.seen[k] = append(l, raw)
			if len(s.seen[k]) > 6 {
				s.seen[k] = s.seen[k][1:]
			}
		}
	}
	return true
}

// replayLate delivers late copies of advertisement Data that were already delivered once (older
// sequence numbers and the current one) to their receivers, in PRNG order. Returns how many.
func (s *dvSim) replayLate(r *rand.Rand) (int, bool) {
	var keys [][2]int
	for k := range s.seen {
		keys = append(keys, k)
	}
	sort.Slice(keys, func(i, j int) bool { return keys[i][0]*100+keys[i][1] < keys[j][0]*100+keys[j][1] })
	r.Shuffle(len(keys), func(i, j int) { keys[i], keys[j] = keys[j], keys[i] })
	n := 0
	for _, k := range keys {
		A := s.nodes[k[0]]
		if !A.alive {
			continue
		}
		l := s.seen[k]
		for t := 0; t < 2 && len(l) > 0; t++ {
			raw := l[r.Intn(len(l))]
			d, _, err := spec.Spec{}.ReadData(enc.NewBufferReader(append([]byte{}, raw...)))
			if err != nil {
				continue
			}
			s.events = append(s.events, fmt.Sprintf("late:r%d<-r%d", k[0], k[1]))
			A.r.VerifAdvertDataHandler(d)
			n++
			if !s.quiesce() {
				return n, false
			}
			s.drain()
		}
	}
	return n, true
}

// expire makes router a consider neighbour b dead (what the dead-interval timer does).
func (s *dvSim) expire(a, b int) bool {
	A, B := s.nodes[a], s.nodes[b]
	s.events = append(s.events, fmt.Sprintf("r%d expires r%d", a, b))
	var held *dvtable.NeighborState
	A.r.VerifLocked(func() {
		if ns := A.r.VerifNeighbors().Get(B.name); ns != nil {
			dvtable.VerifSetLastSeen(ns, time.Now().Add(-24*time.Hour))
			held = ns
		}
	})
	A.r.VerifCheckDeadNeighbors()
	if !s.quiesce() {
		return false
	}
	s.drain()
	return s.lateRibUpdate(A, b, held)
}

// lateRibUpdate: the advertisement handler schedules `go ribUpdate(ns)`; that goroutine may get the
// router's lock only after the dead-neighbour sweep has removed the neighbour. Every other time a
// neighbour is expired the harness plays that late goroutine on the removed neighbour state.
func (s *dvSim) lateRibUpdate(A *dvNode, b int, held *dvtable.NeighborState) bool {
	s.nExpire++
	if held == nil || s.nExpire%2 == 0 {
		return true
	}
	s.events = append(s.events, fmt.Sprintf("r%d: late ribUpdate for removed neighbour r%d", A.idx, b))
	A.r.VerifRibUpdate(held)
	s.nLateRib++
	if !s.quiesce() {
		return false
	}
	s.drain()
	return true
}

// expireMany: several neighbours of router a are found dead by ONE dead-neighbour sweep.
func (s *dvSim) expireMany(a int, bs []int) bool {
	A := s.nodes[a]
	s.events = append(s.events, fmt.Sprintf("r%d expires %v in one sweep", a, bs))
	A.r.VerifLocked(func() {
		for _, b := range bs {
			if ns := A.r.VerifNeighbors().Get(s.nodes[b].name); ns != nil {
				dvtable.VerifSetLastSeen(ns, time.Now().Add(-24*time.Hour))
			}
		}
	})
	A.r.VerifCheckDeadNeighbors()
	if !s.quiesce() {
		return false
	}
	s.drain()
	return true
}

type dvAdv struct {
	cost, other uint64
	next        string
}

// adverts returns every alive router's current advertisement: dest -> (cost, next hop).
func (s *dvSim) adverts() []map[string]dvAdv {
	out := make([]map[string]dvAdv, len(s.nodes))
	for i, nd := range s.nodes {
		m := map[string]dvAdv{}
		if nd.alive {
			nd.r.VerifLocked(func() {
				for _, e := range nd.r.VerifRib().Advert().Entries {
					nh := ""
					if e.NextHop != nil {
						nh = e.NextHop.Name.String()
					}
					if e.Destination != nil {
						m[e.Destination.Name.String()] = dvAdv{cost: e.Cost, other: e.OtherCost, next: nh}
					}
				}
			})
		}
		out[i] = m
	}
	return out
}

func advSig(a []map[string]dvAdv) string {
	var sb strings.Builder
	for i, m := range a {
		ks := make([]string, 0, len(m))
		for k := range m {
			ks = append(ks, k)
		}
		sort.Strings(ks)
		fmt.Fprintf(&sb, "[%d:", i)
		for _, k := range ks {
			fmt.Fprintf(&sb, "%s=%d/%d via %s;", k, m[k].cost, m[k].other, m[k].next)
		}
		sb.WriteString("]")
	}
	return sb.String()
}

// round delivers every directed neighbour pair once, in PRNG order (optionally starving one edge).
func (s *dvSim) round(r *rand.Rand, starve [2]int) bool {
	var pairs [][2]int
	for e := range s.adj {
		if !s.nodes[e[0]].alive || !s.nodes[e[1]].alive {
			continue
		}
		pairs = append(pairs, [2]int{e[0], e[1]}, [2]int{e[1], e[0]})
	}
	sort.Slice(pairs, func(i, j int) bool {
		if pairs[i][0] != pairs[j][0] {
			return pairs[i][0] < pairs[j][0]
		}
		return pairs[i][1] < pairs[j][1]
	})
	r.Shuffle(len(pairs), func(i, j int) { pairs[i], pairs[j] = pairs[j], pairs[i] })
	for _, p := range pairs {
		if (p[0] == starve[0] && p[1] == starve[1]) || (p[0] == starve[1] && p[1] == starve[0]) {
			continue
		}
		if !s.exchange(p[0], p[1]) {
			return false
		}
	}
	return true
}

// bfs distances in the alive graph from u (-1 unreachable).
func (s *dvSim) bfs(u int) []int {
	d := make([]int, len(s.nodes))
	for i := range d {
		d[i] = -1
	}
	if !s.nodes[u].alive {
		return d
	}
	d[u] = 0
	q := []int{u}
	for len(q) > 0 {
		x := q[0]
		q = q[1:]
		for v := range s.nodes {
			if d[v] < 0 && s.nodes[v].alive && s.link(x, v) {
				d[v] = d[x] + 1
				q = append(q, v)
			}
		}
	}
	return d
}

func (s *dvSim) graphDesc() string {
	var es []string
	for e := range s.adj {
		es = append(es, fmt.Sprintf("%d-%d", e[0], e[1]))
	}
	sort.Strings(es)
	return fmt.Sprintf("n=%d edges=%v", len(s.nodes), es)
}

var _ = ndn_sync.SvSyncUpdate{}
