// Package gen holds seeded generators shared by the property drivers.
package gen

import (
	"math/rand"

	enc "github.com/named-data/ndnd/std/encoding"
)

var CompTypes = []uint64{1, 2, 8, 8, 8, 8, 32, 50, 52, 54, 56, 58, 9, 253, 254, 65535, 0xfc, 0xfd, 1000}

var NumTypes = map[uint64]bool{50: true, 52: true, 54: true, 56: true, 58: true}

var specialVals = [][]byte{
	{}, []byte("."), []byte(".."), []byte("..."), []byte("%"), []byte("="), []byte("/"), []byte("\\"),
	[]byte("%00"), []byte("a=b"), []byte("a/b"), []byte("8=a"), []byte("seg=1"), []byte("<x>"), []byte(" "),
	[]byte("a"), []byte("b"), []byte("ab"), []byte("abc"), []byte("A-Z_~.9"), {0}, {0, 0}, {0xff}, {0xff, 0xff}, {0x80},
	[]byte("sha256digest"), []byte("params-sha256"), []byte("\xc3\xa9"), []byte("%zz"), []byte("%4"),
}

var natBoundaries = []uint64{0, 1, 127, 128, 255, 256, 65535, 65536, 1<<32 - 1, 1 << 32, 1<<63 - 1, 1 << 63, 1<<64 - 1}

var utf8Bits = [][]byte{
	[]byte("caf"), []byte("\u00e9"), []byte("\u4e16\u754c"), []byte("\u0663"), []byte("\U0001F600"), []byte("\ufffd"), {0xef, 0xbf, 0xbd},
	{0xef, 0xbf}, {0xc3}, {0xe4, 0xb8}, {0xed, 0xa0, 0x80}, {0xc0, 0xaf}, {0xf4, 0x90, 0x80, 0x80}, {0xff}, {0x80}, []byte("%"), []byte("."), []byte("x"),
}

// CompVal generates a component value; maxLen bounds random lengths.
func CompVal(r *rand.Rand, maxLen int) []byte {
	switch r.Intn(7) {
	case 0:
		v := specialVals[r.Intn(len(specialVals))]
		return append([]byte{}, v...)
	case 6:
		// text that is (almost) UTF-8: multi-byte letters and digits, the replacement character itself,
		// surrogates, over-long forms, a lead byte cut short - a formatter that looks at runes instead
		// of bytes meets all of its special cases here
		var b []byte
		for n := 1 + r.Intn(4); n > 0; n-- {
			b = append(b, utf8Bits[r.Intn(len(utf8Bits))]...)
		}
		return b
	case 1:
		return []byte{byte(r.Intn(256))}
	case 2:
		n := r.Intn(4)
		b := make([]byte, n)
		for i := range b {
			b[i] = "ab./%=~"[r.Intn(7)]
		}
		return b
	default:
		n := r.Intn(maxLen + 1)
		b := make([]byte, n)
		r.Read(b)
		return b
	}
}

// Comp generates a component whose String() form is required to round-trip:
// type in 1..65535, number-convention types in shortest form.
func Comp(r *rand.Rand, maxLen int) enc.Component {
	var t uint64
	if r.Intn(8) == 0 {
		t = uint64(1 + r.Intn(65535))
	} else {
		t = CompTypes[r.Intn(len(CompTypes))]
	}
	if NumTypes[t] {
		var x uint64
		if r.Intn(2) == 0 {
			x = natBoundaries[r.Intn(len(natBoundaries))]
		} else {
			x = r.Uint64() >> uint(r.Intn(64))
		}
		return enc.NewNumberComponent(enc.TLNum(t), x)
	}
	return enc.Component{Typ: enc.TLNum(t), Val: CompVal(r, maxLen)}
}

// Name generates a name of 0..maxComps components.
func Name(r *rand.Rand, maxComps, maxLen int) enc.Name {
	n := r.Intn(maxComps + 1)
	if maxComps >= 8 && r.Intn(50) == 0 {
		// now and then a deep name (limits on the number of components are not part of any statement)
		n = []int{31, 32, 33, 34, 40, 64, 65, 70}[r.Intn(8)]
		maxLen = min(maxLen, 3)
	}
	ret := make(enc.Name, n)
	for i := range ret {
		ret[i] = Comp(r, maxLen)
	}
	return ret
}

// Near returns a name adversarially close to n: one byte, one length, one
// type apart, a proper prefix or an extension.
func Near(r *rand.Rand, n enc.Name) enc.Name {
	m := n.Clone()
	if len(m) == 0 {
		return append(m, Comp(r, 4))
	}
	i := r.Intn(len(m))
	switch r.Intn(8) {
	case 0: // flip one byte
		if len(m[i].Val) > 0 && !NumTypes[uint64(m[i].Typ)] {
			j := r.Intn(len(m[i].Val))
			m[i].Val[j] ^= byte(1 << uint(r.Intn(8)))
		} else {
			m[i] = Comp(r, 4)
		}
	case 1: // change type
		if !NumTypes[uint64(m[i].Typ)] {
			t := CompTypes[r.Intn(len(CompTypes))]
			for NumTypes[t] {
				t = CompTypes[r.Intn(len(CompTypes))]
			}
			m[i].Typ = enc.TLNum(t)
		} else {
			m[i] = Comp(r, 4)
		}
	case 2: // lengthen
		if !NumTypes[uint64(m[i].Typ)] {
			m[i].Val = append(m[i].Val, byte(r.Intn(256)))
		} else {
			m[i] = enc.NewNumberComponent(m[i].Typ, m[i].NumberVal()+1)
		}
	case 3: // shorten
		if len(m[i].Val) > 0 && !NumTypes[uint64(m[i].Typ)] {
			m[i].Val = m[i].Val[:len(m[i].Val)-1]
		} else {
			m = m[:i]
		}
	case 4: // proper prefix
		m = m[:i]
	case 5: // extension
		m = append(m, Comp(r, 4))
	case 6: // swap two components
		j := r.Intn(len(m))
		m[i], m[j] = m[j], m[i]
	case 7: // identical copy
	}
	return m
}
