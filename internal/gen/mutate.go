package gen

import (
	"math/rand"

	"verif/internal/tlvwalk"
)

// guessNest treats an element as a container when its value parses exactly as
// a non-empty TLV sequence (generic: needs no schema).
func guessNodes(b []byte, start, end, depth int, out *[]*tlvwalk.Node) bool {
	ns, err := tlvwalk.Walk(b, start, end, nil, false)
	if err != nil || len(ns) == 0 {
		return false
	}
	for _, n := range ns {
		*out = append(*out, n)
		if depth < 6 && n.Len() >= 2 {
			var sub []*tlvwalk.Node
			if guessNodes(b, n.ValOff, n.End, depth+1, &sub) {
				*out = append(*out, sub...)
			}
		}
	}
	return true
}

// Nodes returns every element (at any depth) a generic walker can find.
func Nodes(b []byte) []*tlvwalk.Node {
	var out []*tlvwalk.Node
	guessNodes(b, 0, len(b), 0, &out)
	return out
}

var HugeLens = []uint64{0, 1, 2, 252, 253, 254, 255, 256, 8800, 8801, 65535, 65536, 1<<31 - 1, 1 << 31, 1<<32 - 1, 1 << 32, 1<<47 - 1, 1 << 47, 1<<62 - 1, 1<<63 - 1, 1 << 63, 1<<64 - 1}

// VarForm encodes v in the given form (1,3,5,9 bytes); ok=false when it does not fit.
func VarForm(v uint64, form int) ([]byte, bool) {
	switch form {
	case 1:
		if v > 0xfc {
			return nil, false
		}
		return []byte{byte(v)}, true
	case 3:
		if v > 0xffff {
			return nil, false
		}
		return []byte{0xfd, byte(v >> 8), byte(v)}, true
	case 5:
		if v > 0xffffffff {
			return nil, false
		}
		return []byte{0xfe, byte(v >> 24), byte(v >> 16), byte(v >> 8), byte(v)}, true
	default:
		return []byte{0xff, byte(v >> 56), byte(v >> 48), byte(v >> 40), byte(v >> 32), byte(v >> 24), byte(v >> 16), byte(v >> 8), byte(v)}, true
	}
}

func mustForm(v uint64, form int) []byte {
	b, _ := VarForm(v, form)
	return b
}

func splice(b []byte, from, to int, with []byte) []byte {
	out := make([]byte, 0, len(b)+len(with))
	out = append(out, b[:from]...)
	out = append(out, with...)
	return append(out, b[to:]...)
}

// Mutate returns a structure-aware mutation of seed and the mutation class.
func Mutate(r *rand.Rand, seed []byte, nodes []*tlvwalk.Node) ([]byte, string) {
	if len(seed) == 0 || len(nodes) == 0 {
		b := make([]byte, r.Intn(40))
		r.Read(b)
		return b, "random"
	}
	n := nodes[r.Intn(len(nodes))]
	switch r.Intn(19) {
	case 14, 15, 16, 17, 18: // consistent edits: the element changes and every enclosing length is recomputed,
		// so the parser gets past the outer layers and meets the odd element itself
		var repl []byte
		cls := ""
		switch r.Intn(8) {
		case 6, 7:
			// the element keeps a consistent outer encoding, but what its value starts with - a nested
			// element some accessor decodes later (a name component inside FinalBlockId, a name inside a
			// KeyLocator) - is cut short or announces more than the value holds
			v := append([]byte{}, seed[n.ValOff:n.End]...)
			switch {
			case len(v) >= 2 && r.Intn(4) == 0:
				v = v[:len(v)-1]
			case len(v) >= 2 && r.Intn(3) == 0:
				v[1] += byte(1 + r.Intn(5))
			case len(v) >= 2 && r.Intn(2) == 0:
				v = []byte{v[0], byte(1 + r.Intn(4))}
			case len(v) >= 1:
				v = v[:1]
			default:
				v = []byte{0x08}
			}
			repl, cls = tlvwalk.TLV(n.Type, v), "c-inner-damaged"
		case 0:
			repl, cls = tlvwalk.TLV(n.Type, nil), "c-empty-value"
		case 1:
			repl, cls = nil, "c-delete"
		case 2:
			el := seed[n.Off:n.End]
			repl, cls = append(append([]byte{}, el...), el...), "c-duplicate"
		case 3:
			v := make([]byte, r.Intn(40))
			r.Read(v)
			repl, cls = tlvwalk.TLV(n.Type, v), "c-value-resized"
		case 4:
			o := nodes[r.Intn(len(nodes))]
			repl, cls = tlvwalk.TLV(o.Type, seed[n.ValOff:n.End]), "c-type-swap"
		default:
			o := nodes[r.Intn(len(nodes))]
			repl, cls = append(append([]byte{}, seed[n.Off:n.End]...), seed[o.Off:o.End]...), "c-insert-other"
		}
		return Reserialize(seed, nodes, n, repl), cls
	case 13: // the element is replaced, size-preserving, by an unknown element whose 9-byte length
		// is a small negative number when converted to a signed integer (2^64-k)
		size := n.End - n.Off
		if size < 10 {
			m := append([]byte{}, seed...)
			m[r.Intn(len(m))] ^= 1 << uint(r.Intn(8))
			return m, "bitflip"
		}
		t := []byte{0xF0, 0x20, 0x7E, 0xFC, 0x21, 0x7F}[r.Intn(6)] // non-critical and critical unknown types
		k := uint64([]int{10, size, 1 + r.Intn(size+12), 1 + r.Intn(64)}[r.Intn(4)])
		el := append([]byte{t}, mustForm(^uint64(0)-k+1, 9)...)
		pad := make([]byte, size-10)
		r.Read(pad)
		return splice(seed, n.Off, n.End, append(el, pad...)), "negative-length-unknown"
	case 0, 1, 2: // length replaced by a boundary/huge value in some form
		v := HugeLens[r.Intn(len(HugeLens))]
		if r.Intn(3) == 0 {
			v = uint64(int64(n.Len()) + int64(r.Intn(5)) - 2)
		} else if r.Intn(4) == 0 {
			v = ^uint64(0) - uint64(r.Intn(64)) // small negative numbers as signed integers
		}
		for tries := 0; tries < 8; tries++ {
			if enc, ok := VarForm(v, []int{1, 3, 5, 9}[r.Intn(4)]); ok {
				return splice(seed, n.Off+n.TLen, n.ValOff, enc), "length"
			}
		}
		enc, _ := VarForm(v, 9)
		return splice(seed, n.Off+n.TLen, n.ValOff, enc), "length"
	case 3: // truncation
		return append([]byte{}, seed[:r.Intn(len(seed))]...), "truncate"
	case 4: // truncation inside this element
		cut := n.Off + r.Intn(n.End-n.Off+1)
		return append([]byte{}, seed[:cut]...), "truncate"
	case 5: // type confusion: take the type of another element
		o := nodes[r.Intn(len(nodes))]
		return splice(seed, n.Off, n.Off+n.TLen, tlvwalk.AppendVar(nil, o.Type)), "type-swap"
	case 6: // type replaced by random / boundary
		t := []uint64{0, 1, 0xfc, 0xfd, 0xffff, 0x10000, 1<<32 - 1, 1 << 32, 1<<64 - 1, uint64(r.Intn(256))}[r.Intn(10)]
		enc, _ := VarForm(t, []int{1, 3, 5, 9}[r.Intn(4)])
		if enc == nil {
			enc, _ = VarForm(t, 9)
		}
		return splice(seed, n.Off, n.Off+n.TLen, enc), "type-random"
	case 7: // duplicate element
		return splice(seed, n.End, n.End, seed[n.Off:n.End]), "duplicate"
	case 8: // delete element
		return splice(seed, n.Off, n.End, nil), "delete"
	case 9: // move element somewhere else
		o := nodes[r.Intn(len(nodes))]
		el := append([]byte{}, seed[n.Off:n.End]...)
		if o.Off >= n.End {
			tmp := splice(seed, o.Off, o.Off, el)
			return splice(tmp, n.Off, n.End, nil), "reorder"
		} else if o.Off <= n.Off {
			tmp := splice(seed, n.Off, n.End, nil)
			return splice(tmp, o.Off, o.Off, el), "reorder"
		}
		return splice(seed, n.End, n.End, el), "duplicate"
	case 10: // value replaced by random bytes of the same length
		v := make([]byte, n.Len())
		r.Read(v)
		return splice(seed, n.ValOff, n.End, v), "value-random"
	case 11: // bit flip
		m := append([]byte{}, seed...)
		m[r.Intn(len(m))] ^= 1 << uint(r.Intn(8))
		return m, "bitflip"
	default: // outer length grows/shrinks without touching the inner bytes (nested-length disagreement)
		d := []int{-2, -1, 1, 2, 100}[r.Intn(5)]
		nl := n.Len() + d
		if nl < 0 {
			nl = 0
		}
		return splice(seed, n.Off+n.TLen, n.ValOff, tlvwalk.AppendVar(nil, uint64(nl))), "length-disagree"
	}
}

// Reserialize returns seed with the encoding of target replaced by repl and the length of every
// enclosing element recomputed (shortest form). nodes is the flat list returned by Nodes.
func Reserialize(seed []byte, nodes []*tlvwalk.Node, target *tlvwalk.Node, repl []byte) []byte {
	parent := map[*tlvwalk.Node]*tlvwalk.Node{}
	for _, x := range nodes {
		var best *tlvwalk.Node
		for _, m := range nodes {
			if m != x && m.ValOff <= x.Off && x.End <= m.End && !(m.Off == x.Off && m.End == x.End) {
				if best == nil || (m.End-m.Off) < (best.End-best.Off) {
					best = m
				}
			}
		}
		parent[x] = best
	}
	kids := map[*tlvwalk.Node][]*tlvwalk.Node{}
	var tops []*tlvwalk.Node
	for _, x := range nodes {
		if p := parent[x]; p != nil {
			kids[p] = append(kids[p], x)
		} else {
			tops = append(tops, x)
		}
	}
	var ser func(x *tlvwalk.Node) []byte
	ser = func(x *tlvwalk.Node) []byte {
		if x == target {
			return repl
		}
		ks := kids[x]
		if len(ks) == 0 {
			return seed[x.Off:x.End]
		}
		var val []byte
		pos := x.ValOff
		for _, k := range ks { // kids are in offset order (pre-order list)
			if k.Off > pos {
				val = append(val, seed[pos:k.Off]...)
			}
			val = append(val, ser(k)...)
			pos = k.End
		}
		if pos < x.End {
			val = append(val, seed[pos:x.End]...)
		}
		return tlvwalk.TLV(x.Type, val)
	}
	var out []byte
	pos := 0
	for _, t := range tops {
		if t.Off > pos {
			out = append(out, seed[pos:t.Off]...)
		}
		out = append(out, ser(t)...)
		pos = t.End
	}
	if pos < len(seed) {
		out = append(out, seed[pos:]...)
	}
	return out
}

// InnerDamage enumerates, for every element with a non-empty value, the inputs in which the
// element's outer encoding (and every enclosing length) stays consistent while the nested element its
// value starts with is cut short or announces more than the value holds.
func InnerDamage(seed []byte, nodes []*tlvwalk.Node) [][]byte {
	var out [][]byte
	for _, n := range nodes {
		v := seed[n.ValOff:n.End]
		if len(v) == 0 || len(v) > 300 {
			continue
		}
		var vs [][]byte
		vs = append(vs, append([]byte{}, v[:len(v)-1]...), []byte{v[0]})
		if len(v) >= 2 {
			for _, d := range []byte{1, 3, 200} {
				w := append([]byte{}, v...)
				w[1] += d
				vs = append(vs, w)
			}
			vs = append(vs, []byte{v[0], 2}, []byte{v[0], 3, v[len(v)-1]}, []byte{v[0], 0xfd})
		}
		for _, w := range vs {
			out = append(out, Reserialize(seed, nodes, n, tlvwalk.TLV(n.Type, w)))
		}
	}
	return out
}
