package gen

import (
	"math/rand"

	enc "github.com/named-data/ndnd/std/encoding"
)

// Universe is a prefix-closed set of names over a tiny alphabet: collisions,
// shadowing, multi-match and pruning are the common case.
type Universe struct {
	Alphabet []enc.Component
	MaxDepth int
}

func NewUniverse(maxDepth int, extra bool) *Universe {
	u := &Universe{MaxDepth: maxDepth}
	u.Alphabet = []enc.Component{
		enc.NewStringComponent(8, "a"),
		enc.NewStringComponent(8, "b"),
		// rare third symbol: the value of "a" under another type (a sibling that differs only in
		// the component type must never be confused with it by a name-keyed table)
		enc.NewStringComponent(enc.TypeKeywordNameComponent, "a"),
		// and under a type that equals the generic type modulo 256
		enc.Component{Typ: 8 + 256, Val: []byte("a")},
		// one component whose value is "a", the 8-byte big-endian type field of a generic component,
		// then "b": a table that keys names by a digest of (type, value) pairs written back to back
		// without lengths sees this one-component name as the two-component name /a/b
		enc.Component{Typ: 8, Val: []byte{'a', 0, 0, 0, 0, 0, 0, 0, 8, 'b'}},
	}
	if extra {
		u.Alphabet = append(u.Alphabet,
			enc.NewStringComponent(8, "long-component"),
			enc.NewVersionComponent(1),
			enc.Component{Typ: 8, Val: []byte{}},
			// same value bytes under different types: siblings that only differ in the type
			enc.NewSegmentComponent(1),
			enc.Component{Typ: 8, Val: []byte{1}},
			// digest components (implicit SHA-256 digest, parameters digest): a prefix may end in one,
			// and a lookup by exactly that name must find it
			enc.Component{Typ: enc.TypeImplicitSha256DigestComponent, Val: make([]byte, 32)},
			enc.Component{Typ: enc.TypeParametersSha256DigestComponent, Val: append(make([]byte, 31), 7)},
		)
	}
	return u
}

// Pick returns a name of depth 0..MaxDepth; shallow depths are favoured so that names nest.
func (u *Universe) Pick(r *rand.Rand) enc.Name {
	d := r.Intn(u.MaxDepth + 1)
	if r.Intn(3) == 0 {
		d = r.Intn(3)
	}
	return u.PickDepth(r, d)
}

func (u *Universe) PickDepth(r *rand.Rand, d int) enc.Name {
	n := make(enc.Name, d)
	for i := range n {
		// the first two symbols dominate
		k := r.Intn(2)
		if len(u.Alphabet) > 2 && r.Intn(6) == 0 {
			k = 2 + r.Intn(len(u.Alphabet)-2)
		}
		n[i] = u.Alphabet[k].Clone()
	}
	return n
}

// Extend returns n with 1..k extra components.
func (u *Universe) Extend(r *rand.Rand, n enc.Name, k int) enc.Name {
	m := n.Clone()
	for i := 1 + r.Intn(k); i > 0; i-- {
		m = append(m, u.Alphabet[r.Intn(len(u.Alphabet))].Clone())
	}
	return m
}

// All enumerates every name of depth <= d over the first two symbols.
func (u *Universe) All(d int) []enc.Name {
	out := []enc.Name{{}}
	frontier := []enc.Name{{}}
	for i := 0; i < d; i++ {
		var next []enc.Name
		for _, n := range frontier {
			for k := 0; k < 2; k++ {
				m := append(n.Clone(), u.Alphabet[k].Clone())
				next = append(next, m)
			}
		}
		out = append(out, next...)
		frontier = next
	}
	return out
}
