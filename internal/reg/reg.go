// Package reg is the registry of generated TLV models; zz_registry.go is
// regenerated from /repo's current tree by cmd/c13scan before every build.
package reg

import enc "github.com/named-data/ndnd/std/encoding"

type Field struct {
	Name, Ann, Tag string
}

type Model struct {
	Pkg, Name, Flags string
	Defined          bool
	Fields           []Field
	New              func() any
	Encode           func(v any) (enc.Wire, any) // returns the wire and the encoder (for announced length / wirePlan)
	Parse            func(r enc.ParseReader, ignoreCritical bool) (any, error)
}

var (
	Models     []*Model
	NDefined   int
	NGenerated int
)

func (m *Model) ID() string { return m.Pkg + "." + m.Name }

func (m *Model) Ann(field string) string {
	for _, f := range m.Fields {
		if f.Name == field {
			return f.Ann
		}
	}
	return ""
}
