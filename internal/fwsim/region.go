package fwsim

import (
	"reflect"

	"github.com/named-data/ndnd/fw/table"
)

// resetRegionTable replaces the (append-only) network region table by a fresh
// empty one. Its type is unexported, so the exported variable is set through reflection.
func resetRegionTable() {
	v := reflect.ValueOf(&table.NetworkRegion).Elem()
	v.Set(reflect.New(v.Type().Elem()))
}
