// Package fwsim drives one real forwarding thread synchronously through the
// verif hooks, with recording fake faces registered in dispatch.FaceDispatch.
package fwsim

import (
	"errors"
	"sync"

	"github.com/named-data/ndnd/fw/core"
	"github.com/named-data/ndnd/fw/defn"
	"github.com/named-data/ndnd/fw/dispatch"
	"github.com/named-data/ndnd/fw/face"
	fwfw "github.com/named-data/ndnd/fw/fw"
	"github.com/named-data/ndnd/fw/table"
	enc "github.com/named-data/ndnd/std/encoding"
	spec "github.com/named-data/ndnd/std/ndn/spec_2022"

	"verif/internal/fwenv"
)

// Send is one packet handed to a face by the forwarder.
type Send struct {
	Step   int
	Face   uint64
	Kind   string // "interest" or "data"
	Raw    []byte // copy of Pkt.Raw at call time
	Token  []byte // copy of OutPkt.PitToken
	InFace *uint64
}

// Face is a recording dispatch.Face.
type Face struct {
	ID   uint64
	Sc   defn.Scope
	LT   defn.LinkType
	sim  *Sim
	Down bool
}

func (f *Face) String() string          { return "sim-face" }
func (f *Face) SetFaceID(id uint64)     { f.ID = id }
func (f *Face) FaceID() uint64          { return f.ID }
func (f *Face) LocalURI() *defn.URI     { return defn.MakeNullFaceURI() }
func (f *Face) RemoteURI() *defn.URI    { return defn.MakeNullFaceURI() }
func (f *Face) Scope() defn.Scope       { return f.Sc }
func (f *Face) LinkType() defn.LinkType { return f.LT }
func (f *Face) MTU() int                { return 8800 }
func (f *Face) State() defn.State       { return defn.Up }
func (f *Face) SendPacket(out dispatch.OutPkt) {
	s := Send{Step: f.sim.Step, Face: f.ID}
	if out.Pkt != nil {
		s.Raw = append([]byte{}, out.Pkt.Raw...)
		if out.Pkt.L3 != nil && out.Pkt.L3.Interest != nil {
			s.Kind = "interest"
		} else if out.Pkt.L3 != nil && out.Pkt.L3.Data != nil {
			s.Kind = "data"
		}
	}
	if out.PitToken != nil {
		s.Token = append([]byte{}, out.PitToken...)
	}
	if out.InFace != nil {
		v := *out.InFace
		s.InFace = &v
	}
	f.sim.mu.Lock()
	f.sim.Sends = append(f.sim.Sends, s)
	f.sim.mu.Unlock()
}

// Sim is one forwarder instance.
type Sim struct {
	mu    sync.Mutex
	T     *fwfw.Thread
	Faces map[uint64]*Face
	Step  int
	Sends []Send
	Fib   table.FibStrategy
	// ingress is a real NDNLP link service (never started, no goroutines): harness packets enter
	// through its frame decoder and dispatch code, exactly as frames from a transport do
	ingress     map[uint64]*face.NDNLPLinkService
	nIngest     uint64
	NFragmented int // packets delivered to the ingress link service as several fragments
}

// Options configure a fresh forwarder.
type Options struct {
	CsAdmit, CsServe bool
	CsCapacity       int
	DnlLifetimeMs    int
	DnlLifetimeZero  bool
	Regions          []string
	FibAlgo          string
	M                int
	// FreeRunning: the caller starts Thread.Run itself; the table's first timer signal is then
	// left for Run to consume (otherwise a helper goroutine drains it)
	FreeRunning bool
}

var lastFaces []uint64

// New builds a fresh forwarder: config, tables, one thread (not running), no faces.
func New(o Options) *Sim {
	cfg := fwenv.Config()
	cfg.Tables.ContentStore.Admit = o.CsAdmit
	cfg.Tables.ContentStore.Serve = o.CsServe
	cfg.Tables.ContentStore.Capacity = uint16(o.CsCapacity)
	if o.DnlLifetimeZero {
		cfg.Tables.DeadNonceList.Lifetime = 0 // a configured lifetime of 0 ms: records fall due at once
	} else if o.DnlLifetimeMs > 0 {
		cfg.Tables.DeadNonceList.Lifetime = o.DnlLifetimeMs
	}
	cfg.Tables.NetworkRegion.Regions = o.Regions
	if o.M > 0 {
		cfg.Tables.Fib.Hashtable.M = uint16(o.M)
	}
	cfg.Fw.Threads = 1
	fwenv.Load(cfg)
	// the region table is append-only in the repository: replace it for a fresh forwarder
	resetRegionTable()
	table.Configure()
	fwfw.Configure()
	algo := o.FibAlgo
	if algo == "" {
		algo = "nametree"
	}
	table.CreateFIBTable(algo)
	table.VerifResetRib()
	for _, id := range lastFaces {
		dispatch.RemoveFace(id)
	}
	lastFaces = nil
	s := &Sim{Faces: map[uint64]*Face{}, Fib: table.FibStrategyTable}
	s.T = fwfw.NewThread(0)
	fwfw.Threads = []*fwfw.Thread{s.T}
	dispatch.InitializeFWThreads([]dispatch.FWThread{s.T})
	// the table arms a timer that signals an unbuffered channel: consume the first signal
	if !o.FreeRunning {
		go func() { <-fwfw.VerifPitCs(s.T).UpdateTimer() }()
	}
	core.ShouldQuit = false
	s.ingress = map[uint64]*face.NDNLPLinkService{}
	return s
}

// ingressFor returns the real link service that decodes frames for simulated face id (local
// fields enabled, as management would enable them); it carries the face's own id, so the packet
// it queues names the face the frame really arrived on.
func (s *Sim) ingressFor(id uint64) *face.NDNLPLinkService {
	if ls := s.ingress[id]; ls != nil {
		return ls
	}
	opts := face.MakeNDNLPLinkServiceOptions()
	opts.IsIncomingFaceIndicationEnabled = true
	opts.IsConsumerControlledForwardingEnabled = true
	sc, lt := defn.NonLocal, defn.PointToPoint
	if f := s.Faces[id]; f != nil {
		sc, lt = f.Sc, f.LT
	}
	ls := face.MakeNDNLPLinkService(face.NewVerifTransport(sc, lt, defn.MaxNDNPacketSize), opts)
	ls.SetFaceID(id)
	s.ingress[id] = ls
	return ls
}

// ErrIngressDropped: the link service did not queue the frame for the forwarding thread.
var ErrIngressDropped = errors.New("link service dropped the frame")

// Ingest hands one network-layer packet (optionally with the link-protocol headers PitToken and
// NextHopFaceId) to the real link-service receive path and returns the packet it queued for the
// forwarding thread, re-attributed to the simulated face inFace.
func (s *Sim) Ingest(wire []byte, inFace uint64, token []byte, nextHop *uint64) (*defn.Pkt, error) {
	return s.IngestSpoof(wire, inFace, token, nextHop, nil)
}

// IngestSpoof is Ingest with an optional IncomingFaceId link-protocol header supplied by the peer
// (a field only the forwarder itself ever attaches): it must not change where the packet is taken
// to have arrived.
func (s *Sim) IngestSpoof(wire []byte, inFace uint64, token []byte, nextHop *uint64, claimedInFace *uint64) (*defn.Pkt, error) {
	frame := append([]byte{}, wire...)
	if len(token) > 0 || nextHop != nil || claimedInFace != nil {
		var hdr []byte
		if len(token) > 0 {
			hdr = append(hdr, tlv(0x62, token)...)
		}
		if claimedInFace != nil {
			hdr = append(hdr, tlv(0x032C, nat(*claimedInFace))...)
		}
		if nextHop != nil {
			hdr = append(hdr, tlv(0x0330, nat(*nextHop))...)
		}
		frame = tlv(0x64, append(hdr, tlv(0x50, wire)...))
	}
	// drain anything left over (nothing should be)
	for {
		if _, _, ok := fwfw.VerifDequeue(s.T); !ok {
			break
		}
	}
	s.nIngest++
	if s.nIngest%4 == 3 && len(wire) >= 12 {
		// every fourth packet arrives as two or three link-protocol fragments (the peer's MTU is
		// small); the header fields travel on every fragment, as this forwarder's own sender does
		var hdr []byte
		if len(token) > 0 {
			hdr = append(hdr, tlv(0x62, token)...)
		}
		if claimedInFace != nil {
			hdr = append(hdr, tlv(0x032C, nat(*claimedInFace))...)
		}
		if nextHop != nil {
			hdr = append(hdr, tlv(0x0330, nat(*nextHop))...)
		}
		n := 2 + int(s.nIngest/4)%2
		base := s.nIngest * 16
		for i := 0; i < n; i++ {
			a, z := len(wire)*i/n, len(wire)*(i+1)/n
			var f []byte
			f = append(f, tlv(0x51, []byte{0, 0, 0, 0, byte(base >> 24), byte(base >> 16), byte(base >> 8), byte(base) + byte(i)})...)
			f = append(f, tlv(0x52, []byte{byte(i)})...)
			f = append(f, tlv(0x53, []byte{byte(n)})...)
			f = append(f, hdr...)
			f = append(f, tlv(0x50, wire[a:z])...)
			face.VerifRecv(s.ingressFor(inFace), tlv(0x64, f))
		}
		s.NFragmented++
	} else {
		face.VerifRecv(s.ingressFor(inFace), frame)
	}
	p, _, ok := fwfw.VerifDequeue(s.T)
	if !ok {
		return nil, ErrIngressDropped
	}
	return p, nil
}

func varnum(b []byte, v uint64) []byte {
	switch {
	case v <= 0xfc:
		return append(b, byte(v))
	case v <= 0xffff:
		return append(b, 0xfd, byte(v>>8), byte(v))
	case v <= 0xffffffff:
		return append(b, 0xfe, byte(v>>24), byte(v>>16), byte(v>>8), byte(v))
	default:
		return append(b, 0xff, byte(v>>56), byte(v>>48), byte(v>>40), byte(v>>32), byte(v>>24), byte(v>>16), byte(v>>8), byte(v))
	}
}

func tlv(t uint64, v []byte) []byte { return append(varnum(varnum(nil, t), uint64(len(v))), v...) }

func nat(v uint64) []byte {
	switch {
	case v <= 0xff:
		return []byte{byte(v)}
	case v <= 0xffff:
		return []byte{byte(v >> 8), byte(v)}
	case v <= 0xffffffff:
		return []byte{byte(v >> 24), byte(v >> 16), byte(v >> 8), byte(v)}
	default:
		return []byte{byte(v >> 56), byte(v >> 48), byte(v >> 40), byte(v >> 32), byte(v >> 24), byte(v >> 16), byte(v >> 8), byte(v)}
	}
}

// AddFace registers a recording face.
func (s *Sim) AddFace(id uint64, local bool, lt defn.LinkType) *Face {
	sc := defn.NonLocal
	if local {
		sc = defn.Local
	}
	f := &Face{ID: id, Sc: sc, LT: lt, sim: s}
	s.Faces[id] = f
	dispatch.AddFace(id, f)
	lastFaces = append(lastFaces, id)
	return f
}

// TakeSends returns the sends recorded since the last call.
func (s *Sim) TakeSends() []Send {
	s.mu.Lock()
	defer s.mu.Unlock()
	out := s.Sends
	s.Sends = nil
	return out
}

// PktFromWire parses wire the way the link service does and builds the defn.Pkt it would queue.
func PktFromWire(wire []byte, inFace uint64, token []byte, nextHop *uint64) (*defn.Pkt, error) {
	raw := append([]byte{}, wire...)
	l3, _, err := spec.ReadPacket(enc.NewBufferReader(raw))
	if err != nil {
		return nil, err
	}
	p := &defn.Pkt{Raw: raw, L3: l3, IncomingFaceID: &inFace, NextHopFaceID: nextHop}
	if len(token) > 0 {
		p.PitToken = append([]byte{}, token...)
	}
	if l3.Interest != nil {
		p.Name = l3.Interest.NameV
	} else if l3.Data != nil {
		p.Name = l3.Data.NameV
	}
	return p, nil
}

// Interest feeds one Interest (as Run would after dequeuing it).
func (s *Sim) Interest(p *defn.Pkt) { fwfw.VerifInterest(s.T, p) }

// Data feeds one Data packet.
func (s *Sim) Data(p *defn.Pkt) { fwfw.VerifData(s.T, p) }

// Reap runs the periodic maintenance once.
func (s *Sim) Reap() { fwfw.VerifReap(s.T) }
