// Package fwenv configures the forwarder packages (core config, logger, face
// system, table system) the way the daemon's executor does, for harness use.
package fwenv

import (
	"sync"

	"github.com/named-data/ndnd/fw/core"
	"github.com/named-data/ndnd/fw/defn"
	"github.com/named-data/ndnd/fw/dispatch"
	"github.com/named-data/ndnd/fw/face"
)

// Config returns a default config with quiet logging.
func Config() *core.Config {
	c := core.DefaultConfig()
	c.Core.LogLevel = "FATAL"
	return c
}

var logOnce sync.Once

// Load installs the config and (once) the logger, then configures the face system.
func Load(c *core.Config) {
	core.LoadConfig(c, "/")
	logOnce.Do(func() { core.InitializeLogger("") })
	face.Configure()
}

// RecThread is a recording dispatch.FWThread.
type RecThread struct {
	ID        int
	mu        sync.Mutex
	Interests []*defn.Pkt
	Datas     []*defn.Pkt
}

func (t *RecThread) String() string { return "rec-thread" }
func (t *RecThread) QueueData(p *defn.Pkt) {
	t.mu.Lock()
	t.Datas = append(t.Datas, p)
	t.mu.Unlock()
}
func (t *RecThread) QueueInterest(p *defn.Pkt) {
	t.mu.Lock()
	t.Interests = append(t.Interests, p)
	t.mu.Unlock()
}
func (t *RecThread) GetNumPitEntries() int { return 0 }
func (t *RecThread) GetNumCsEntries() int  { return 0 }
func (t *RecThread) Take() (ints, datas []*defn.Pkt) {
	t.mu.Lock()
	defer t.mu.Unlock()
	ints, datas = t.Interests, t.Datas
	t.Interests, t.Datas = nil, nil
	return
}
func (t *RecThread) Len() int {
	t.mu.Lock()
	defer t.mu.Unlock()
	return len(t.Interests) + len(t.Datas)
}

// InstallRecThreads registers n recording forwarding threads in the dispatch table.
func InstallRecThreads(n int) []*RecThread {
	rts := make([]*RecThread, n)
	fts := make([]dispatch.FWThread, n)
	for i := range rts {
		rts[i] = &RecThread{ID: i}
		fts[i] = rts[i]
	}
	dispatch.InitializeFWThreads(fts)
	return rts
}

// TakeAll empties every recording thread and returns the packets handed up, each packet object
// once: a Data packet without a PIT token is legitimately queued to the threads of all its name
// prefixes (one reassembled packet, several queues).
func TakeAll(rts []*RecThread) []*defn.Pkt {
	var out []*defn.Pkt
	seen := map[*defn.Pkt]bool{}
	for _, t := range rts {
		i, d := t.Take()
		for _, p := range append(i, d...) {
			if !seen[p] {
				seen[p] = true
				out = append(out, p)
			}
		}
	}
	return out
}
