// Package orch is the orchestrator: it never runs repository code itself, it
// fans out child driver processes, merges what their monitors observed,
// decides, writes evidence and prints the verdict.
package orch

import (
	"bufio"
	"crypto/sha1"
	"encoding/json"
	"fmt"
	"os"
	"os/exec"
	"path/filepath"
	"regexp"
	"sort"
	"strconv"
	"strings"
	"sync"
	"syscall"
	"time"

	"verif/internal/h"
)

type KnownFinding struct {
	Status   string `json:"status"` // "open" or "fixed"
	Property string `json:"property"`
	Key      string `json:"key,omitempty"`
	Commit   string `json:"commit,omitempty"`
	What     string `json:"what"`
}

type knownFile struct {
	Findings []KnownFinding `json:"findings"`
}

func verifDir() string {
	if d := os.Getenv("VERIF_DIR"); d != "" {
		return d
	}
	wd, _ := os.Getwd()
	return wd
}

func loadKnown() []KnownFinding {
	b, err := os.ReadFile(filepath.Join(verifDir(), "known_findings.json"))
	if err != nil {
		return nil
	}
	var kf knownFile
	if json.Unmarshal(b, &kf) != nil {
		return nil
	}
	return kf.Findings
}

func seedFromEnv() int64 {
	s := os.Getenv("VERIF_SEED")
	if s == "" {
		return 1
	}
	v, err := strconv.ParseInt(s, 10, 64)
	if err != nil {
		return 1
	}
	return v
}

type childOutcome struct {
	batch    int
	res      *h.Result
	partial  *h.Result
	died     bool
	timedOut bool
	exitCode int
	stderr   string
	lastCase string
	lastLine string
}

var caseRe = regexp.MustCompile(`^CASE (\S+)`)

func readJournalTail(path string) (lastCase, lastLine string) {
	f, err := os.Open(path)
	if err != nil {
		return "", ""
	}
	defer f.Close()
	sc := bufio.NewScanner(f)
	sc.Buffer(make([]byte, 1<<20), 64<<20)
	for sc.Scan() {
		ln := sc.Text()
		if m := caseRe.FindStringSubmatch(ln); m != nil {
			lastCase = m[1]
		}
		if ln != "" {
			lastLine = ln
		}
	}
	if len(lastLine) > 4000 {
		lastLine = lastLine[:4000] + "…"
	}
	return
}

func tailFile(path string, n int) string {
	b, err := os.ReadFile(path)
	if err != nil {
		return ""
	}
	if len(b) > n {
		b = b[len(b)-n:]
	}
	return string(b)
}

func headFile(path string, n int) string {
	f, err := os.Open(path)
	if err != nil {
		return ""
	}
	defer f.Close()
	b := make([]byte, n)
	k, _ := f.Read(b)
	return string(b[:k])
}

// runChild runs one batch in a sacrificial process.
func runChild(p *h.Prop, bin, tier string, seed int64, batch, nbatch int, workDir, onlyCase string, startAt string, attempt int) childOutcome {
	tag := fmt.Sprintf("b%03d.a%d", batch, attempt)
	resPath := filepath.Join(workDir, tag+".result.json")
	jPath := filepath.Join(workDir, tag+".journal")
	outPath := filepath.Join(workDir, tag+".out")
	errPath := filepath.Join(workDir, tag+".err")
	os.Remove(resPath)
	args := []string{"child", p.ID, tier, strconv.FormatInt(seed, 10), strconv.Itoa(batch), strconv.Itoa(nbatch), workDir, resPath, jPath}
	var cmd *exec.Cmd
	if p.MemLimitMB > 0 {
		// RLIMIT_AS through the shell's ulimit (KiB).
		sh := fmt.Sprintf("ulimit -v %d; exec \"$0\" \"$@\"", p.MemLimitMB*1024)
		cmd = exec.Command("bash", append([]string{"-c", sh, bin}, args...)...)
	} else {
		cmd = exec.Command(bin, args...)
	}
	cmd.Env = append(os.Environ(), p.Env...)
	cmd.Env = append(cmd.Env, "VERIF_ONLY_CASE="+onlyCase, "VERIF_START_AT="+startAt, "VERIF_CHILD_TAG="+tag)
	if p.Race {
		cmd.Env = append(cmd.Env, "GORACE=halt_on_error=0 history_size=5 log_path="+filepath.Join(workDir, tag+".race"))
	}
	of, _ := os.Create(outPath)
	ef, _ := os.Create(errPath)
	cmd.Stdout, cmd.Stderr = of, ef
	cmd.SysProcAttr = &syscall.SysProcAttr{Setpgid: true}
	to := 600
	if p.ChildTimeoutS != nil {
		to = p.ChildTimeoutS(tier == "thorough")
	}
	out := childOutcome{batch: batch}
	if err := cmd.Start(); err != nil {
		out.died = true
		out.stderr = "start failed: " + err.Error()
		return out
	}
	done := make(chan error, 1)
	go func() { done <- cmd.Wait() }()
	var werr error
	select {
	case werr = <-done:
	case <-time.After(time.Duration(to) * time.Second):
		out.timedOut = true
		_ = syscall.Kill(-cmd.Process.Pid, syscall.SIGQUIT)
		select {
		case werr = <-done:
		case <-time.After(10 * time.Second):
			_ = syscall.Kill(-cmd.Process.Pid, syscall.SIGKILL)
			werr = <-done
		}
	}
	of.Close()
	ef.Close()
	if werr != nil {
		if ee, ok := werr.(*exec.ExitError); ok {
			out.exitCode = ee.ExitCode()
		} else {
			out.exitCode = -1
		}
	}
	if b, err := os.ReadFile(resPath); err == nil {
		var r h.Result
		if json.Unmarshal(b, &r) == nil && r.Done {
			out.res = &r
		}
	}
	if out.res == nil {
		if b, err := os.ReadFile(resPath + ".partial"); err == nil {
			var r h.Result
			if json.Unmarshal(b, &r) == nil {
				out.partial = &r
			}
		}
		out.died = true
		// the head of stderr holds the panic/fatal message, the tail the stacks
		out.stderr = headFile(errPath, 6000)
		if t := tailFile(errPath, 3000); len(out.stderr) >= 6000 {
			out.stderr += "\n…\n" + t
		}
		out.lastCase, out.lastLine = readJournalTail(jPath)
	}
	return out
}

var frameRe = regexp.MustCompile(`(?m)^(github\.com/named-data/ndnd/[^\s(]+(?:\([^)]*\))?[^\s(]*)\(`)

// crashSignature extracts (class, innermost repo frame) from a Go crash dump.
func crashSignature(stderr string) (class, frame string) {
	class = "process-died"
	for _, ln := range strings.Split(stderr, "\n") {
		if strings.HasPrefix(ln, "panic: ") || strings.HasPrefix(ln, "fatal error: ") {
			class = ln
			break
		}
	}
	// strip volatile numbers
	class = regexp.MustCompile(`0x[0-9a-f]+`).ReplaceAllString(class, "0x?")
	class = regexp.MustCompile(`\d+`).ReplaceAllString(class, "N")
	if len(class) > 160 {
		class = class[:160]
	}
	if m := frameRe.FindStringSubmatch(stderr); m != nil {
		frame = m[1]
	}
	return
}

type Options struct {
	PropID   string
	Tier     string
	Bin      string
	RaceBin  string
	Replay   string
	OnlyCase string
}

// Run executes the whole check for one property and returns the exit code.
func Run(o Options) int {
	p := h.Lookup(o.PropID)
	if p == nil {
		fmt.Fprintf(os.Stderr, "unknown property %q (have %v)\n", o.PropID, h.AllIDs())
		return 3
	}
	start := time.Now()
	seed := seedFromEnv()
	tier := o.Tier
	thorough := tier == "thorough"
	vdir := verifDir()
	workDir := filepath.Join(vdir, "work", fmt.Sprintf("%s-%s-%d", p.ID, tier, os.Getpid()))
	os.RemoveAll(workDir)
	h.MustMkdir(workDir)
	h.MustMkdir(filepath.Join(vdir, "evidence"))
	h.MustMkdir(filepath.Join(vdir, "replays"))
	if o.Replay == "" {
		if old, _ := filepath.Glob(filepath.Join(vdir, "replays", p.ID+"-*.json")); old != nil {
			for _, f := range old {
				os.Remove(f)
			}
		}
	}
	keepWork := os.Getenv("VERIF_KEEP_WORK") != ""
	defer func() {
		if !keepWork {
			os.RemoveAll(workDir)
		}
	}()

	bin := o.Bin
	if p.Race {
		bin = o.RaceBin
	}
	nb := p.Batches(thorough)
	batches := make([]int, 0, nb)
	onlyCase := ""
	if o.Replay != "" {
		b, err := os.ReadFile(o.Replay)
		if err != nil {
			fmt.Fprintln(os.Stderr, "cannot read replay:", err)
			return 3
		}
		var rp struct {
			Seed  int64  `json:"seed"`
			Tier  string `json:"tier"`
			Batch int    `json:"batch"`
			Case  string `json:"case"`
		}
		if err := json.Unmarshal(b, &rp); err != nil {
			fmt.Fprintln(os.Stderr, "bad replay:", err)
			return 3
		}
		seed, tier, thorough = rp.Seed, rp.Tier, rp.Tier == "thorough"
		nb = p.Batches(thorough)
		batches = append(batches, rp.Batch)
		onlyCase = rp.Case
	} else {
		for i := 0; i < nb; i++ {
			batches = append(batches, i)
		}
	}

	par := p.Parallel
	if par <= 0 {
		par = 16
	}
	m := &h.Merged{Distinct: map[string]struct{}{}, Counters: map[string]int64{}, Notes: map[string]string{}}
	var mu sync.Mutex
	sem := make(chan struct{}, par)
	var wg sync.WaitGroup
	addVio := func(v h.Violation, batch int) {
		m.Violations = append(m.Violations, v)
		m.VioBatch = append(m.VioBatch, batch)
	}
	for _, b := range batches {
		wg.Add(1)
		sem <- struct{}{}
		go func(b int) {
			defer wg.Done()
			defer func() { <-sem }()
			startAt := ""
			for attempt := 0; attempt < 12; attempt++ {
				oc := runChild(p, bin, tier, seed, b, nb, workDir, onlyCase, startAt, attempt)
				mu.Lock()
				if oc.res == nil && oc.partial != nil {
					// observations made before the process died (violations of the partial snapshot included)
					r := oc.partial
					m.Evaluations += r.Evaluations
					for _, k := range r.Distinct {
						m.Distinct[k] = struct{}{}
					}
					for k, v := range r.Counters {
						m.Counters[k] += v
					}
					for k, v := range r.Notes {
						m.Notes[k] = v
					}
					for _, v := range r.Violations {
						addVio(v, b)
					}
				}
				if oc.res != nil {
					r := oc.res
					m.Evaluations += r.Evaluations
					for _, k := range r.Distinct {
						m.Distinct[k] = struct{}{}
					}
					if len(m.Samples) < 6 {
						for _, s := range r.Samples {
							if len(m.Samples) < 6 {
								m.Samples = append(m.Samples, s)
							}
						}
					}
					for k, v := range r.Counters {
						m.Counters[k] += v
					}
					for k, v := range r.Notes {
						m.Notes[k] = v
					}
					for _, v := range r.Violations {
						addVio(v, b)
					}
					m.Inconclusive = append(m.Inconclusive, r.Inconclusive...)
					mu.Unlock()
					return
				}
				// child died
				if oc.timedOut {
					m.Inconclusive = append(m.Inconclusive, fmt.Sprintf("batch %d: watchdog fired at case %s (%s)", b, oc.lastCase, trunc(oc.lastLine, 200)))
					m.Counters["watchdog"]++
					mu.Unlock()
					if oc.lastCase == "" || onlyCase != "" {
						return
					}
					startAt = "after:" + oc.lastCase
					continue
				}
				class, frame := crashSignature(oc.stderr)
				m.Counters["child_deaths"]++
				if strings.Contains(oc.stderr, "VERIF-HANG") {
					class = "hang (per-call watchdog)"
					// the frame caught by the dump is arbitrary: key by the case family instead
					frame = "case:" + caseFamily(oc.lastCase)
				}
				key := fmt.Sprintf("%s:died:%s@%s", p.ID, class, frame)
				addVio(h.Violation{Key: key, Case: oc.lastCase,
					What:   fmt.Sprintf("driver process died (%s) in %s", class, frame),
					Detail: map[string]any{"journal_last": oc.lastLine, "stderr": trunc(oc.stderr, 5000), "exit": oc.exitCode}}, b)
				mu.Unlock()
				if oc.lastCase == "" || onlyCase != "" {
					return
				}
				startAt = "after:" + oc.lastCase
			}
		}(b)
	}
	wg.Wait()

	if p.PostProcess != nil {
		p.PostProcess(workDir, m)
	}

	// ---- decide
	known := loadKnown()
	knownOpen := map[string]KnownFinding{}
	for _, k := range known {
		if k.Status == "open" && k.Property == p.ID {
			knownOpen[k.Key] = k
		}
	}
	type agg struct {
		v     h.Violation
		batch int
		n     int
	}
	byKey := map[string]*agg{}
	var order []string
	for i, v := range m.Violations {
		a, ok := byKey[v.Key]
		if !ok {
			byKey[v.Key] = &agg{v: v, batch: m.VioBatch[i], n: 1}
			order = append(order, v.Key)
		} else {
			a.n++
		}
	}
	sort.Strings(order)
	nViol, nKnown := 0, 0
	var lines []string
	for _, k := range order {
		a := byKey[k]
		if kf, ok := knownOpen[k]; ok {
			nKnown++
			lines = append(lines, fmt.Sprintf("KNOWN-FINDING: property=%s %s [key=%s]", p.ID, kf.What, k))
			continue
		}
		nViol++
		sum := sha1.Sum([]byte(k))
		rp := filepath.Join(vdir, "replays", fmt.Sprintf("%s-%x.json", p.ID, sum[:6]))
		rb, _ := json.MarshalIndent(map[string]any{
			"property": p.ID, "seed": seed, "tier": tier, "batch": a.batch, "case": a.v.Case,
			"key": k, "what": a.v.What, "detail": a.v.Detail, "witnesses_with_this_key": a.n,
		}, "", " ")
		_ = os.WriteFile(rp, rb, 0o644)
		lines = append(lines, fmt.Sprintf("VIOLATION property=%s replay=%s", p.ID, rp))
		lines = append(lines, fmt.Sprintf("  what: %s [key=%s]", a.v.What, k))
	}

	// floors
	inconclusive := false
	var floorMsgs []string
	minD := p.MinDistinct
	if minD < 2 {
		minD = 2
	}
	if o.Replay == "" {
		if len(m.Distinct) < minD {
			inconclusive = true
			floorMsgs = append(floorMsgs, fmt.Sprintf("distinct_nontrivial=%d < floor %d", len(m.Distinct), minD))
		}
		for k, f := range p.Floors {
			if m.Counters[k] < f {
				inconclusive = true
				floorMsgs = append(floorMsgs, fmt.Sprintf("counter %s=%d < floor %d", k, m.Counters[k], f))
			}
		}
		if m.Counters["watchdog"] > 0 {
			inconclusive = true
			floorMsgs = append(floorMsgs, fmt.Sprintf("%d child watchdog(s) fired", m.Counters["watchdog"]))
		}
	}

	// ---- evidence
	if o.Replay == "" {
		samples := m.Samples
		if len(samples) == 0 {
			samples = []any{"(no case completed)"}
		}
		cov := map[string]any{
			"evaluations":         m.Evaluations,
			"distinct_nontrivial": len(m.Distinct),
			"rule":                p.Rule,
			"samples":             samples,
			"counters":            m.Counters,
			"batches":             nb,
			"inconclusive":        len(m.Inconclusive),
			"known_findings":      nKnown,
			"exhaustive":          false,
		}
		if len(m.Inconclusive) > 0 {
			cov["inconclusive_notes"] = first(m.Inconclusive, 10)
		}
		if len(m.Notes) > 0 {
			cov["notes"] = m.Notes
		}
		dk := make([]string, 0, len(m.Distinct))
		for k := range m.Distinct {
			dk = append(dk, k)
		}
		sort.Strings(dk)
		cov["distinct_keys_sample"] = first(dk, 40)
		ev := map[string]any{
			"property_id": p.ID, "tier": tier, "seed": seed, "level": p.Level,
			"coverage": cov, "assumptions": p.Assumptions,
			"wall_s":     time.Since(start).Seconds(),
			"violations": nViol,
		}
		eb, _ := json.MarshalIndent(ev, "", " ")
		_ = os.WriteFile(filepath.Join(vdir, "evidence", p.ID+".json"), eb, 0o644)
	}

	for _, l := range lines {
		fmt.Println(l)
	}
	fmt.Printf("%s %s seed=%d: evaluations=%d distinct=%d violations=%d known=%d inconclusive=%d wall=%.1fs\n",
		p.ID, tier, seed, m.Evaluations, len(m.Distinct), nViol, nKnown, len(m.Inconclusive), time.Since(start).Seconds())
	if nViol > 0 {
		return 1
	}
	if inconclusive {
		fmt.Printf("INCONCLUSIVE property=%s %s\n", p.ID, strings.Join(floorMsgs, "; "))
		return 2
	}
	return 0
}

func trunc(s string, n int) string {
	if len(s) > n {
		return s[:n] + "…"
	}
	return s
}

func first[T any](s []T, n int) []T {
	if len(s) > n {
		return s[:n]
	}
	return s
}

// caseFamily strips the per-case indices from a case id (A/target/3/17 -> A/target).
func caseFamily(id string) string {
	parts := strings.Split(id, "/")
	var keep []string
	for _, p := range parts {
		if _, err := strconv.Atoi(p); err == nil {
			continue
		}
		keep = append(keep, p)
	}
	return strings.Join(keep, "/")
}
