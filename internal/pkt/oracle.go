package pkt

import (
	"bytes"
	"crypto/sha256"
	"fmt"
	"time"

	enc "github.com/named-data/ndnd/std/encoding"
	"github.com/named-data/ndnd/std/ndn"
	spec "github.com/named-data/ndnd/std/ndn/spec_2022"

	"verif/internal/tlvwalk"
)

// Fields is the observable content of a decoded packet, flattened.
type Fields struct {
	Kind        string
	Name        enc.Name
	CBP, MBF    bool
	Hints       []enc.Name
	Nonce       *uint64
	Lifetime    *time.Duration
	HopLimit    *uint
	ContentType *uint64
	Freshness   *time.Duration
	FinalBlock  *enc.Component
	HasPayload  bool
	Payload     []byte
	SigType     int
	KeyName     enc.Name
	SigValue    []byte
	HasSigValue bool
	SigCovered  []byte
	SigNonce    []byte
	SigTime     *time.Time
	SigSeq      *uint64
	// Data: ValidityPeriod of the SignatureInfo (certificate signers)
	NotBefore, NotAfter *time.Time
}

func cloneName(n enc.Name) enc.Name {
	if n == nil {
		return nil
	}
	return n.Clone()
}

// FromData flattens a decoded Data (copying everything: decoders may alias the input).
func FromData(d ndn.Data, covered enc.Wire) *Fields {
	f := &Fields{Kind: "data", Name: cloneName(d.Name())}
	if ct := d.ContentType(); ct != nil {
		v := uint64(*ct)
		f.ContentType = &v
	}
	if fr := d.Freshness(); fr != nil {
		v := *fr
		f.Freshness = &v
	}
	if fb := d.FinalBlockID(); fb != nil {
		c := fb.Clone()
		f.FinalBlock = &c
	}
	if c := d.Content(); c != nil {
		f.HasPayload = true
		f.Payload = append([]byte{}, c.Join()...)
	}
	sig := d.Signature()
	f.SigType = int(sig.SigType())
	f.KeyName = cloneName(sig.KeyName())
	if sv := sig.SigValue(); sv != nil {
		f.HasSigValue = true
		f.SigValue = append([]byte{}, sv...)
	}
	if nb, na := sig.Validity(); nb != nil || na != nil {
		if nb != nil {
			v := *nb
			f.NotBefore = &v
		}
		if na != nil {
			v := *na
			f.NotAfter = &v
		}
	}
	f.SigCovered = append([]byte{}, covered.Join()...)
	return f
}

func FromInterest(i ndn.Interest, covered enc.Wire) *Fields {
	f := &Fields{Kind: "interest", Name: cloneName(i.Name()), CBP: i.CanBePrefix(), MBF: i.MustBeFresh()}
	for _, hn := range i.ForwardingHint() {
		f.Hints = append(f.Hints, cloneName(hn))
	}
	if n := i.Nonce(); n != nil {
		v := *n
		f.Nonce = &v
	}
	if l := i.Lifetime(); l != nil {
		v := *l
		f.Lifetime = &v
	}
	if hl := i.HopLimit(); hl != nil {
		v := *hl
		f.HopLimit = &v
	}
	if p := i.AppParam(); p != nil {
		f.HasPayload = true
		f.Payload = append([]byte{}, p.Join()...)
	}
	sig := i.Signature()
	f.SigType = int(sig.SigType())
	f.KeyName = cloneName(sig.KeyName())
	if sv := sig.SigValue(); len(sv) > 0 {
		f.HasSigValue = true
		f.SigValue = append([]byte{}, sv...)
	}
	f.SigNonce = append([]byte(nil), sig.SigNonce()...)
	if st := sig.SigTime(); st != nil {
		v := *st
		f.SigTime = &v
	}
	if sq := sig.SigSeqNum(); sq != nil {
		v := *sq
		f.SigSeq = &v
	}
	f.SigCovered = append([]byte{}, covered.Join()...)
	return f
}

func nameEq(a, b enc.Name) bool {
	if len(a) != len(b) {
		return false
	}
	for i := range a {
		if a[i].Typ != b[i].Typ || !bytes.Equal(a[i].Val, b[i].Val) {
			return false
		}
	}
	return true
}

func ptrEq[T comparable](a, b *T) bool {
	if a == nil || b == nil {
		return a == nil && b == nil
	}
	return *a == *b
}

// Diff lists the field names on which two flattened packets differ.
func Diff(a, b *Fields) []string {
	var d []string
	add := func(cond bool, n string) {
		if !cond {
			d = append(d, n)
		}
	}
	add(a.Kind == b.Kind, "kind")
	add(nameEq(a.Name, b.Name), "name")
	add(a.CBP == b.CBP, "can-be-prefix")
	add(a.MBF == b.MBF, "must-be-fresh")
	if len(a.Hints) != len(b.Hints) {
		d = append(d, "forwarding-hint")
	} else {
		for i := range a.Hints {
			if !nameEq(a.Hints[i], b.Hints[i]) {
				d = append(d, "forwarding-hint")
				break
			}
		}
	}
	add(ptrEq(a.Nonce, b.Nonce), "nonce")
	add(ptrEq(a.Lifetime, b.Lifetime), "lifetime")
	add(ptrEq(a.HopLimit, b.HopLimit), "hop-limit")
	add(ptrEq(a.ContentType, b.ContentType), "content-type")
	add(ptrEq(a.Freshness, b.Freshness), "freshness")
	if (a.FinalBlock == nil) != (b.FinalBlock == nil) || (a.FinalBlock != nil && (a.FinalBlock.Typ != b.FinalBlock.Typ || !bytes.Equal(a.FinalBlock.Val, b.FinalBlock.Val))) {
		d = append(d, "final-block-id")
	}
	add(a.HasPayload == b.HasPayload, "payload-presence")
	add(bytes.Equal(a.Payload, b.Payload), "payload")
	add(a.SigType == b.SigType, "sig-type")
	add(nameEq(a.KeyName, b.KeyName), "key-name")
	add(a.HasSigValue == b.HasSigValue, "sig-value-presence")
	add(bytes.Equal(a.SigValue, b.SigValue), "sig-value")
	add(bytes.Equal(a.SigNonce, b.SigNonce), "sig-nonce")
	if (a.SigTime == nil) != (b.SigTime == nil) || (a.SigTime != nil && !a.SigTime.Equal(*b.SigTime)) {
		d = append(d, "sig-time")
	}
	add(ptrEq(a.SigSeq, b.SigSeq), "sig-seq")
	// the validity period is written with one-second resolution from the signer's own clock
	// reading: equal means the same instant within a few seconds, whatever the time zone
	near := func(x, y *time.Time) bool {
		if (x == nil) != (y == nil) {
			return false
		}
		if x == nil {
			return true
		}
		dd := x.Sub(*y)
		return dd > -5*time.Second && dd < 5*time.Second
	}
	add(near(a.NotBefore, b.NotBefore) && near(a.NotAfter, b.NotAfter), "validity-period")
	return d
}

// Layout is what the independent walker finds in an encoded packet.
type Layout struct {
	Root         *tlvwalk.Node
	NameNode     *tlvwalk.Node
	Signed       []byte // bytes the NDN spec says are signed ("" when unsigned)
	HasSig       bool
	SigValue     []byte
	SigValOff    int
	SigValEnd    int
	Digest       []byte // Interest: sha256 over ApplicationParameters..end (nil when no parameters)
	DigestComp   *tlvwalk.Node
	ParamsNode   *tlvwalk.Node
	SignedRanges [][2]int
}

// Analyse walks an encoded Interest/Data strictly and locates the signed ranges per the NDN packet spec.
func Analyse(b []byte) (*Layout, error) {
	root, err := tlvwalk.One(b, tlvwalk.PacketNest, true)
	if err != nil {
		return nil, err
	}
	l := &Layout{Root: root}
	switch root.Type {
	case 6:
		nm := root.Child(7)
		if nm == nil {
			return nil, fmt.Errorf("Data without Name")
		}
		l.NameNode = nm
		if sv := root.Child(0x17); sv != nil {
			l.HasSig = true
			l.SigValue = b[sv.ValOff:sv.End]
			l.SigValOff, l.SigValEnd = sv.ValOff, sv.End
			l.Signed = b[nm.Off:sv.Off]
			l.SignedRanges = [][2]int{{nm.Off, sv.Off}}
		}
	case 5:
		nm := root.Child(7)
		if nm == nil {
			return nil, fmt.Errorf("Interest without Name")
		}
		l.NameNode = nm
		ap := root.Child(0x24)
		l.ParamsNode = ap
		for _, c := range nm.Children {
			if c.Type == 2 {
				l.DigestComp = c
			}
		}
		if ap != nil {
			hsh := sha256.Sum256(b[ap.Off:root.End])
			l.Digest = hsh[:]
		}
		if sv := root.Child(0x2e); sv != nil && ap != nil {
			l.HasSig = true
			l.SigValue = b[sv.ValOff:sv.End]
			l.SigValOff, l.SigValEnd = sv.ValOff, sv.End
			var s []byte
			for _, c := range nm.Children {
				// the parameters digest is not signed. The NDN packet format allows exactly one such
				// component; in a name that carries several (a follow-up Interest built on an earlier
				// parameterized Interest's name) the last one is this Interest's digest and the earlier
				// ones are ordinary, signed components - the convention the encoder follows
				if c.Type == 2 && c == l.DigestComp {
					continue
				}
				s = append(s, b[c.Off:c.End]...)
				l.SignedRanges = append(l.SignedRanges, [2]int{c.Off, c.End})
			}
			s = append(s, b[ap.Off:sv.Off]...)
			l.SignedRanges = append(l.SignedRanges, [2]int{ap.Off, sv.Off})
			l.Signed = s
		}
	default:
		return nil, fmt.Errorf("top-level type %d is neither Interest nor Data", root.Type)
	}
	return l, nil
}

// Decode runs the repository decoder on a reader.
func Decode(kind string, r enc.ParseReader) (*Fields, error) {
	sp := spec.Spec{}
	if kind == "data" {
		d, cov, err := sp.ReadData(r)
		if err != nil {
			return nil, err
		}
		return FromData(d, cov), nil
	}
	i, cov, err := sp.ReadInterest(r)
	if err != nil {
		return nil, err
	}
	return FromInterest(i, cov), nil
}

// DecodePacket runs ReadPacket and flattens whichever packet it returned.
func DecodePacket(r enc.ParseReader) (*Fields, error) {
	p, ctx, err := spec.ReadPacket(r)
	if err != nil {
		return nil, err
	}
	switch {
	case p.Data != nil:
		return FromData(p.Data, ctx.Data_context.SigCovered()), nil
	case p.Interest != nil:
		return FromInterest(p.Interest, ctx.Interest_context.SigCovered()), nil
	}
	return nil, fmt.Errorf("ReadPacket returned neither Interest nor Data")
}

// Segment cuts b at the given ascending offsets.
func Segment(b []byte, cuts []int) enc.Wire {
	w := enc.Wire{}
	prev := 0
	for _, c := range cuts {
		if c < prev || c > len(b) {
			continue
		}
		if c == prev || c == len(b) {
			// a repeated cut (or one at either end) stands for an empty buffer at that position: the
			// repository's own encoders emit such wires (an empty content buffer between two headers)
			if c == len(b) && prev < len(b) {
				w = append(w, append([]byte{}, b[prev:]...))
				prev = len(b)
			}
			w = append(w, []byte{})
			continue
		}
		w = append(w, append([]byte{}, b[prev:c]...))
		prev = c
	}
	if prev < len(b) || len(w) == 0 {
		w = append(w, append([]byte{}, b[prev:]...))
	}
	return w
}

// DecodeSig decodes and returns the signature view plus the signed portion
// exactly as the repository decoder reports them (for validators).
func DecodeSig(kind string, r enc.ParseReader) (ndn.Signature, enc.Wire, error) {
	sp := spec.Spec{}
	if kind == "data" {
		d, cov, err := sp.ReadData(r)
		if err != nil {
			return nil, nil, err
		}
		return d.Signature(), cov, nil
	}
	i, cov, err := sp.ReadInterest(r)
	if err != nil {
		return nil, nil, err
	}
	return i.Signature(), cov, nil
}
