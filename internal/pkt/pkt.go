// Package pkt generates Interest/Data construction cases and builds them
// through the repository's packet API (shared by C03, C04 seeds, C12).
package pkt

import (
	"crypto/ecdsa"
	"crypto/elliptic"
	crand "crypto/rand"
	"crypto/rsa"
	"fmt"
	"math/rand"
	"sync"
	"time"

	enc "github.com/named-data/ndnd/std/encoding"
	"github.com/named-data/ndnd/std/ndn"
	spec "github.com/named-data/ndnd/std/ndn/spec_2022"
	sec "github.com/named-data/ndnd/std/security"
	"github.com/named-data/ndnd/std/utils"

	"verif/internal/gen"
)

// VTimer is a fixed-time ndn.Timer for the Interest signers.
type VTimer struct{ T time.Time }

func (t VTimer) Now() time.Time                            { return t.T }
func (VTimer) Sleep(time.Duration)                         {}
func (VTimer) Schedule(time.Duration, func()) func() error { return func() error { return nil } }
func (VTimer) Nonce() []byte                               { return []byte{1, 2, 3, 4, 5, 6, 7, 8} }

type Keys struct {
	Ecc     *ecdsa.PrivateKey
	Ecc384  *ecdsa.PrivateKey
	Ecc224  *ecdsa.PrivateKey
	Ecc521  *ecdsa.PrivateKey
	Rsa1024 *rsa.PrivateKey
	Rsa2048 *rsa.PrivateKey
	Hmac    []byte
}

var (
	keysOnce sync.Once
	keys     *Keys
)

// HmacKeyLen, when set before the first GetKeys call, chooses the length of the shared HMAC key.
var HmacKeyLen int

func GetKeys() *Keys {
	keysOnce.Do(func() {
		k := &Keys{Hmac: []byte("verif-hmac-key-0123456789")}
		if HmacKeyLen > 0 {
			// shared keys of other lengths (up to, at and beyond the hash's 64-byte block size)
			k.Hmac = make([]byte, HmacKeyLen)
			for i := range k.Hmac {
				k.Hmac[i] = byte(0x30 + i*7%75)
			}
		}
		k.Ecc, _ = ecdsa.GenerateKey(elliptic.P256(), crand.Reader)
		k.Ecc384, _ = ecdsa.GenerateKey(elliptic.P384(), crand.Reader)
		k.Ecc224, _ = ecdsa.GenerateKey(elliptic.P224(), crand.Reader)
		k.Ecc521, _ = ecdsa.GenerateKey(elliptic.P521(), crand.Reader)
		k.Rsa1024, _ = rsa.GenerateKey(crand.Reader, 1024)
		k.Rsa2048, _ = rsa.GenerateKey(crand.Reader, 2048)
		keys = k
	})
	return keys
}

// Case is one packet-construction case.
type Case struct {
	Kind    string // "data" or "interest"
	Name    enc.Name
	DCfg    ndn.DataConfig
	ICfg    ndn.InterestConfig
	Payload [][]byte // nil => nil wire (no Content / no ApplicationParameters)
	Signer  string
	KeyName enc.Name
}

var DataSigners = []string{"none", "none", "sha256", "sha256", "hmac", "ecc", "ecc384", "ecc224", "ecc521", "rsa1024", "rsa2048", "empty", "hmac-cert"}
var IntSigners = []string{"none", "none", "none", "sha256int", "hmacint", "eccint", "rsa1024int", "sha256", "hmac", "ecc"}

var lenBoundaries = []int{0, 1, 2, 100, 252, 253, 254, 255, 256, 300, 1000}
var bigLens = []int{65535, 65536, 70000}

func payloadLen(r *rand.Rand) int {
	switch r.Intn(20) {
	case 0:
		return bigLens[r.Intn(len(bigLens))]
	case 1, 2, 3, 4, 5, 6:
		return lenBoundaries[r.Intn(len(lenBoundaries))]
	default:
		return r.Intn(400)
	}
}

func randBytes(r *rand.Rand, n int) []byte {
	b := make([]byte, n)
	r.Read(b)
	return b
}

// split cuts b into 1..5 buffers (possibly empty ones).
func split(r *rand.Rand, b []byte) [][]byte {
	k := 1 + r.Intn(5)
	if r.Intn(3) == 0 {
		k = 1
	}
	out := make([][]byte, 0, k)
	rest := b
	for i := 0; i < k-1; i++ {
		c := 0
		if len(rest) > 0 {
			c = r.Intn(len(rest) + 1)
		}
		out = append(out, rest[:c:c])
		rest = rest[c:]
	}
	out = append(out, rest)
	return out
}

// bigName returns a name crossing the 253 / 65536 encoding boundaries.
func bigName(r *rand.Rand) enc.Name {
	switch r.Intn(5) {
	case 0: // one long component
		l := []int{252, 253, 254, 300, 65535, 65536}[r.Intn(6)]
		return enc.Name{enc.NewStringComponent(8, "p"), enc.Component{Typ: 8, Val: randBytes(r, l)}}
	case 1: // whole name crosses 253 with small components
		n := enc.Name{}
		total := 240 + r.Intn(30)
		for n.EncodingLength() < total {
			n = append(n, enc.Component{Typ: 8, Val: randBytes(r, 1+r.Intn(12))})
		}
		return n
	case 2: // exactly around 253 total
		target := 250 + r.Intn(8)
		n := enc.Name{enc.NewStringComponent(8, "x")}
		rem := target - n.EncodingLength() - 2
		if rem < 0 {
			rem = 0
		}
		n = append(n, enc.Component{Typ: 8, Val: randBytes(r, rem)})
		return n
	case 3: // whole name crosses 65536
		n := enc.Name{}
		for i := 0; i < 3; i++ {
			n = append(n, enc.Component{Typ: 8, Val: randBytes(r, 21800+r.Intn(100))})
		}
		return n
	default: // long typed component
		return enc.Name{enc.Component{Typ: enc.TLNum(gen.CompTypes[r.Intn(len(gen.CompTypes))]), Val: randBytes(r, 253+r.Intn(10))}}
	}
}

func genName(r *rand.Rand) enc.Name {
	if r.Intn(6) == 0 {
		return bigName(r)
	}
	if r.Intn(12) == 0 {
		// deep names: many short components (a loop bound or a pre-sized slice that is right for the
		// usual handful of components is wrong here)
		n := enc.Name{}
		for k := []int{31, 32, 33, 63, 64, 65, 66, 100, 129}[r.Intn(9)]; k > 0; k-- {
			n = append(n, enc.Component{Typ: 8, Val: randBytes(r, r.Intn(3))})
		}
		return n
	}
	n := gen.Name(r, 8, 20)
	// type 2 (params digest) components in Interest names confuse the digest
	// placement on purpose only rarely; keep them out of ordinary cases.
	return n
}

var natB = []uint64{0, 1, 255, 256, 65535, 65536, 1<<32 - 1, 1 << 32, 1<<40 + 5}

func durB(r *rand.Rand) time.Duration {
	ms := []int64{0, 1, 255, 256, 4000, 65535, 65536, 1<<32 - 1, 1 << 32, 1 << 40}[r.Intn(10)]
	return time.Duration(ms) * time.Millisecond
}

// Gen generates a case.
func Gen(r *rand.Rand) *Case {
	c := &Case{}
	c.Name = genName(r)
	c.KeyName = enc.Name{enc.NewStringComponent(8, "key"), enc.NewStringComponent(8, "KEY"), enc.Component{Typ: 8, Val: randBytes(r, 1+r.Intn(8))}}
	if r.Intn(2) == 0 {
		c.Kind = "data"
		if r.Intn(2) == 0 {
			c.DCfg.ContentType = utils.IdPtr(ndn.ContentType(natB[r.Intn(len(natB))]))
		}
		if r.Intn(2) == 0 {
			c.DCfg.Freshness = utils.IdPtr(durB(r))
		}
		if r.Intn(2) == 0 {
			fb := gen.Comp(r, 12)
			if r.Intn(6) == 0 {
				fb = enc.Component{Typ: 8, Val: randBytes(r, 253+r.Intn(5))}
			}
			c.DCfg.FinalBlockID = &fb
		}
		if r.Intn(8) != 0 {
			c.Payload = split(r, randBytes(r, payloadLen(r)))
		}
		c.Signer = DataSigners[r.Intn(len(DataSigners))]
	} else {
		c.Kind = "interest"
		c.ICfg.CanBePrefix = r.Intn(2) == 0
		c.ICfg.MustBeFresh = r.Intn(2) == 0
		if r.Intn(3) == 0 {
			k := 1 + r.Intn(3)
			for i := 0; i < k; i++ {
				c.ICfg.ForwardingHint = append(c.ICfg.ForwardingHint, gen.Name(r, 4, 10))
			}
			if r.Intn(8) == 0 {
				c.ICfg.ForwardingHint = append(c.ICfg.ForwardingHint, bigName(r))
			}
		}
		if r.Intn(2) == 0 {
			c.ICfg.Nonce = utils.IdPtr([]uint64{0, 1, 255, 256, 0xffffffff, 0x80000000, uint64(r.Uint32())}[r.Intn(7)])
		}
		if r.Intn(2) == 0 {
			c.ICfg.Lifetime = utils.IdPtr(durB(r))
		}
		if r.Intn(2) == 0 {
			c.ICfg.HopLimit = utils.IdPtr(uint([]int{0, 1, 2, 127, 128, 255}[r.Intn(6)]))
		}
		c.Signer = IntSigners[r.Intn(len(IntSigners))]
		// An Interest name carrying a ParametersSha256Digest component that the
		// caller invented is "replace/strip the placeholder" territory of the API
		// (and an invalid Interest per the NDN spec without parameters), not a
		// round trip case: keep type 2 out of generated Interest names.
		for i := range c.Name {
			if c.Name[i].Typ == enc.TypeParametersSha256DigestComponent {
				c.Name[i].Typ = enc.TypeGenericNameComponent
			}
		}
		if c.Signer != "none" || r.Intn(3) == 0 {
			c.Payload = split(r, randBytes(r, payloadLen(r)))
		}
	}
	return c
}

// MakeSigner instantiates the signer named in the case.
func (c *Case) MakeSigner() ndn.Signer {
	k := GetKeys()
	tm := VTimer{T: time.UnixMilli(1700000000123)}
	switch c.Signer {
	case "none":
		return nil
	case "sha256":
		return sec.NewSha256Signer()
	case "sha256int":
		return sec.NewSha256IntSigner(tm)
	case "hmac":
		return sec.NewHmacSigner(c.KeyName, k.Hmac, false, 0)
	case "hmac-cert":
		return sec.NewHmacSigner(c.KeyName, k.Hmac, true, time.Hour)
	case "hmacint":
		return sec.NewHmacIntSigner(k.Hmac, tm)
	case "ecc":
		return sec.NewEccSigner(false, false, 0, k.Ecc, c.KeyName)
	case "ecc384":
		return sec.NewEccSigner(false, false, 0, k.Ecc384, c.KeyName)
	case "ecc224":
		return sec.NewEccSigner(false, false, 0, k.Ecc224, c.KeyName)
	case "ecc521":
		return sec.NewEccSigner(false, false, 0, k.Ecc521, c.KeyName)
	case "eccint":
		return sec.NewEccSigner(false, true, 0, k.Ecc, c.KeyName)
	case "rsa1024":
		return sec.NewRsaSigner(false, false, 0, k.Rsa1024, c.KeyName)
	case "rsa2048":
		return sec.NewRsaSigner(false, false, 0, k.Rsa2048, c.KeyName)
	case "rsa1024int":
		return sec.NewRsaSigner(false, true, 0, k.Rsa1024, c.KeyName)
	case "empty":
		return sec.NewEmptySigner()
	}
	panic("unknown signer " + c.Signer)
}

// PayloadWire returns the payload as a fresh enc.Wire (nil when absent).
func (c *Case) PayloadWire() enc.Wire {
	if c.Payload == nil {
		return nil
	}
	w := make(enc.Wire, len(c.Payload))
	for i, b := range c.Payload {
		w[i] = append([]byte{}, b...)
	}
	return w
}

func (c *Case) PayloadBytes() []byte {
	var out []byte
	for _, b := range c.Payload {
		out = append(out, b...)
	}
	return out
}

// Built is the output of the packet API.
type Built struct {
	Wire       enc.Wire
	Bytes      []byte
	SigCovered enc.Wire
	FinalName  enc.Name
}

// Build runs MakeData / MakeInterest.
func (c *Case) Build() (*Built, error) {
	return c.BuildWith(c.MakeSigner())
}

// BuildWith runs MakeData / MakeInterest with a signer object supplied by the caller
// (so that one signer can be used for several packets, as applications do).
func (c *Case) BuildWith(signer ndn.Signer) (*Built, error) {
	sp := spec.Spec{}
	name := c.Name.Clone()
	if c.Kind == "data" {
		cfg := c.DCfg
		ed, err := sp.MakeData(name, &cfg, c.PayloadWire(), signer)
		if err != nil {
			return nil, err
		}
		return &Built{Wire: ed.Wire, Bytes: append([]byte{}, ed.Wire.Join()...), SigCovered: ed.SigCovered, FinalName: name}, nil
	}
	cfg := c.ICfg
	ei, err := sp.MakeInterest(name, &cfg, c.PayloadWire(), signer)
	if err != nil {
		return nil, err
	}
	return &Built{Wire: ei.Wire, Bytes: append([]byte{}, ei.Wire.Join()...), SigCovered: ei.SigCovered, FinalName: ei.FinalName}, nil
}

// Describe renders the case for evidence / replay files.
func (c *Case) Describe() map[string]any {
	comps := make([]string, len(c.Name))
	for i, x := range c.Name {
		v := x.Val
		if len(v) > 16 {
			comps[i] = fmt.Sprintf("%d=<%d bytes>", uint64(x.Typ), len(v))
		} else {
			comps[i] = fmt.Sprintf("%d=%x", uint64(x.Typ), v)
		}
	}
	d := map[string]any{"kind": c.Kind, "name": comps, "signer": c.Signer}
	if c.Payload == nil {
		d["payload"] = nil
	} else {
		ls := make([]int, len(c.Payload))
		for i, b := range c.Payload {
			ls[i] = len(b)
		}
		d["payload_buffers"] = ls
	}
	if c.Kind == "data" {
		if c.DCfg.ContentType != nil {
			d["content_type"] = uint64(*c.DCfg.ContentType)
		}
		if c.DCfg.Freshness != nil {
			d["freshness_ms"] = c.DCfg.Freshness.Milliseconds()
		}
		if c.DCfg.FinalBlockID != nil {
			d["final_block"] = fmt.Sprintf("%d=<%d bytes>", uint64(c.DCfg.FinalBlockID.Typ), len(c.DCfg.FinalBlockID.Val))
		}
	} else {
		d["cbp"], d["mbf"] = c.ICfg.CanBePrefix, c.ICfg.MustBeFresh
		if c.ICfg.Nonce != nil {
			d["nonce"] = *c.ICfg.Nonce
		}
		if c.ICfg.Lifetime != nil {
			d["lifetime_ms"] = c.ICfg.Lifetime.Milliseconds()
		}
		if c.ICfg.HopLimit != nil {
			d["hop_limit"] = *c.ICfg.HopLimit
		}
		d["hints"] = len(c.ICfg.ForwardingHint)
	}
	return d
}

// Shape is the distinct-class fingerprint of a case.
func (c *Case) Shape() string {
	lc := func(n int) string {
		switch {
		case n == 0:
			return "0"
		case n < 253:
			return "s"
		case n < 65536:
			return "m"
		}
		return "L"
	}
	maxComp := 0
	for _, x := range c.Name {
		if len(x.Val) > maxComp {
			maxComp = len(x.Val)
		}
	}
	opt := ""
	if c.Kind == "data" {
		opt = fmt.Sprintf("%v%v%v", c.DCfg.ContentType != nil, c.DCfg.Freshness != nil, c.DCfg.FinalBlockID != nil)
	} else {
		opt = fmt.Sprintf("%v%v%v%v%v%v", c.ICfg.CanBePrefix, c.ICfg.MustBeFresh, c.ICfg.ForwardingHint != nil, c.ICfg.Nonce != nil, c.ICfg.Lifetime != nil, c.ICfg.HopLimit != nil)
	}
	pl := "nil"
	if c.Payload != nil {
		pl = fmt.Sprintf("%s/%d", lc(len(c.PayloadBytes())), len(c.Payload))
	}
	return fmt.Sprintf("%s|%s|%s|name:%s/%s|pl:%s", c.Kind, c.Signer, opt, lc(c.Name.EncodingLength()), lc(maxComp), pl)
}
