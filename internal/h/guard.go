package h

import (
	"fmt"
	"regexp"
	"runtime/debug"
	"strings"
)

// PanicInfo describes a recovered panic.
type PanicInfo struct {
	Value string // fmt of the panic value
	Class string // value with numbers stripped (stable)
	Frame string // innermost github.com/named-data/ndnd frame (function name)
	Stack string
}

var numRe = regexp.MustCompile(`\d+`)
var hexRe = regexp.MustCompile(`0x[0-9a-fA-F]+`)

// Guard runs fn and converts a panic into a PanicInfo.
func Guard(fn func()) (pi *PanicInfo) {
	defer func() {
		if r := recover(); r != nil {
			st := string(debug.Stack())
			val := fmt.Sprint(r)
			cls := hexRe.ReplaceAllString(val, "0x?")
			cls = numRe.ReplaceAllString(cls, "N")
			if len(cls) > 120 {
				cls = cls[:120]
			}
			pi = &PanicInfo{Value: val, Class: cls, Frame: innermostRepoFrame(st), Stack: st}
		}
	}()
	fn()
	return nil
}

func innermostRepoFrame(st string) string {
	for _, ln := range strings.Split(st, "\n") {
		if strings.HasPrefix(ln, "github.com/named-data/ndnd/") {
			if i := strings.LastIndex(ln, "("); i > 0 {
				ln = ln[:i]
			}
			return strings.TrimPrefix(ln, "github.com/named-data/ndnd/")
		}
	}
	return "?"
}
