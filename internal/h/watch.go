package h

import (
	"fmt"
	"os"
	"runtime"
	"runtime/metrics"
	"sync/atomic"
	"syscall"
	"time"
)

// CallWatch is a per-call wall-clock watchdog: if a single call of repo code
// takes longer than limit the process prints VERIF-HANG (with the case id and
// all goroutine stacks) and exits with status 86. The orchestrator turns that
// into a witness attributed to the journalled case.
type CallWatch struct {
	start atomic.Int64
	id    atomic.Value
	limit time.Duration
}

func NewCallWatch(limit time.Duration) *CallWatch {
	w := &CallWatch{limit: limit}
	w.id.Store("")
	go func() {
		for {
			time.Sleep(250 * time.Millisecond)
			s := w.start.Load()
			if s != 0 && time.Since(time.Unix(0, s)) > w.limit {
				buf := make([]byte, 1<<20)
				n := runtime.Stack(buf, true)
				fmt.Fprintf(os.Stderr, "VERIF-HANG case=%v after %v\n%s\n", w.id.Load(), w.limit, buf[:n])
				os.Exit(86)
			}
		}
	}()
	return w
}

func (w *CallWatch) Begin(id string) {
	w.id.Store(id)
	w.start.Store(time.Now().UnixNano())
}

func (w *CallWatch) End() { w.start.Store(0) }

var allocSample = []metrics.Sample{{Name: "/gc/heap/allocs:bytes"}}

// AllocBytes returns the cumulative bytes allocated on the heap by this process.
func AllocBytes() uint64 {
	metrics.Read(allocSample)
	if allocSample[0].Value.Kind() == metrics.KindUint64 {
		return allocSample[0].Value.Uint64()
	}
	var ms runtime.MemStats
	runtime.ReadMemStats(&ms)
	return ms.TotalAlloc
}

// ThreadCPU returns the CPU time (user+system) consumed so far by the calling OS thread. The
// caller must have locked its goroutine to the thread (runtime.LockOSThread). Unlike wall time it
// does not grow while the thread waits for a busy machine.
func ThreadCPU() time.Duration {
	var ru syscall.Rusage
	const rusageThread = 1 // RUSAGE_THREAD (Linux)
	if err := syscall.Getrusage(rusageThread, &ru); err != nil {
		return -1
	}
	return time.Duration(ru.Utime.Nano() + ru.Stime.Nano())
}
