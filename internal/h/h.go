// Package h is the shared child/orchestrator plumbing of the verification
// drivers: journalling, observation counters, violations, evidence.
package h

import (
	"encoding/json"
	"fmt"
	"math/rand"
	"os"
	"path/filepath"
	"sort"
	"strings"
	"sync"
	"time"
)

// Violation is one witness of a property violation found by a monitor.
type Violation struct {
	Key    string `json:"key"`    // stable classification (no random data): used for known findings & dedup
	What   string `json:"what"`   // one line, human readable
	Case   string `json:"case"`   // case id inside the batch (replayable)
	Detail any    `json:"detail"` // the concrete history / input / expected / observed
}

// Result is what a child process reports for one batch.
type Result struct {
	Prop         string            `json:"prop"`
	Tier         string            `json:"tier"`
	Seed         int64             `json:"seed"`
	Batch        int               `json:"batch"`
	Evaluations  int64             `json:"evaluations"`
	Distinct     []string          `json:"distinct"`
	Samples      []any             `json:"samples"`
	Counters     map[string]int64  `json:"counters"`
	Violations   []Violation       `json:"violations"`
	Inconclusive []string          `json:"inconclusive"`
	Notes        map[string]string `json:"notes,omitempty"`
	Done         bool              `json:"done"`
}

// Ctx is handed to a property driver running in a child process.
type Ctx struct {
	mu          sync.Mutex
	Prop        string
	Tier        string
	Seed        int64
	Batch       int
	NBatch      int
	OnlyCase    string // replay filter ("" = all)
	WorkDir     string
	res         Result
	distinct    map[string]struct{}
	vioKeys     map[string]int
	journal     *os.File
	maxSamp     int
	startAfter  string
	skipping    bool
	partialPath string
	lastFlush   time.Time
	nCases      int
}

func NewCtx(prop, tier string, seed int64, batch, nbatch int, workDir, journalPath, onlyCase string) *Ctx {
	c := &Ctx{Prop: prop, Tier: tier, Seed: seed, Batch: batch, NBatch: nbatch, WorkDir: workDir, OnlyCase: onlyCase,
		distinct: map[string]struct{}{}, vioKeys: map[string]int{}, maxSamp: 4}
	c.res = Result{Prop: prop, Tier: tier, Seed: seed, Batch: batch, Counters: map[string]int64{}, Notes: map[string]string{}}
	if journalPath != "" {
		f, err := os.OpenFile(journalPath, os.O_CREATE|os.O_WRONLY|os.O_TRUNC, 0o644)
		if err == nil {
			c.journal = f
		}
	}
	return c
}

// Thorough reports whether the tier is "thorough".
func (c *Ctx) Thorough() bool { return c.Tier == "thorough" }

// Pick returns q for quick and t for thorough.
func (c *Ctx) Pick(q, t int) int {
	if c.Thorough() {
		return t
	}
	return q
}

// Rng returns a PRNG that is a pure function of (seed, prop, batch, salt).
func (c *Ctx) Rng(salt string) *rand.Rand {
	var hsh uint64 = 1469598103934665603
	for _, b := range []byte(fmt.Sprintf("%s|%d|%d|%s", c.Prop, c.Seed, c.Batch, salt)) {
		hsh ^= uint64(b)
		hsh *= 1099511628211
	}
	return rand.New(rand.NewSource(int64(hsh)))
}

// Journal writes a line to the journal before an operation, so a dying
// process can be attributed to the exact input.
func (c *Ctx) Journal(format string, a ...any) {
	if c.journal == nil {
		return
	}
	c.mu.Lock()
	fmt.Fprintf(c.journal, format+"\n", a...)
	c.mu.Unlock()
}

// WantCase reports whether the case should run (replay filter).
func (c *Ctx) WantCase(id string) bool { return c.OnlyCase == "" || c.OnlyCase == id }

func (c *Ctx) Eval(n int64) {
	c.mu.Lock()
	c.res.Evaluations += n
	c.mu.Unlock()
}

func (c *Ctx) Distinct(key string) {
	c.mu.Lock()
	c.distinct[key] = struct{}{}
	c.mu.Unlock()
}

func (c *Ctx) Count(name string, n int64) {
	c.mu.Lock()
	c.res.Counters[name] += n
	c.mu.Unlock()
}

func (c *Ctx) Note(k, v string) {
	c.mu.Lock()
	c.res.Notes[k] = v
	c.mu.Unlock()
}

func (c *Ctx) Sample(v any) {
	c.mu.Lock()
	if len(c.res.Samples) < c.maxSamp {
		c.res.Samples = append(c.res.Samples, v)
	}
	c.mu.Unlock()
}

// Violation records a witness. At most 3 witnesses per key are kept.
func (c *Ctx) Violation(key, caseID, what string, detail any) {
	c.mu.Lock()
	defer c.mu.Unlock()
	c.vioKeys[key]++
	c.res.Counters["violations_raw"]++
	if c.vioKeys[key] > 2 {
		return
	}
	c.res.Violations = append(c.res.Violations, Violation{Key: key, What: what, Case: caseID, Detail: detail})
}

func (c *Ctx) NViolations() int {
	c.mu.Lock()
	defer c.mu.Unlock()
	return len(c.res.Violations)
}

func (c *Ctx) Inconclusive(what string) {
	c.mu.Lock()
	if len(c.res.Inconclusive) < 50 {
		c.res.Inconclusive = append(c.res.Inconclusive, what)
	}
	c.res.Counters["inconclusive"]++
	c.mu.Unlock()
}

// Finish writes the result file atomically.
func (c *Ctx) Finish(path string) error { return c.write(path, true) }

func (c *Ctx) write(path string, done bool) error {
	c.mu.Lock()
	defer c.mu.Unlock()
	c.res.Done = done
	c.res.Distinct = c.res.Distinct[:0]
	for k := range c.distinct {
		c.res.Distinct = append(c.res.Distinct, k)
	}
	sort.Strings(c.res.Distinct)
	b, err := json.Marshal(&c.res)
	if err != nil {
		return err
	}
	tmp := path + ".tmp"
	if err := os.WriteFile(tmp, b, 0o644); err != nil {
		return err
	}
	return os.Rename(tmp, path)
}

// Hex renders bytes as lower-case hex, abbreviated when long.
func Hex(b []byte) string {
	const hexd = "0123456789abcdef"
	var sb strings.Builder
	n := len(b)
	lim := n
	if lim > 96 {
		lim = 96
	}
	for _, x := range b[:lim] {
		sb.WriteByte(hexd[x>>4])
		sb.WriteByte(hexd[x&15])
	}
	if n > lim {
		fmt.Fprintf(&sb, "…(+%d bytes)", n-lim)
	}
	return sb.String()
}

// HexFull renders all bytes.
func HexFull(b []byte) string {
	const hexd = "0123456789abcdef"
	out := make([]byte, 0, len(b)*2)
	for _, x := range b {
		out = append(out, hexd[x>>4], hexd[x&15])
	}
	return string(out)
}

func MustMkdir(p string) {
	_ = os.MkdirAll(p, 0o755)
}

func Abs(p string) string {
	a, err := filepath.Abs(p)
	if err != nil {
		return p
	}
	return a
}

// SetStartAfter makes Case() skip every case up to and including id
// (used to resume a batch after the process died at that case).
func (c *Ctx) SetStartAfter(id string) { c.startAfter = id; c.skipping = id != "" }

// Case journals the case id and reports whether it should run.
func (c *Ctx) Case(id string) bool {
	if c.skipping {
		if id == c.startAfter {
			c.skipping = false
		}
		return false
	}
	if c.OnlyCase != "" && c.OnlyCase != id {
		return false
	}
	c.Journal("CASE %s", id)
	c.nCases++
	if c.partialPath != "" && c.nCases%200 == 0 && time.Since(c.lastFlush) > 2*time.Second {
		c.lastFlush = time.Now()
		_ = c.write(c.partialPath, false)
	}
	return true
}

// SetPartialPath enables periodic snapshots of the observations made so far,
// so that a process death does not lose what was already observed.
func (c *Ctx) SetPartialPath(p string) { c.partialPath = p; c.lastFlush = time.Now() }
