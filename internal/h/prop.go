package h

import "sort"

// Prop describes one property's check.
type Prop struct {
	ID          string
	Level       string // evidence level: "exploration" ...
	Rule        string // how cases are generated and what counts as distinct non-trivial
	Assumptions []string
	Race        bool // children use the -race build
	// Batches returns the number of child batches for the tier.
	Batches func(thorough bool) int
	// Parallel caps concurrently running children (0 = 16).
	Parallel int
	// ChildTimeoutS is the watchdog for one child (seconds) per tier.
	ChildTimeoutS func(thorough bool) int
	// Run executes one batch inside a child process.
	Run func(c *Ctx)
	// Floors: counters that must be >= the value for the run to be conclusive.
	Floors map[string]int64
	// MinDistinct is the floor on distinct non-trivial cases (>=2).
	MinDistinct int
	// Env is extra environment for children.
	Env []string
	// MemLimitMB applies RLIMIT_AS (via prlimit in the shell wrapper) when > 0.
	MemLimitMB int
	// PostProcess lets a property analyse child stderr logs (race reports):
	// it receives the work directory and the merged result and may add
	// violations / counters.
	PostProcess func(workDir string, m *Merged)
}

// Merged is the orchestrator's union of all batch results.
type Merged struct {
	Evaluations  int64
	Distinct     map[string]struct{}
	Samples      []any
	Counters     map[string]int64
	Violations   []Violation
	VioBatch     []int
	Inconclusive []string
	Notes        map[string]string
}

var registry = map[string]*Prop{}

func Register(p *Prop) { registry[p.ID] = p }

func Lookup(id string) *Prop { return registry[id] }

func AllIDs() []string {
	var ids []string
	for k := range registry {
		ids = append(ids, k)
	}
	sort.Strings(ids)
	return ids
}
