#!/bin/bash
# builds bin/vdriver (and bin/vdriver-race for the properties that need it)
set -u
cd "$(dirname "$(readlink -f "$0")")"
export GOFLAGS=-mod=mod GOPROXY=off GOSUMDB=off GOTOOLCHAIN=local
prop="${1:-all}"
mkdir -p bin work
# registry of generated TLV models, rediscovered from /repo's current tree (C04, C13)
go run ./cmd/c13scan internal/reg/zz_registry.go >work/c13scan.log 2>&1 || { cat work/c13scan.log; exit 1; }
go build -tags verif -o bin/vdriver.tmp ./cmd/vdriver || exit 1
mv bin/vdriver.tmp bin/vdriver
case "$prop" in
  C15|C16|C20|all)
    go build -race -tags verif -o bin/vdriver-race.tmp ./cmd/vdriver || exit 1
    mv bin/vdriver-race.tmp bin/vdriver-race ;;
esac
exit 0
