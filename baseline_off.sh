#!/bin/bash
# Runs the repository's own test suite with the verif guard OFF (no -tags verif).
export GOFLAGS=-mod=mod GOPROXY=off GOSUMDB=off GOTOOLCHAIN=local
cd /repo && go build ./... && go test -mod=mod -vet=off -count=1 -timeout 25m ./... 
