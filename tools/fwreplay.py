#!/usr/bin/env python3
# compact print of a forwarder-history replay: fwreplay.py <file> [name-filter,...]
import json,sys
d=json.load(open(sys.argv[1])); flt=sys.argv[2].split(',') if len(sys.argv)>2 else None
print(d['key'],'|',d['case'],'batch',d['batch']); print(d['what'][:400])
det=d['detail']; print(det.get('options'),det.get('faces'))
for i,st in enumerate(det['history']):
    if st['Kind'] in('fib','strategy') and flt: continue
    if flt and st.get('Name','') not in flt and st['Kind'] in ('interest','data'): continue
    s=f"{i+1:2d} {st['Kind'][:4]} f{st.get('Face','')} {st.get('Name','')} cbp={int(st.get('CBP',False))} mbf={int(st.get('MBF',False))} n={st.get('Nonce')} hl={st.get('HopLimit')} life={st.get('LifeMs')} tok={st.get('Token','')[:12]} hints={st.get('Hints')} nh={st.get('NextHop')} tm={st.get('TokMode','')} sl={st.get('SleepMs','')} fib={st.get('FibOp','')}/{st.get('Cost','')} -> {st.get('Sends')}"
    print(s[:240])
print('pending',json.dumps(det.get('pending'))[:700]); print('other',det.get('other_properties_concerned'))
