#!/bin/bash
# tools/seedconfirm.sh <worktree>  : confirm a seeded change myself, in the scratch worktree
#  1. patch applies to a clean checkout, builds, existing suite passes
#  2. demo test fails with the change, passes without it
export GOFLAGS=-mod=mod GOPROXY=off GOSUMDB=off GOTOOLCHAIN=local
wt="$1"; cd "$wt" || exit 2
[ -f SEED/patch.diff ] || { echo "NO-PATCH"; exit 2; }
demo=$(git status --porcelain | awk '{print $2}' | grep 'zz_seed_demo_test.go$' | head -1)
[ -n "$demo" ] || demo=$(find . -name zz_seed_demo_test.go -not -path './SEED/*' | head -1)
[ -n "$demo" ] || { echo "NO-DEMO"; exit 2; }
pkgdir=$(dirname "$demo")
mkdir -p SEED/.keep && cp "$demo" SEED/.keep/demo_test.go
[ -f SEED/go.mod ] || printf 'module seedcopy\n\ngo 1.23\n' > SEED/go.mod   # keep the copied test out of ./...
# clean tree
git checkout -q -- . ; rm -f "$demo"
git apply --check SEED/patch.diff || { echo "PATCH-DOES-NOT-APPLY"; exit 1; }
# without change: demo passes
cp SEED/.keep/demo_test.go "$demo"
if go test -vet=off -count=1 "./$pkgdir/" -run . >SEED/.keep/demo_without.log 2>&1; then echo "demo-without-change: PASS"; else echo "demo-without-change: FAIL (bad)"; tail -5 SEED/.keep/demo_without.log; fi
rm -f "$demo"
git apply SEED/patch.diff
if go build ./... >SEED/.keep/build.log 2>&1; then echo "build-with-change: OK"; else echo "build-with-change: FAIL (bad)"; fi
if go test -vet=off -count=1 ./... >SEED/.keep/suite.log 2>&1; then echo "suite-with-change: PASS"; else echo "suite-with-change: FAIL (bad)"; grep -v "^ok\|no test files" SEED/.keep/suite.log | head -5; fi
cp SEED/.keep/demo_test.go "$demo"
if go test -vet=off -count=1 "./$pkgdir/" -run . >SEED/.keep/demo_with.log 2>&1; then echo "demo-with-change: PASS (bad)"; else echo "demo-with-change: FAIL (as required)"; fi
echo "demo-package: $pkgdir"; git diff --stat -- . ':!SEED' | tail -3
