#!/usr/bin/env python3
"""seedwave2.py <N> : prepare seeding wave N from scratch (the /tmp/seed base prompts of earlier
sessions are gone after a restore). Per property: a prompt /tmp/seed/Cxx.prompt<N>.txt made of the
property's text + the places earlier kept changes touched (nothing else from /verif), and a clean
scratch worktree /tmp/seed/Cxx of /repo's HEAD holding the prompt as SEED_TASK.txt."""
import sys, re, glob, os, subprocess, json
n = sys.argv[1]
head = subprocess.check_output(['git', '-C', '/repo', 'rev-parse', 'HEAD'], text=True).strip()
os.makedirs('/tmp/seed', exist_ok=True)
STEER = ("Re-read the property's 'Statement' and 'Quantified over' word by word and list (in SEED/NOTES.md) every clause and every "
 "quantified dimension; then pick the clause or dimension you judge LEAST likely to be exercised by an automated randomized checker "
 "built from that text and break exactly that, with a realistic-looking edit (something a maintainer could plausibly write as an "
 "optimisation, refactoring or feature). The breakage must be reachable through the entry points the real programs use (packets arriving "
 "on faces, management commands, the engine / object / store / codec API called the way the repository's own daemons and tools call it, "
 "configuration values) - not only by calling an internal helper with arguments no caller passes; say in NOTES.md through which entry "
 "point it is reached. Prefer a silently wrong result (wrong packet, wrong table content, wrong answer, lost or duplicated item) over a "
 "crash. The change must need something specific to manifest: a particular interleaving, a fault or error at a particular point, a "
 "multi-step sequence of operations, an unusual but legal input, or two cooperating sites that each look fine alone - not something "
 "ordinary use would expose at once. Good hunting grounds: a second instance of something usually used once (two listeners, engines, "
 "stores, threads); a value that is legal but rarely chosen (zero, maximum, equal to a neighbour, a boundary of an encoding length); an "
 "operation repeated or undone (register twice, remove then re-add, restart, reconnect); state carried over between two consecutive "
 "operations (a buffer, a cached pointer, a counter); a comparison that is right for the common type / length / sign and wrong for "
 "another; an error or clean-up path; the interplay of two features; a non-default configuration value.")
for line in open('/verif/properties.jsonl'):
    pr = json.loads(line)
    p = pr['id']
    places = []
    for d in sorted(glob.glob('/verif/seeded/%s-*/patch.diff' % p)):
        cur, funcs, fn = None, [], ''
        for l in open(d, errors='replace'):
            if l.startswith('+++ b/'):
                if cur: places.append('%s [%s]' % (cur, '; '.join(funcs)))
                cur, funcs, fn = l[6:].strip(), [], ''
            elif l.startswith('--- '):
                continue
            elif l.startswith('@@'):
                m = re.search(r'@@.*@@ (.*)', l)
                fn = m.group(1).strip()[:60] if m else ''
            elif cur and l[:1] in ' +-':
                body = l[1:]
                if body.startswith('func '):
                    fn = body.strip()[:60]
                if l[:1] in '+-' and body.strip() and not body.strip().startswith('//') and fn and fn not in funcs:
                    funcs.append(fn)
        if cur: places.append('%s [%s]' % (cur, '; '.join(funcs)))
    wt = '/tmp/seed/' + p
    out = f"""You are helping to test a verification harness by writing ONE deliberately faulty change ("seeded change") to a Go code base.

Repository: named-data/YaNFD (ndnd: Go implementation of the Named Data Networking stack: YaNFD forwarder, distance-vector router, TLV
codegen, std library). Your private scratch git worktree of it is {wt} - work ONLY there (never in /repo, never read /verif). Every
shell call needs: export GOFLAGS=-mod=mod GOPROXY=off GOSUMDB=off GOTOOLCHAIN=local   (no network in this sandbox).
The existing test suite is: go test -vet=off -count=1 ./...   (run from the worktree root; it passes on the unchanged tree).

The property your change must BREAK:

Id: {p}
Title: {pr['title']}
Statement: {pr['statement']}
Quantified over: {pr['quantifier']['text']}
Why the existing tests cannot settle it: {pr['why_tests_cant']}
Code the property is anchored in: {', '.join(pr['anchors']['files'])}

Task: make a small change to the repository's non-test Go code (no new build tags, do not touch any *_test.go or verif_hooks.go file, do
not edit files with `//go:build verif`) such that
  1. the repository still builds (go build ./...) and the existing test suite still passes, unedited;
  2. the property above is genuinely violated as stated;
  3. you demonstrate it with a NEW test file named zz_seed_demo_test.go placed in the package directory it needs (it may use
     unexported identifiers of that package); the test must FAIL with your change and PASS on the unchanged tree, deterministically
     (run it at least 3 times each way; no dependence on wall-clock luck; finish in under 60 s).

IMPORTANT - this is round {n}. Earlier exercises already produced changes in these places: {' | '.join(places)}. Your change must be in a function none of them touched and use a mechanism none of them used. {STEER}

Deliver, inside the worktree:
  SEED/patch.diff   - `git diff` of the non-test change only (must apply to a clean checkout with `git apply`; do NOT include the demo test
                      or the SEED directory in it);
  zz_seed_demo_test.go in its package directory (leave it there), and a copy SEED/zz_seed_demo_test.go;
  SEED/go.mod       - containing `module seedcopy` (so that `go test ./...` from the root does not compile the copy);
  SEED/NOTES.md     - what you changed and why it looks innocent, which clause / dimension it breaks, exactly what is needed for it to
                      manifest (inputs, sequence, interleaving, configuration), through which real entry point it is reached, and the
                      commands you ran with their outcome.
Leave the change applied in the worktree when you finish. Do not commit. Never use `git stash` (the stash is shared between all worktrees of this repository and other people work in sibling worktrees): to test without your change use `git apply -R SEED/patch.diff` and `git apply SEED/patch.diff`. Keep your final answer to a five-line summary.
"""
    open('/tmp/seed/%s.prompt%s.txt' % (p, n), 'w').write(out)
    if os.path.isdir(wt):
        subprocess.call(['git', '-C', '/repo', 'worktree', 'remove', '--force', wt])
    subprocess.check_call(['git', '-C', '/repo', 'worktree', 'add', '-q', '--detach', wt, head])
    open(wt + '/SEED_TASK.txt', 'w').write(out)
    print(p, len(places), 'places avoided')
