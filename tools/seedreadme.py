#!/usr/bin/env python3
"""seedreadme.py : regenerate /verif/seeded/README.md from the meta.json files."""
import json, glob, os
rows = []
for d in sorted(glob.glob('/verif/seeded/C*-*')):
    if not os.path.exists(d + '/meta.json'): continue
    m = json.load(open(d + '/meta.json'))
    rows.append(m)
out = ["# Seeded breaking changes", "",
"Each directory holds one change produced by a fresh sub-agent that was given only the text of one",
"property and a scratch git worktree of /repo (nothing from /verif). `patch.diff` applies with",
"`git -C /repo apply`; `demo_test.go.txt` is the agent's demonstration (fails with the change, passes",
"without it); `NOTES.md` is the agent's description of what the change needs to manifest; `meta.json`",
"records my own confirmation (tools/seedconfirm.sh: patch applies, builds, existing suite passes, demo",
"fails with / passes without) and the result of running the property's check with the change applied",
"(tools/seedrun.sh: apply, `./check <id> quick`, `git -C /repo checkout -- .`). None of these changes",
"is ever committed to /repo.", "",
"`caught`: yes = the check as it stood reported a VIOLATION at quick tier; after-strengthening = the",
"check missed it at quick tier, the workload/oracle was extended (described in the row) and it is now",
"caught, the extended check still being silent on the unchanged tree; no = still missed (reason given).", "",
"| seed | property | files changed | caught | check result |", "|---|---|---|---|---|"]
for m in rows:
    out.append("| %s | %s | %s | %s | %s |" % (m['seed'], m['property'], ', '.join(m['files_changed']), m['caught'], m['check_result'].replace('|', '/')))
open('/verif/seeded/README.md', 'w').write('\n'.join(out) + '\n')
print(len(rows), 'rows')
