#!/usr/bin/env python3
# usage: showreplay.py <prefix> [tail_steps]
import json,sys,glob
pat=sys.argv[1]; tail=int(sys.argv[2]) if len(sys.argv)>2 else 12
for f in sorted(glob.glob('/verif/replays/%s*.json'%pat)):
    d=json.load(open(f))
    print('=====',d['key'],'case',d['case'],'batch',d['batch'],'n',d['witnesses_with_this_key'])
    print('WHAT',d['what'][:400])
    det=d['detail']
    if not isinstance(det,dict): print(str(det)[:600]); continue
    for k,v in det.items():
        if k=='history':
            n=len(v)
            for i,st in enumerate(v):
                if i < n-tail: continue
                if isinstance(st,dict):
                    st={a:b for a,b in st.items() if b not in (None,'',False,[],0) or a in('Face',)}
                print('  %2d'%(i+1),json.dumps(st)[:260])
        else:
            print(' ',k,':',json.dumps(v)[:400])
