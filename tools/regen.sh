#!/bin/bash
# tools/regen.sh check|write : run the checked-in generator over every definition directory.
#  check: generate into a temp dir and compare with the checked-in zz_generated.go (prints DIFF <dir> lines)
#  write: overwrite the checked-in files (used when a fix changes the generator templates)
export GOFLAGS=-mod=mod GOPROXY=off GOSUMDB=off GOTOOLCHAIN=local
mode="${1:-check}"
out="${2:-/verif/work/regen.$$}"
mkdir -p "$out"
(cd /repo && go build -o "$out/gondn_tlv_gen" ./std/cmd/gondn_tlv_gen) || { echo "GENERATOR-BUILD-FAILED"; exit 2; }
rc=0
for f in $(cd /repo && find . -name zz_generated.go | sort); do
  d=$(dirname "$f")
  tag=$(echo "$d" | tr '/.' '__')
  (cd "/repo/$d" && "$out/gondn_tlv_gen" -input . -output "$out/$tag.go" >/dev/null 2>"$out/$tag.log") || { echo "GENERATOR-FAILED $d"; rc=1; continue; }
  if [ "$mode" = write ]; then
    cp "$out/$tag.go" "/repo/$d/zz_generated.go"
  elif ! cmp -s "$out/$tag.go" "/repo/$d/zz_generated.go"; then
    echo "DIFF $d"; rc=1
  else
    echo "SAME $d"
  fi
done
[ -z "${KEEP_REGEN:-}" ] && rm -rf "$out"
exit $rc
