#!/usr/bin/env python3
"""seedkeep.py <worktree> <seed-id> <property> <caught: yes|no|after-strengthening> <check-result-text> : archive a confirmed seeded change under /verif/seeded/<seed-id>/"""
import sys, os, shutil, json, glob, re
wt, sid, prop, caught, result = sys.argv[1:6]
dst = '/verif/seeded/' + sid
os.makedirs(dst, exist_ok=True)
shutil.copy(wt + '/SEED/patch.diff', dst + '/patch.diff')
demo = wt + '/SEED/.keep/demo_test.go'
if not os.path.exists(demo):
    c = [f for f in glob.glob(wt + '/SEED/*_test.go')]
    demo = c[0]
shutil.copy(demo, dst + '/demo_test.go.txt')
notes = open(wt + '/SEED/NOTES.md').read() if os.path.exists(wt + '/SEED/NOTES.md') else ''
shutil.copy(wt + '/SEED/NOTES.md', dst + '/NOTES.md') if notes else None
pkg = ''
m = re.search(r'demo-package: (\S+)', open('/tmp/seed/confirm_%s.log' % sid).read()) if os.path.exists('/tmp/seed/confirm_%s.log' % sid) else None
if m: pkg = m.group(1)
files = [l[6:].strip() for l in open(dst + '/patch.diff') if l.startswith('+++ b/')]
meta = {
    "seed": sid, "property": prop, "files_changed": files, "demo_package_dir": pkg,
    "needs_to_manifest": "see NOTES.md (written by the seeding agent)",
    "confirmed_by_me": {"how": "tools/seedconfirm.sh in a scratch worktree: patch applies to a clean checkout, go build ./... ok, existing suite passes with the change, demo test fails with the change and passes without it",
                        "log": open('/tmp/seed/confirm_%s.log' % sid).read() if os.path.exists('/tmp/seed/confirm_%s.log' % sid) else ''},
    "checks_run": "tools/seedrun.sh patch.diff %s quick (git -C /repo apply; ./check; git -C /repo checkout -- .)" % prop,
    "caught": caught, "check_result": result,
}
json.dump(meta, open(dst + '/meta.json', 'w'), indent=1)
print('kept', dst)
