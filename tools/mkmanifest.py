#!/usr/bin/env python3
"""Regenerates /verif/MANIFEST.json from the table below (kept in one place so it stays valid)."""
import json, subprocess, os
ALL = ["C%02d" % i for i in range(1, 21)]
# property -> (technique, level text, level note, design ref)
CHECKS = {
 "C01": ("reference-model monitor over a real forwarding thread driven synchronously through hooks; every send recorded by fake faces is checked against a pending-Interest model",
         "Per DATA step: sends only to faces holding a pending Interest the Data satisfies (token echo or name/CanBePrefix), exactly one byte-identical copy per surely-live pending Interest on faces other than the arrival face, with the token that face supplied; unknown 6-byte tokens reach nobody; the entry is consumed. Per cache answer: one Data, arrival face only, right token, satisfying name, last inserted bytes. ~600 histories (quick) / 24000 (thorough) of 25-60 steps, both strategies, cache on/off, both FIBs.",
         "Forwarder tokens are learned from observed forwarded Interests; expiry-dependent expectations use measured times and a 20 ms guard band (inside it 0..1 copies accepted); hooks: fw/fw, fw/table verif_hooks.go.", "5/C01"),
 "C02": ("reference-model monitor over a real forwarding thread: every Interest send recorded by fake faces is checked against an independent FIB/LPM + pending/dead-nonce/suppression model",
         "Per INTEREST step: copies only to next hops of the LPM entry (name / first hint outside the producer region / NextHopFaceId), never back to the point-to-point arrival face, once per face, hop limit decremented in the emitted bytes; no forwarding for hop limit 0, missing nonce, nonce pending from another face, dead nonce, new nonce inside the suppression interval; the first Interest with a usable next hop must be forwarded (best-route: lowest-cost usable hop; multicast: all usable hops).",
         "Must-record dead nonces: out-record nonces of entries satisfied by equal-name Data or expired unsatisfied; nonces the forwarder additionally lists as dead may be dropped; retransmissions after the suppression interval are left open; hooks as C01.", "5/C02"),
 "C03": ("runtime round-trip monitor: packet API output checked by an independent strict TLV walker and re-decoded under many segmentations",
         "Every generated (name, optional-field subset, payload split, signer) case is built by MakeData/MakeInterest, verified byte-level by an independent walker (exact lengths, shortest form, field bytes), and decoded contiguously and under 20-150 segmentations per packet; all decoded fields, the signed portion and the standalone Name/Component encoders are compared. ~10^4 (quick) to 10^5 (thorough) packets per run.",
         "Trusted: internal/tlvwalk and its container schema; Interest names without caller-invented ParametersSha256Digest components; nonce/hop-limit within their wire domain.", "5/C03"),
 "C04": ("sanitizing in sacrificial child processes: recover(), per-call heap-allocation meter, per-call watchdog, RLIMIT_AS, journal-attributed process death; structure-aware mutation of valid encodings",
         "Every decoder entry point discovered in the tree (all generated model parsers + packet/name readers, through the contiguous and the segmented reader) and the forwarder receive path (stream framing, NDNLP decode/reassembly/PIT-token dispatch with 1/2/8 threads) are fed ~4.5x10^5 (quick) to ~2.7x10^7 (thorough) hostile inputs; a panic, a process death, an allocation above 1 MiB + 256 x input, a call above 2 s / a 20 s hang, or a state change caused by an undecodable frame is a violation.",
         "Allocation measured through runtime/metrics; socket listeners are exercised through the functions their receive loops call; hooks: fw/face/verif_hooks.go.", "5/C04"),
 "C05": ("differential + reference-model monitor: both FIB implementations driven by the same operation history, every lookup and listing compared with an independent LPM map after every operation",
         "Histories of 25-55 insert/update/remove/clear/set/unset operations over nested and sibling prefixes (depth 0..6, names shorter/equal/longer than m, m in 1..6) run on the name-tree and hash-table FIB side by side; after every op all probe names are looked up on both (next hops as a set, strategy) and both listings are compared with the reference entries exactly.",
         "Results deep-copied by the harness; the root strategy is never unset at table level (management enforces that: C17).", "5/C05"),
 "C06": ("reference-model monitor: RIB operation histories against both FIBs, every lookup/listing compared after every operation with a from-scratch flattening of the harness's own route multiset",
         "Histories of register / re-register / unregister / face-cleanup over nested prefixes with gaps, 5 faces, 4 origins, 4 costs, all flag combinations; after every op FindNextHops for every probe name, GetAllFIBEntries and Rib.GetAllEntries must equal the reference flattening (own routes + child-inherit routes of shorter prefixes up to and including the nearest capture prefix; nothing inherited by a capture prefix; minimum cost per face).",
         "Flattening rule re-implemented from the statement; hooks: fw/table/verif_hooks.go (RIB reset between histories).", "5/C06"),
 "C07": ("reference-model monitor on a real PIT-CS table: lookups and insertions checked against an LRU/freshness/capacity model, cached-name set read through a structural hook",
         "Histories of inserts/refreshes (freshness absent/0/60 ms/1 h), exact and prefix lookups with both flags, capacity changes and sleeps; every lookup result is checked for name relation, bytes, freshness (outside a 15 ms guard band) and must-find; every insertion for size <= capacity, CsSize == walked entries, eviction count and LRU victim (interval model), cached set == model set.",
         "Guard band for wall-clock freshness; CanBePrefix lookups may or may not count as use; hooks: fw/table/verif_hooks.go.", "5/C07"),
 "C08": ("structural-invariant monitor at hooks after every step of forwarder/FIB/RIB histories + bounded-liveness check at quiescence by driving the reaper",
         "After every step of short-lifetime forwarder histories a white-box walk must find every PIT entry queued for expiry, counters == entries == index sizes, no dead branch; at quiescence (reaper driven until stable) the PIT is empty, the tree is exactly the paths to live cache entries and dead nonces are gone; after every op of FIB and RIB histories (both FIBs) the node/table sizes must equal what the live entries require, also after full teardown.",
         "Leak detection is structural (clock-independent); hooks: fw/table, fw/fw verif_hooks.go.", "5/C08"),
 "C09": ("negative + positive monitor on recorded sends of a real forwarding thread: names parsed from the bytes sent on non-local faces, table snapshots around rejected packets",
         "Forwarder histories with /localhost names in a third of traffic and routes (incl. default route and /localhost routes to non-local faces, cache hits, token-addressed Data, NextHopFaceId): no send on a non-local face may carry a /localhost name; a /localhost packet from a non-local face causes no send and no table change; local-to-local /localhost Interests with a local route must be forwarded and their Data delivered.",
         "Names parsed from recorded bytes by the independent walker; hooks as C01.", "5/C09"),
 "C10": ("runtime monitor on a real sender/receiver NDNLP link-service pair over a recording in-memory transport; frames checked by an independent walker; recorded deliveries compared with what was sent",
         "Valid packets of exact sizes (minimum..8800, boundary sizes around k x payload and MTU - overhead) x MTU 128..8800 x options x token/mark combinations are sent; every frame must fit the MTU and be one LpPacket, a fitting packet must be one frame, no truncation with fragmentation off; frames of up to three concurrent messages are delivered in shuffled/reversed/rotated order with a duplicated fragment; each message must arrive exactly once, byte-identical, with its PIT token and congestion mark. ~10^4 (quick) / 4.8x10^5 (thorough) cases.",
         "Header budget W computed by the harness from NDNLPv2 field sizes; link-service congestion marking switched off in the harness config; hooks: fw/face/verif_hooks.go.", "5/C10"),
 "C11": ("runtime monitor: the stream framing loop driven by a scripted io.Reader, delivered frames compared with the blocks written; StreamFace counterpart over a Unix socket",
         "Streams of 0.6-6 MB of well-formed blocks (1/3-byte types, 1/3/5-byte length forms, sizes 2..8800 including exactly 8800) are delivered under seven chunking plans (1-byte, small random, large random, whole-buffer, every cut inside T/L headers and one byte before block ends, 32x8800 wrap points, mixed); the frame sequence handed to the link layer must equal the block sequence exactly, the reader must return nil at EOF.",
         "Frames are copied inside the callback; kernel chunking of the socket counterpart is not controlled; hooks: fw/face/verif_hooks.go.", "5/C11"),
 "C12": ("runtime monitor: signer input vs parser-reported vs independently computed signed portion; exhaustive/sampled single-bit tampering against decode + matching validator",
         "For every generated signed packet (all shipped signers, Data and Interest variants) the bytes handed to the signer, the signed portion the parser returns (contiguous and segmented) and the spec-defined portion located by an independent walker must be identical, the matching validator and the harness's own crypto must accept; then every single-bit flip inside signed portion / signature value / parameters (all bits of small packets, uniform sample of large ones; ~7x10^5 flips per quick run) must be rejected; wrong parameter digests must be rejected.",
         "Trusted: internal/tlvwalk signed-range computation per NDN packet spec v0.3; Go crypto.", "5/C12"),
 "C13": ("runtime round-trip monitor over all generated models discovered by scanning the tree, unknown-element insertion at every boundary, byte comparison of regenerated code",
         "All generated models (79 today, rediscovered at check time from zz_generated.go + definition files) are exercised with type-directed values: announced length and wire plan vs bytes produced, strict TLV walk, Parse(Encode(v)) == v contiguous and segmented, unknown non-critical/critical element at every top-level boundary; and the generator is rebuilt from the tree and its output compared byte-for-byte with every checked-in zz_generated.go.",
         "Signature-valued fields are left empty here (covered by C03/C12); unexported marker fields are not compared; reflection reads the encoder's unexported length/wirePlan.", "5/C13"),
 "C15": ("runtime monitor of a real producer/consumer object.Client pair on two basic.Engines over harness faces and a shared virtual clock; a harness relay reorders and drops packets; callback log and reassembled bytes compared with what was published; store differential",
         "Contents around multiples of the 8000-byte segment size (1..200000 bytes, 1-7 input buffers, names with/without spare capacity), 1-4 versions in random order, optional removal of the newest, memory and bolt stores, clean / reordering / lossy-within-budget / beyond-budget relay profiles: completion must be reported exactly once; within the retry budget without error and byte-identical to the newest version; beyond it an error completion is accepted but silence or a second completion is not. MemoryStore and BoltStore must answer identically after the same Produce/Remove history.",
         "The virtual clock advances only when the relay queue is empty and both Client.run goroutines are parked in select (runtime.Stack); version 0 is not used.", "5/C15"),
 "C16": ("Go race detector over concurrent table-client and real-pipeline workloads (reports parsed, deduplicated by innermost repository frame pair, filtered to the shared-table code) + porcupine linearizability checking of recorded client histories + survival/deadlock watchdog",
         "Children are built with -race: 2..16 goroutines (GOMAXPROCS 2/4/16) register/unregister routes, tear faces down, edit FIB/strategies, list and look up like a forwarding thread (copy, sort by cost, read) on both FIBs; 4 real forwarding threads process Interests while tables are mutated; 2-4 clients record call/return-stamped histories that porcupine checks against a sequential flattening+LPM model including the final lookups. A race report with a side in fw/table, fw/face/table.go, fw/dispatch or the NLSR readvertiser, a crash, a 60 s stall or a non-linearizable history is a violation.",
         "Interleavings are sampled, not enumerated; race reports on statistics counters / harness / core.ShouldQuit are listed as out of scope in the evidence; porcupine timeout would be inconclusive.", "5/C16"),
 "C17": ("reference-model monitor over a running mini daemon (2 forwarding threads + management thread + link-service faces on recording transports) in a sacrificial child: responses, direct table reads and decoded status datasets are compared with a harness-side reference after every command",
         "Generated command histories (8 daemons per run: allow_localhop on/off x both FIBs; 400-6000 commands each): well-formed authorised commands must answer 200, echo the effective parameters (defaults: requesting face, origin app, cost 0, child-inherit) and leave RIB/FIB/strategy/CS/face tables and the five datasets equal to the reference; unauthorised commands (non-local face under /localhost/nfd, /localhop for non-RIB modules or while disabled, other prefixes) must change nothing; malformed / missing / out-of-range ones must answer 4xx and change nothing; the daemon must answer status/general after every command and survive small and 8800-byte packets on updated faces (process death is attributed through the journal).",
         "Plain build; CS serving is off so that datasets are not the 1 s-fresh cached copies; MTU 23..127 status left open; socket-based face creation not exercised; hooks: fw/face/verif_hooks.go (fd:// recording transport).", "5/C17"),
 "C18": ("reference-model monitor over N real dv.Router objects driven event by event through hooks: advertisements at every fixed point compared with BFS distances of the current topology; bounded-progress check on rounds",
         "Every connected graph on 2..5 routers (exhaustive up to isomorphism; 6 routers sampled in thorough), 2-6 PRNG-fair delivery schedules each (incl. a starved edge), 0-3 link/router removals and link additions: a full round without change must be reached within 2(N+16) rounds after each fault; there cost == hop distance (<16), next hop on a shortest path, unreachable destinations withdrawn, no advertisement ever lists cost >= 16, and next hops are identical across schedules.",
         "Delivery orders are sampled; neighbour expiry is triggered through a lastSeen hook + the real dead-neighbour check; hooks: dv/*/verif_hooks.go.", "5/C18"),
 "C19": ("reference-model monitor: the daemon's rib register/unregister command stream is replayed into a route table and compared after every event with a from-scratch computation from its tables; prefix-log replicas compared with the publisher's announced set",
         "On the C18 harness with prefix announcements/withdrawals (multi-homed included), link removals/additions and partial rounds: after every event the replayed route table must equal best + finite second-best next-hop faces at minimum cost for <router>/32=DV and every announced prefix; a peer following a publisher's 1-400 operation log through the router's own fetch loop (sequence-by-sequence, snapshot when more than 100 behind; gaps 1,2,5,99,100,101,102,130,150) must reconstruct exactly the announced set.",
         "Lost prefix Interests are not answered (no timeout simulation); infrastructure routes are filtered by name; hooks: dv/*/verif_hooks.go.", "5/C19"),
 "C20": ("reference-model monitor on a real basic.Engine over a harness face and a harness-owned virtual clock; per-Interest callback log checked against a pending-Interest model at every event",
         "Histories of EXPRESS/DATA/NACK/ADVANCE/ATTACH/DETACH/INCOMING/REPLY events (nested names with duplicates, CanBePrefix, implicit digests right and wrong, lifetimes 100 ms..4 s, clock advances across lifetime+margin boundaries): each callback at most once during and exactly once by the end, Data results only from satisfying Data, every unexpired pending Interest a Data satisfies resolved in that event, Nack only for exactly that name, timeouts never early and delivered by lifetime+margin, longest-prefix handler dispatch, Reply iff now <= deadline. ~2.4x10^4 (quick) / 6.4x10^5 (thorough) histories.",
         "Virtual ndn.Timer and face are harness code (internal/simeng); callbacks only record.", "5/C20"),
 "C14": ("runtime law monitor over generated name pairs/triples + panic sanitizing of the URI parsers",
         "Every law of the statement (canonical total order, Equal<=>encoding equality<=>Compare==0, prefix relation, Equal=>Hash equal, PrefixHash[i]=Hash(name[:i]), URI round trip, parsers never panic) is evaluated by an oracle on >10^5 generated, adversarially close cases per run; a run reports the distinct relation/shape classes it actually observed.",
         "Trusted: the harness's own 20-line canonical order; hash collisions are not searched for.", "5/C14"),
}
PENDING_REASON = "not claimed in this revision"
# workload families added in seeding waves 15-17 (DESIGN.md section 8.3), appended to the level texts
ADDENDA = {
 "C01": " Also a running two-thread daemon: exact and proper-prefix Interests (0-2 components, CanBePrefix) answered by a local producer or a non-local upstream with token-echoing or tokenless Data.",
 "C02": " Also: an Interest at an entry nothing was ever forwarded for must be forwarded; the duplicate-nonce rule across two forwarding threads with forwarding hints inside a producer region.",
 "C03": " Also: names of 31-129 components, P-224/P-521 signers, decoding must leave the caller's segmented wire unchanged.",
 "C04": " Also: a canary packet decoded after every eighth decoder call must always decode identically (no state carried between decodes).",
 "C05": " Also: a component spelling out the hash input of two components, digest-typed components, face ids equal modulo powers of two.",
 "C06": " Also: 17-40 faces on one prefix and the one below it.",
 "C07": " Also: the table's periodic maintenance call inside histories; returned slices are held and must never change.",
 "C08": " Also: a reclaim oracle right after every maintenance pass, a sustained backlog on a free-running thread, a configured dead-nonce lifetime of 0 ms.",
 "C09": " Also: the UDP listener over IPv4 and IPv6, local and non-local faces with ids equal modulo powers of two.",
 "C10": " Also: frames of a new peer through the real UDP listener (first frame up to the 8800-byte MTU), one packet object through the send queues of a backed-up and an idle face.",
 "C11": " Also: the forwarder's TCP / Unix stream listeners with plain clients, five-byte type numbers, bytes still unread when a stream face is closed and opened again.",
 "C12": " Also: 2400 RSA-1024 and several hundred ECDSA signatures per run (agreement oracle), a stale parameters digest as last name component.",
 "C13": " Also: unknown elements inserted inside nested structures and sequences of structures.",
 "C14": " Also: (almost-)UTF-8 component values, names of 31-70 components.",
 "C15": " Also: removal after the packets were served once, the same object fetched twice at once, object names with inner number components.",
 "C16": " Also: one route command recomputing 550-700 FIB entries while readers look the children up (each result must be one of the two legal sets).",
 "C17": " Also: faces/destroy of a face holding routes, a direct FIB next hop between two RIB routes.",
 "C18": " Also: the post-fault fixed point compared with a fresh convergence, nested router names, chains of five with a coalesced loss+gain.",
 "C19": " Also: publishers with 130-300 prefixes, nested announced names, monotonicity of the applied sequence number, a fetch-loop oracle.",
 "C20": " Also: explicit InterestLifetime 0, transport errors with Interests pending, route withdrawal with handlers attached.",
}

def main():
    here = os.path.dirname(os.path.dirname(os.path.abspath(__file__)))
    hooks_commits = []
    try:
        out = subprocess.check_output(["git", "-C", "/repo", "log", "--format=%H %s"], text=True)
        hooks_commits = [l.split()[0] for l in out.splitlines() if " verif-hooks:" in l or l.split(" ",1)[1].startswith("verif-hooks")]
    except Exception:
        pass
    checks = []
    for pid in ALL:
        if pid not in CHECKS: continue
        tech, text, note, ref = CHECKS[pid]
        text = text + ADDENDA.get(pid, "")
        checks.append({
            "property_id": pid,
            "quick_cmd": "./check %s quick" % pid,
            "thorough_cmd": "./check %s thorough" % pid,
            "evidence_file": "/verif/evidence/%s.json" % pid,
            "replay_cmd_template": "./check %s --replay {path}" % pid,
            "engine": "vdriver",
            "level_claimed": {"category": "exploration", "text": text, "design_ref": "DESIGN.md §" + ref},
            "level_note": note,
            "technique": tech,
        })
    m = {
        "version": 1,
        "setup_cmd": "./build.sh all",
        "hooks": {
            "guard": "verif",
            "enable": "go build -tags verif (the harness module replaces github.com/named-data/ndnd with /repo, so every check recompiles /repo's working tree)",
            "baseline_off_cmd": "/verif/baseline_off.sh",
            "source_commits": hooks_commits,
            "add_only": True,
        },
        "engines": [{"name": "vdriver", "path": "/verif/cmd/vdriver", "serves_properties": sorted(CHECKS.keys()),
                     "kind_free_text": "Go runtime monitors: orchestrator + sacrificial child processes running the real packages under reference-model / law / structural-invariant oracles, race detector build for concurrent properties"}],
        "checks": checks,
        "not_applicable": [{"property_id": p, "reason": PENDING_REASON} for p in ALL if p not in CHECKS],
        "notes": "Exit codes: 0 held on everything explored; 1 with VIOLATION line; 2 INCONCLUSIVE (coverage floor missed / watchdog), 3 build failure. VERIF_SEED selects the PRNG seed.",
    }
    json.dump(m, open(os.path.join(here, "MANIFEST.json"), "w"), indent=1)
    print("wrote MANIFEST.json with", len(checks), "checks")
main()
