#!/usr/bin/env python3
"""Regenerates /verif/MANIFEST.json from the table below (kept in one place so it stays valid)."""
import json, subprocess, os
ALL = ["C%02d" % i for i in range(1, 21)]
# property -> (technique, level text, level note, design ref)
CHECKS = {
 "C03": ("runtime round-trip monitor: packet API output checked by an independent strict TLV walker and re-decoded under many segmentations",
         "Every generated (name, optional-field subset, payload split, signer) case is built by MakeData/MakeInterest, verified byte-level by an independent walker (exact lengths, shortest form, field bytes), and decoded contiguously and under 20-150 segmentations per packet; all decoded fields, the signed portion and the standalone Name/Component encoders are compared. ~10^4 (quick) to 10^5 (thorough) packets per run.",
         "Trusted: internal/tlvwalk and its container schema; Interest names without caller-invented ParametersSha256Digest components; nonce/hop-limit within their wire domain.", "5/C03"),
 "C04": ("sanitizing in sacrificial child processes: recover(), per-call heap-allocation meter, per-call watchdog, RLIMIT_AS, journal-attributed process death; structure-aware mutation of valid encodings",
         "Every decoder entry point discovered in the tree (all generated model parsers + packet/name readers, through the contiguous and the segmented reader) and the forwarder receive path (stream framing, NDNLP decode/reassembly/PIT-token dispatch with 1/2/8 threads) are fed ~4.5x10^5 (quick) to ~2.7x10^7 (thorough) hostile inputs; a panic, a process death, an allocation above 1 MiB + 256 x input, a call above 2 s / a 20 s hang, or a state change caused by an undecodable frame is a violation.",
         "Allocation measured through runtime/metrics; socket listeners are exercised through the functions their receive loops call; hooks: fw/face/verif_hooks.go.", "5/C04"),
 "C10": ("runtime monitor on a real sender/receiver NDNLP link-service pair over a recording in-memory transport; frames checked by an independent walker; recorded deliveries compared with what was sent",
         "Valid packets of exact sizes (minimum..8800, boundary sizes around k x payload and MTU - overhead) x MTU 128..8800 x options x token/mark combinations are sent; every frame must fit the MTU and be one LpPacket, a fitting packet must be one frame, no truncation with fragmentation off; frames of up to three concurrent messages are delivered in shuffled/reversed/rotated order with a duplicated fragment; each message must arrive exactly once, byte-identical, with its PIT token and congestion mark. ~10^4 (quick) / 4.8x10^5 (thorough) cases.",
         "Header budget W computed by the harness from NDNLPv2 field sizes; link-service congestion marking switched off in the harness config; hooks: fw/face/verif_hooks.go.", "5/C10"),
 "C11": ("runtime monitor: the stream framing loop driven by a scripted io.Reader, delivered frames compared with the blocks written; StreamFace counterpart over a Unix socket",
         "Streams of 0.6-6 MB of well-formed blocks (1/3-byte types, 1/3/5-byte length forms, sizes 2..8800 including exactly 8800) are delivered under seven chunking plans (1-byte, small random, large random, whole-buffer, every cut inside T/L headers and one byte before block ends, 32x8800 wrap points, mixed); the frame sequence handed to the link layer must equal the block sequence exactly, the reader must return nil at EOF.",
         "Frames are copied inside the callback; kernel chunking of the socket counterpart is not controlled; hooks: fw/face/verif_hooks.go.", "5/C11"),
 "C12": ("runtime monitor: signer input vs parser-reported vs independently computed signed portion; exhaustive/sampled single-bit tampering against decode + matching validator",
         "For every generated signed packet (all shipped signers, Data and Interest variants) the bytes handed to the signer, the signed portion the parser returns (contiguous and segmented) and the spec-defined portion located by an independent walker must be identical, the matching validator and the harness's own crypto must accept; then every single-bit flip inside signed portion / signature value / parameters (all bits of small packets, uniform sample of large ones; ~7x10^5 flips per quick run) must be rejected; wrong parameter digests must be rejected.",
         "Trusted: internal/tlvwalk signed-range computation per NDN packet spec v0.3; Go crypto.", "5/C12"),
 "C13": ("runtime round-trip monitor over all generated models discovered by scanning the tree, unknown-element insertion at every boundary, byte comparison of regenerated code",
         "All generated models (79 today, rediscovered at check time from zz_generated.go + definition files) are exercised with type-directed values: announced length and wire plan vs bytes produced, strict TLV walk, Parse(Encode(v)) == v contiguous and segmented, unknown non-critical/critical element at every top-level boundary; and the generator is rebuilt from the tree and its output compared byte-for-byte with every checked-in zz_generated.go.",
         "Signature-valued fields are left empty here (covered by C03/C12); unexported marker fields are not compared; reflection reads the encoder's unexported length/wirePlan.", "5/C13"),
 "C14": ("runtime law monitor over generated name pairs/triples + panic sanitizing of the URI parsers",
         "Every law of the statement (canonical total order, Equal<=>encoding equality<=>Compare==0, prefix relation, Equal=>Hash equal, PrefixHash[i]=Hash(name[:i]), URI round trip, parsers never panic) is evaluated by an oracle on >10^5 generated, adversarially close cases per run; a run reports the distinct relation/shape classes it actually observed.",
         "Trusted: the harness's own 20-line canonical order; hash collisions are not searched for.", "5/C14"),
}
PENDING_REASON = "check not built yet in this revision (planned, see DESIGN.md section 5); no claim is made"
def main():
    here = os.path.dirname(os.path.dirname(os.path.abspath(__file__)))
    hooks_commits = []
    try:
        out = subprocess.check_output(["git", "-C", "/repo", "log", "--format=%H %s"], text=True)
        hooks_commits = [l.split()[0] for l in out.splitlines() if " verif-hooks:" in l or l.split(" ",1)[1].startswith("verif-hooks")]
    except Exception:
        pass
    checks = []
    for pid in ALL:
        if pid not in CHECKS: continue
        tech, text, note, ref = CHECKS[pid]
        checks.append({
            "property_id": pid,
            "quick_cmd": "./check %s quick" % pid,
            "thorough_cmd": "./check %s thorough" % pid,
            "evidence_file": "/verif/evidence/%s.json" % pid,
            "replay_cmd_template": "./check %s --replay {path}" % pid,
            "engine": "vdriver",
            "level_claimed": {"category": "exploration", "text": text, "design_ref": "DESIGN.md §" + ref},
            "level_note": note,
            "technique": tech,
        })
    m = {
        "version": 1,
        "setup_cmd": "./build.sh all",
        "hooks": {
            "guard": "verif",
            "enable": "go build -tags verif (the harness module replaces github.com/named-data/ndnd with /repo, so every check recompiles /repo's working tree)",
            "baseline_off_cmd": "/verif/baseline_off.sh",
            "source_commits": hooks_commits,
            "add_only": True,
        },
        "engines": [{"name": "vdriver", "path": "/verif/cmd/vdriver", "serves_properties": sorted(CHECKS.keys()),
                     "kind_free_text": "Go runtime monitors: orchestrator + sacrificial child processes running the real packages under reference-model / law / structural-invariant oracles, race detector build for concurrent properties"}],
        "checks": checks,
        "not_applicable": [{"property_id": p, "reason": PENDING_REASON} for p in ALL if p not in CHECKS],
        "notes": "Exit codes: 0 held on everything explored; 1 with VIOLATION line; 2 INCONCLUSIVE (coverage floor missed / watchdog), 3 build failure. VERIF_SEED selects the PRNG seed.",
    }
    json.dump(m, open(os.path.join(here, "MANIFEST.json"), "w"), indent=1)
    print("wrote MANIFEST.json with", len(checks), "checks")
main()
