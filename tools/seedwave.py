#!/usr/bin/env python3
"""seedwave.py <N> <ORDINAL> : prepare seeding wave N - per property a prompt file
/tmp/seed/Cxx.prompt<N>.txt (property text + places earlier kept seeds touched, nothing else from
/verif) and a clean scratch worktree /tmp/seed/Cxx at /repo's HEAD holding it as SEED_TASK.txt."""
import sys, re, glob, os, subprocess
n, ordinal = sys.argv[1], sys.argv[2]
head = subprocess.check_output(['git', '-C', '/repo', 'rev-parse', 'HEAD'], text=True).strip()
STEER = ("Re-read the property's 'Statement' and 'Quantified over' word by word and list (in NOTES.md) every clause and every "
 "quantified dimension; then pick the clause or dimension you judge LEAST likely to be exercised by an automated randomized checker "
 "built from that text and break exactly that, with a realistic-looking edit. Good hunting grounds this round: a file from the 'Code the "
 "property is anchored in' list (or a function it calls directly, possibly in another package) that no earlier change touched at all; an "
 "error or edge path (a lower layer returns an error / nil / zero length; a value at a type limit); the interplay of two features "
 "(feature A active while B happens); cleanup on teardown, reconnect or re-initialisation; behaviour under a non-default configuration "
 "value; two steps inside one function that commute on the common path but not on a rare one; a helper shared by several callers where "
 "only one caller's assumption breaks. It must be a genuine violation of the property as stated, build cleanly, pass the existing suite, "
 "and be invisible on the common path. Also put a small file SEED/go.mod containing `module seedcopy` next to the copied test so that "
 "`go test ./...` from the repository root does not compile the copy.")
STEER10 = ("Re-read the property's 'Statement' and 'Quantified over' word by word and list (in NOTES.md) every clause and every "
 "quantified dimension; then pick the clause or dimension you judge LEAST likely to be exercised by an automated randomized checker "
 "built from that text and break exactly that, with a realistic-looking edit. This round the breakage must be reachable through the "
 "entry points the real programs use (packets arriving on faces, management commands, the engine / object / store / codec API called the "
 "way the repository's own daemons and tools call it, configuration values) - not only by calling an internal helper with arguments no "
 "caller passes; say in NOTES.md through which entry point it is reached. Prefer a silently wrong result (wrong packet, wrong table "
 "content, wrong answer, lost or duplicated item) over a crash. Good hunting grounds: a second instance of something usually used once "
 "(two listeners, two engines, two stores, two threads); a value that is legal but rarely chosen (zero, maximum, equal to a neighbour); "
 "an operation repeated or undone (register twice, remove then re-add, restart); state carried over between two consecutive operations "
 "(a buffer, a cached pointer, a counter) ; a comparison that is right for the common type / length / sign and wrong for another. It "
 "must be a genuine violation of the property as stated, build cleanly, pass the existing suite, and be invisible on the common path. "
 "Also put a small file SEED/go.mod containing `module seedcopy` next to the copied test so that `go test ./...` from the repository "
 "root does not compile the copy.")
if int(n) >= 10:
    STEER = STEER10
for i in range(1, 21):
    p = 'C%02d' % i
    base = open('/tmp/seed/%s.prompt8.txt' % p).read()
    places = []
    for d in sorted(glob.glob('/verif/seeded/%s-*/patch.diff' % p)):
        cur, funcs, fn = None, [], ''
        for l in open(d, errors='replace'):
            if l.startswith('+++ b/'):
                if cur: places.append('%s [%s]' % (cur, '; '.join(funcs)))
                cur, funcs, fn = l[6:].strip(), [], ''
            elif l.startswith('--- '):
                continue
            elif l.startswith('@@'):
                m = re.search(r'@@.*@@ (.*)', l)
                fn = m.group(1).strip()[:60] if m else ''
            elif cur and l[:1] in ' +-':
                body = l[1:]
                if body.startswith('func '):
                    fn = body.strip()[:60]      # the function the following lines belong to
                if l[:1] in '+-' and body.strip() and not body.strip().startswith('//') and fn and fn not in funcs:
                    funcs.append(fn)
        if cur: places.append('%s [%s]' % (cur, '; '.join(funcs)))
    imp = ("IMPORTANT - this is a %s round. Earlier exercises already produced changes in these places: %s. Your change must be in a "
           "function none of them touched and use a mechanism none of them used. %s" % (ordinal, ' | '.join(places), STEER))
    out = re.sub(r'IMPORTANT - this is an EIGHTH round\..*?\n', lambda m: imp + '\n', base, count=1, flags=re.S)
    assert out != base
    open('/tmp/seed/%s.prompt%s.txt' % (p, n), 'w').write(out)
    wt = '/tmp/seed/' + p
    subprocess.check_call(['git', '-C', wt, 'checkout', '-q', '--', '.'])
    subprocess.check_call(['git', '-C', wt, 'clean', '-fdq'])
    subprocess.check_call(['git', '-C', wt, 'checkout', '-q', '--detach', head])
    open(wt + '/SEED_TASK.txt', 'w').write(out)
    print(p, len(places), 'places avoided')
