#!/bin/bash
# tools/seedregress.sh [pattern] : re-run every kept seeded change against its property's quick check
# (apply to /repo, check, undo). Prints one line per seed: CAUGHT / MISSED / N-A (patch no longer
# applies) / NEUTRALISED (a later fix: commit in /repo made the change harmless; meta.json says which).
# meta.json may name another property's check in "regress_prop" (a change filed under one property
# but anchored in another's code).
cd /verif || exit 2
pat="${1:-C}"
for d in seeded/${pat}*/; do
  s=$(basename "$d"); prop=${s%%-*}
  [ -f "$d/patch.diff" ] || continue
  rp=$(python3 -c "import json;print(json.load(open('/verif/$d/meta.json')).get('regress_prop',''))" 2>/dev/null)
  [ -n "$rp" ] && prop=$rp
  neut=$(python3 -c "import json;print(json.load(open('/verif/$d/meta.json')).get('neutralised_by',''))" 2>/dev/null)
  if ! git -C /repo apply --check "/verif/$d/patch.diff" 2>/dev/null; then echo "$s N-A (patch does not apply to the current tree)"; continue; fi
  out=$(tools/seedrun.sh "/verif/$d/patch.diff" "$prop" quick 2>&1)
  rc=$(echo "$out" | grep -o '^exit=[0-9]*' | head -1)
  n=$(echo "$out" | grep -o '^violations: [0-9]*' | head -1)
  if [ "$rc" = "exit=1" ]; then echo "$s CAUGHT by $prop ($n)";
  elif [ -n "$neut" ]; then echo "$s NEUTRALISED ($neut)";
  else echo "$s MISSED ($rc $n)"; fi
done
