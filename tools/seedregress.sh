#!/bin/bash
# tools/seedregress.sh [pattern] : re-run every kept seeded change against its property's quick check
# (apply to /repo, check, undo). Prints one line per seed: CAUGHT / MISSED / N-A (patch no longer applies).
cd /verif || exit 2
pat="${1:-C}"
for d in seeded/${pat}*-*/; do
  s=$(basename "$d"); prop=${s%%-*}
  [ -f "$d/patch.diff" ] || continue
  if ! git -C /repo apply --check "/verif/$d/patch.diff" 2>/dev/null; then echo "$s N-A (patch does not apply to the current tree)"; continue; fi
  out=$(tools/seedrun.sh "/verif/$d/patch.diff" "$prop" quick 2>&1)
  rc=$(echo "$out" | grep -o '^exit=[0-9]*' | head -1)
  n=$(echo "$out" | grep -o '^violations: [0-9]*' | head -1)
  if [ "$rc" = "exit=1" ]; then echo "$s CAUGHT ($n)"; else echo "$s MISSED ($rc $n)"; fi
done
