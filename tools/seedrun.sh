#!/bin/bash
# tools/seedrun.sh <patch.diff> <Cnn> [tier] : apply a seeded change to /repo, run a check, undo.
patch="$1"; prop="$2"; tier="${3:-quick}"
cd /repo || exit 2
[ -z "$(git status --porcelain)" ] || { echo "/repo not clean"; exit 2; }
git apply "$patch" || { echo "patch does not apply to /repo"; exit 2; }
cd /verif && ./check "$prop" "$tier" > work/seedrun.$$.log 2>&1; rc=$?
git -C /repo checkout -q -- .
echo "exit=$rc"; grep -c '^VIOLATION' work/seedrun.$$.log | sed 's/^/violations: /'; grep 'what:' work/seedrun.$$.log | head -4 | cut -c1-330; tail -1 work/seedrun.$$.log | cut -c1-200
# restore evidence written while the tree was modified
git -C /verif checkout -q -- evidence 2>/dev/null
rm -f work/seedrun.$$.log
exit $rc
