// vdriver: orchestrator ("run") and sacrificial child ("child") in one binary.
package main

import (
	"fmt"
	"os"
	"strconv"
	"strings"

	"verif/internal/h"
	"verif/internal/orch"

	_ "verif/internal/props"
)

func main() {
	if len(os.Args) < 2 {
		fmt.Fprintln(os.Stderr, "usage: vdriver run <prop> <tier> | child ... | list")
		os.Exit(3)
	}
	switch os.Args[1] {
	case "list":
		for _, id := range h.AllIDs() {
			fmt.Println(id)
		}
	case "run":
		o := orch.Options{PropID: os.Args[2], Tier: "quick", Bin: os.Getenv("VERIF_BIN"), RaceBin: os.Getenv("VERIF_RACE_BIN")}
		for i := 3; i < len(os.Args); i++ {
			switch a := os.Args[i]; {
			case a == "quick" || a == "thorough":
				o.Tier = a
			case a == "--replay" && i+1 < len(os.Args):
				o.Replay = os.Args[i+1]
				i++
			}
		}
		os.Exit(orch.Run(o))
	case "child":
		// child <prop> <tier> <seed> <batch> <nbatch> <workdir> <resultpath> <journalpath>
		a := os.Args[2:]
		if len(a) < 8 {
			os.Exit(3)
		}
		p := h.Lookup(a[0])
		if p == nil {
			os.Exit(3)
		}
		seed, _ := strconv.ParseInt(a[2], 10, 64)
		batch, _ := strconv.Atoi(a[3])
		nbatch, _ := strconv.Atoi(a[4])
		c := h.NewCtx(a[0], a[1], seed, batch, nbatch, a[5], a[7], os.Getenv("VERIF_ONLY_CASE"))
		if sa := os.Getenv("VERIF_START_AT"); strings.HasPrefix(sa, "after:") {
			c.SetStartAfter(strings.TrimPrefix(sa, "after:"))
		}
		c.SetPartialPath(a[6] + ".partial")
		p.Run(c)
		if err := c.Finish(a[6]); err != nil {
			fmt.Fprintln(os.Stderr, "finish:", err)
			os.Exit(4)
		}
	default:
		os.Exit(3)
	}
}
